/-
  C07 (model link) — the serially written algorithm models really have the rayon shape.

  Props/C07.lean proves, for ARBITRARY `f` and `fold`, that
      dispatch threshold threads f xs sched fold = some (fold (xs.map f))
  for every thread count, every threshold and every schedule that completes every item.
  This file supplies the missing link for the five call sites: for each of
  `Store.betweenness`, `Store.closeness`, `Store.allPairs`, `Store.multiSource`
  (and `Store.pathsInvolving`, which goes through `all_pairs`) it

   1. defines the per-item function `f` (the closure passed to `.map(..)`) and the sequential
      `fold` (the code after `.collect()`), mirroring the Rust split;
   2. proves the *shape theorem*: the serial model equals `fold (xs.map f)` (after the
      sequential prologue of the function, if it has one);
   3. concludes `dispatch … f xs sched fold = some (serial model)`.

  Items that can fail (`unwrap` inside the closure) return an `Outcome`; the `fold` then does
  the monadic sequencing in index order.  `fold` only consumes the list of per-item results, it
  never calls `f`.

  For the three functions with a sequential prologue before the parallel section (closeness:
  `reverse().unwrap()`; all_pairs: `ensure_weighted()?`, `get_node_index(t)?`; multi_source: the
  two `NodeNotFound` checks) the prologue is a separate definition `…Pre`, and the whole Rust
  function *with* its `match parallel { true => …, false => … }` is written out as `Store.…Par`
  (prologue, then `dispatch`); the `…_par` theorems say it returns the serial model's result.
-/
import GraphrsModel.Props.C07
import GraphrsModel.Model.Centrality
namespace Graphrs

/-! ## generic helpers -/

/-- Every index of `xs` is completed by the schedule. -/
abbrev Covers {α} (xs : List α) (sched : List Nat) : Prop := ∀ i, i < xs.length → i ∈ sched

/-- Sequential consumption of a vector of fallible per-item results, in index order:
    the first failing item (or failing step) in index order decides. -/
def seqFold {β γ} (step : γ → β → Outcome γ) (init : γ) (items : List (Outcome β)) : Outcome γ :=
  items.foldl (fun acc item => do
    let out ← acc
    let b ← item
    step out b) (.ok init)

private theorem foldl_congr {α β} (g h : β → α → β) (hgh : ∀ b a, g b a = h b a) (l : List α) (b : β) :
    l.foldl g b = l.foldl h b := by
  have : g = h := funext fun b => funext fun a => hgh b a
  rw [this]

/-- A serial loop `for x in xs { out ← acc; b ← f x; step out b }` is `seqFold step` over `xs.map f`. -/
private theorem seqFold_map {α β γ} (f : α → Outcome β) (step : γ → β → Outcome γ) (init : γ) (xs : List α) :
    seqFold step init (xs.map f) =
      xs.foldl (fun acc x => do
        let out ← acc
        let b ← f x
        step out b) (.ok init) := by
  unfold seqFold
  rw [List.foldl_map]

/-! ## betweenness.rs -/

/-- The rayon work item of `betweenness_centrality`:
    ```
    .map(|source| match weighted { true => dijkstra(graph, source), false => bfs(graph, source) })
    ``` -/
def Store.bcItem (s : Store) (weighted : Bool) (source : Nat) : SSR :=
  let adjOf := fun v => s.succVec[v]?.getD []
  if weighted then bcDijkstra adjOf s.numberOfNodes s.totalAdj source else bcBfs adjOf s.numberOfNodes source

/-- The code after `.collect()`:
    ```
    let mut betweenness = vec![0.0; graph.number_of_nodes()];
    for r in results { accumulate_betweenness(&mut betweenness, &r); }
    rescale(&mut betweenness, graph.get_all_nodes().len(), normalized, graph.specs.directed);
    betweenness.into_iter().enumerate()
        .map(|(i, v)| (graph.get_node_by_index(&i).unwrap().name.clone(), v)).collect()
    ``` -/
def Store.bcFold (s : Store) (normalized : Bool) (results : List SSR) : Outcome (List (Nat × Rat)) :=
  let bc := results.foldl accumulate (List.replicate s.numberOfNodes (0 : Rat))
  let bc := match bcScale s.getAllNodes.length normalized s.specs.directed with
    | some sc => bc.map (· * sc)
    | none => bc
  bc.zipIdx.foldl (fun acc p => do
    let out ← acc
    let nd ← Outcome.ofOption "betweenness: get_node_by_index().unwrap()" (s.getNodeByIndex p.2)
    .ok (ainsert out nd.name p.1)) (.ok [])

/-- **Shape theorem** for `Store.betweenness`. -/
theorem betweenness_shape (s : Store) (weighted normalized : Bool) :
    s.betweenness weighted normalized =
      s.bcFold normalized ((List.range s.numberOfNodes).map (s.bcItem weighted)) := by
  unfold Store.betweenness Store.bcFold Store.bcItem
  simp only [List.foldl_map]
  rfl

/-- `betweenness_centrality` returns the serial model's result for every thread count, threshold and
    completing schedule. -/
theorem C07_model_betweenness (s : Store) (weighted normalized : Bool) (threshold threads : Nat)
    (sched : List Nat) (h : Covers (List.range s.numberOfNodes) sched) :
    dispatch threshold threads (s.bcItem weighted) (List.range s.numberOfNodes) sched (s.bcFold normalized)
      = some (s.betweenness weighted normalized) := by
  rw [betweenness_shape]
  exact C07_threads_independent threshold threads _ _ _ sched h

/-! ## closeness.rs -/

/-- The sequential prologue of `closeness_centrality`:
    ```
    let mut the_graph = graph;
    if graph.specs.directed { x = graph.reverse().unwrap(); the_graph = &x; }
    ``` -/
def Store.closenessPre (s : Store) : Outcome Store :=
  if s.specs.directed then s.reverse.unwrap "closeness: reverse().unwrap()" else .ok s

/-- The rayon work item of `closeness_centrality` (`g` is `the_graph`):
    ```
    .map(|source| {
        let shortest_paths = match weighted {
            true => single_source_shortest_path_length_weighted(the_graph, source),
            false => single_source_shortest_path_length_unweighted(the_graph, source), };
        let cc = get_node_centrality(&shortest_paths, num_nodes, wf_improved);
        let node_name = the_graph.get_node_by_index(&source).unwrap().name.clone();
        (node_name, cc) })
    ``` -/
def Store.ccItem (g : Store) (weighted wf : Bool) (source : Nat) : Outcome (Nat × Rat) := do
  let n := g.numberOfNodes
  let adjOf := fun v => g.succVec[v]?.getD []
  let sp := if weighted then ccWeighted adjOf n g.totalAdj source else ccLevels adjOf n (n + 1) [source] [] 0 []
  let cc := nodeCentrality sp n wf
  let nd ← Outcome.ofOption "closeness: get_node_by_index().unwrap()" (g.getNodeByIndex source)
  .ok (nd.name, cc)

/-- The code after `.collect()`:
    ```
    let mut centralities = HashMap::new();
    for (node, cc) in results { centralities.insert(node, cc); }
    Ok(centralities)
    ``` -/
def ccFold (results : List (Outcome (Nat × Rat))) : Outcome (List (Nat × Rat)) :=
  seqFold (fun centralities r => .ok (ainsert centralities r.1 r.2)) [] results

/-- the serial loop of `Store.closeness` over `the_graph = g` is `ccFold` of the mapped items -/
private theorem closeness_loop (g : Store) (weighted wf : Bool) :
    (List.range g.numberOfNodes).foldl (fun acc src => do
      let out ← acc
      let sp := if weighted then ccWeighted (fun v => g.succVec[v]?.getD []) g.numberOfNodes g.totalAdj src
                else ccLevels (fun v => g.succVec[v]?.getD []) g.numberOfNodes (g.numberOfNodes + 1) [src] [] 0 []
      let nd ← Outcome.ofOption "closeness: get_node_by_index().unwrap()" (g.getNodeByIndex src)
      .ok (ainsert out nd.name (nodeCentrality sp g.numberOfNodes wf))) (.ok [])
    = ccFold ((List.range g.numberOfNodes).map (g.ccItem weighted wf)) := by
  unfold ccFold
  rw [seqFold_map]
  apply foldl_congr
  intro acc src
  cases acc with
  | ok out =>
    unfold Store.ccItem
    cases g.getNodeByIndex src <;> rfl
  | err k => rfl
  | panic m => rfl

/-- **Shape theorem** for `Store.closeness`: the prologue, then `fold (xs.map f)`. -/
theorem closeness_shape (s : Store) (weighted wf : Bool) :
    s.closeness weighted wf = (do
      let g ← s.closenessPre
      ccFold ((List.range g.numberOfNodes).map (g.ccItem weighted wf))) := by
  unfold Store.closeness Store.closenessPre
  by_cases hd : s.specs.directed = true
  · simp only [hd, if_true]
    congr 1
    funext g
    exact closeness_loop g weighted wf
  · simp only [hd, if_false, Bool.false_eq_true]
    exact closeness_loop s weighted wf

/-- The parallel section of `closeness_centrality` (entered with `the_graph = g`) returns what the serial
    loop returns, for every thread count, threshold and completing schedule. -/
theorem C07_model_closeness (s g : Store) (weighted wf : Bool) (hg : s.closenessPre = .ok g)
    (threshold threads : Nat) (sched : List Nat) (h : Covers (List.range g.numberOfNodes) sched) :
    dispatch threshold threads (g.ccItem weighted wf) (List.range g.numberOfNodes) sched ccFold
      = some (s.closeness weighted wf) := by
  rw [closeness_shape, hg]
  exact C07_threads_independent threshold threads _ _ _ sched h

/-- If the prologue fails, the parallel section is never reached. -/
theorem closeness_pre_fail (s : Store) (weighted wf : Bool) :
    (∀ k, s.closenessPre = .err k → s.closeness weighted wf = .err k) ∧
    (∀ m, s.closenessPre = .panic m → s.closeness weighted wf = .panic m) := by
  constructor <;> intro x hx <;> rw [closeness_shape, hx] <;> rfl

/-- `closeness_centrality` as written in Rust, with its `match parallel { true => .., false => .. }`. -/
def Store.closenessPar (s : Store) (weighted wf : Bool) (threshold threads : Nat) (sched : List Nat) :
    Option (Outcome (List (Nat × Rat))) :=
  match s.closenessPre with
  | .ok g => dispatch threshold threads (g.ccItem weighted wf) (List.range g.numberOfNodes) sched ccFold
  | .err k => some (.err k)
  | .panic m => some (.panic m)

theorem C07_model_closeness_par (s : Store) (weighted wf : Bool) (threshold threads : Nat) (sched : List Nat)
    (h : ∀ g, s.closenessPre = .ok g → Covers (List.range g.numberOfNodes) sched) :
    s.closenessPar weighted wf threshold threads sched = some (s.closeness weighted wf) := by
  unfold Store.closenessPar
  cases hg : s.closenessPre with
  | ok g => exact C07_model_closeness s g weighted wf hg threshold threads sched (h g hg)
  | err k => rw [(closeness_pre_fail s weighted wf).1 k hg]
  | panic m => rw [(closeness_pre_fail s weighted wf).2 m hg]

/-! ## dijkstra.rs: all_pairs -/

/-- The sequential prologue of `all_pairs` (and the `target_index` computed at the top of
    `all_pairs_iter` / `all_pairs_par_iter`, before the iterator is built):
    ```
    if weighted { graph.ensure_weighted()?; }
    if let Some(t) = &target { graph.get_node_index(t)?; }
    let target_index = match target.clone() { Some(t) => Some(graph.get_node_index(&t).unwrap()), None => None };
    ``` -/
def Store.allPairsPre (s : Store) (weighted : Bool) (target : Option Nat) : Outcome (Option Nat) := do
  if weighted then s.ensureWeighted
  match target with
    | some t => (s.getNodeIndex t).map' some
    | none => .ok none

/-- The rayon work item of `all_pairs_par_iter` (identical to the closure of `all_pairs_iter`):
    ```
    .map(move |node_index| {
        let ss_index = match can_use_basic(target.clone(), cutoff, first_only, with_paths) {
            true => dijkstra_basic(graph, weighted, node_index),
            false => dijkstra(graph, weighted, node_index, target_index, cutoff, first_only, with_paths),
        }.unwrap();
        (node_index, ss_index) })
    ``` -/
def Store.apItem (s : Store) (weighted : Bool) (ti target : Option Nat) (cutoff2 : Option Int)
    (firstOnly withPaths : Bool) (nodeIndex : Nat) : Outcome (Nat × List (Nat × SPInfo)) := do
  let ss ← (s.runOne weighted nodeIndex ti target cutoff2 firstOnly withPaths)
  .ok (nodeIndex, ss)

/-- The code after `.collect::<Vec<(usize, Vec<(usize, ShortestPathInfo<usize>)>)>>()` in `all_pairs`:
    ```
    shortest_paths_vecs.into_iter().map(|(source, shortest_paths)| {
        let source_name = graph.get_node_by_index(&source).unwrap().name.clone();
        let shortest_paths_t = convert_shortest_path_info_vec_to_t_map(graph, shortest_paths);
        (source_name, shortest_paths_t) }).collect()       // into a HashMap
    ``` -/
def Store.apFold (s : Store) (vecs : List (Outcome (Nat × List (Nat × SPInfo)))) :
    Outcome (List (Nat × List (Nat × SPInfo))) :=
  seqFold (fun x p => do
    let src ← Outcome.ofOption "all_pairs: get_node_by_index().unwrap()" (s.getNodeByIndex p.1)
    let named ← s.spToNames p.2
    .ok (ainsert x src.name named)) [] vecs

/-- the serial loop of `Store.allPairs` is `apFold` of the mapped items -/
private theorem allPairs_loop (s : Store) (weighted : Bool) (ti target : Option Nat) (cutoff2 : Option Int)
    (firstOnly withPaths : Bool) :
    (List.range s.numberOfNodes).foldl (fun acc i => do
      let out ← acc
      let r ← (s.runOne weighted i ti target cutoff2 firstOnly withPaths)
      let src ← Outcome.ofOption "all_pairs: get_node_by_index().unwrap()" (s.getNodeByIndex i)
      let named ← s.spToNames r
      .ok (ainsert out src.name named)) (.ok [])
    = s.apFold ((List.range s.numberOfNodes).map (s.apItem weighted ti target cutoff2 firstOnly withPaths)) := by
  unfold Store.apFold
  rw [seqFold_map]
  apply foldl_congr
  intro acc i
  cases acc with
  | ok out =>
    unfold Store.apItem
    cases (s.runOne weighted i ti target cutoff2 firstOnly withPaths) <;> rfl
  | err k => rfl
  | panic m => rfl

/-- **Shape theorem** for `Store.allPairs`: the prologue, then `fold (xs.map f)`. -/
theorem allPairs_shape (s : Store) (weighted : Bool) (target : Option Nat) (cutoff2 : Option Int)
    (firstOnly withPaths : Bool) :
    s.allPairs weighted target cutoff2 firstOnly withPaths = (do
      let ti ← s.allPairsPre weighted target
      s.apFold ((List.range s.numberOfNodes).map (s.apItem weighted ti target cutoff2 firstOnly withPaths))) := by
  unfold Store.allPairs Store.allPairsPre
  simp only [allPairs_loop]
  cases weighted <;> cases target with
  | none => first | rfl | (cases s.ensureWeighted <;> rfl)
  | some t =>
    first
    | (cases s.getNodeIndex t <;> rfl)
    | (cases s.ensureWeighted <;> first | rfl | (cases s.getNodeIndex t <;> rfl))

/-- The parallel section of `all_pairs` (entered with `target_index = ti`) followed by the sequential
    renaming returns what the serial model returns, for every thread count, threshold and completing schedule. -/
theorem C07_model_all_pairs (s : Store) (weighted : Bool) (target : Option Nat) (cutoff2 : Option Int)
    (firstOnly withPaths : Bool) (ti : Option Nat) (hpre : s.allPairsPre weighted target = .ok ti)
    (threshold threads : Nat) (sched : List Nat) (h : Covers (List.range s.numberOfNodes) sched) :
    dispatch threshold threads (s.apItem weighted ti target cutoff2 firstOnly withPaths)
        (List.range s.numberOfNodes) sched s.apFold
      = some (s.allPairs weighted target cutoff2 firstOnly withPaths) := by
  rw [allPairs_shape, hpre]
  exact C07_threads_independent threshold threads _ _ _ sched h

/-- If the prologue fails, the parallel section is never reached. -/
theorem allPairs_pre_fail (s : Store) (weighted : Bool) (target : Option Nat) (cutoff2 : Option Int)
    (firstOnly withPaths : Bool) :
    (∀ k, s.allPairsPre weighted target = .err k → s.allPairs weighted target cutoff2 firstOnly withPaths = .err k) ∧
    (∀ m, s.allPairsPre weighted target = .panic m →
      s.allPairs weighted target cutoff2 firstOnly withPaths = .panic m) := by
  constructor <;> intro x hx <;> rw [allPairs_shape, hx] <;> rfl

/-- `all_pairs` as written in Rust, with its `match parallel { true => .., false => .. }`. -/
def Store.allPairsPar (s : Store) (weighted : Bool) (target : Option Nat) (cutoff2 : Option Int)
    (firstOnly withPaths : Bool) (threshold threads : Nat) (sched : List Nat) :
    Option (Outcome (List (Nat × List (Nat × SPInfo)))) :=
  match s.allPairsPre weighted target with
  | .ok ti => dispatch threshold threads (s.apItem weighted ti target cutoff2 firstOnly withPaths)
      (List.range s.numberOfNodes) sched s.apFold
  | .err k => some (.err k)
  | .panic m => some (.panic m)

theorem C07_model_all_pairs_par (s : Store) (weighted : Bool) (target : Option Nat) (cutoff2 : Option Int)
    (firstOnly withPaths : Bool) (threshold threads : Nat) (sched : List Nat)
    (h : Covers (List.range s.numberOfNodes) sched) :
    s.allPairsPar weighted target cutoff2 firstOnly withPaths threshold threads sched
      = some (s.allPairs weighted target cutoff2 firstOnly withPaths) := by
  unfold Store.allPairsPar
  cases hpre : s.allPairsPre weighted target with
  | ok ti => exact C07_model_all_pairs s weighted target cutoff2 firstOnly withPaths ti hpre threshold threads sched h
  | err k => rw [(allPairs_pre_fail s weighted target cutoff2 firstOnly withPaths).1 k hpre]
  | panic m => rw [(allPairs_pre_fail s weighted target cutoff2 firstOnly withPaths).2 m hpre]

/-! ## dijkstra.rs: get_all_shortest_paths_involving (through `all_pairs`) -/

/-- The code of `get_all_shortest_paths_involving` after the call of `all_pairs`:
    ```
    match result {
        Err(_) => vec![],
        Ok(pairs) => pairs.into_iter().flat_map(|x| x.1.into_iter().map(|y| y.1))
            .filter(|x| x.contains_path_through_node(node_name.clone())).collect(), }
    ``` -/
def involvingPost (x : Nat) (result : Outcome (List (Nat × List (Nat × SPInfo)))) : Outcome (List SPInfo) :=
  match result with
  | .ok pairs => .ok ((pairs.flatMap fun p => p.2.map (·.2)).filter fun i => i.through x)
  | .err _ => .ok []
  | .panic site => .panic site

theorem pathsInvolving_shape (s : Store) (x : Nat) (weighted : Bool) :
    s.pathsInvolving x weighted = involvingPost x (s.allPairs weighted none none false true) := rfl

/-- `get_all_shortest_paths_involving`: `let result = all_pairs(graph, weighted, None, None, false, true)`
    with the parallel branch inside, then the sequential post-processing. -/
theorem C07_model_involving (s : Store) (x : Nat) (weighted : Bool) (threshold threads : Nat) (sched : List Nat)
    (h : Covers (List.range s.numberOfNodes) sched) :
    (s.allPairsPar weighted none none false true threshold threads sched).map (involvingPost x)
      = some (s.pathsInvolving x weighted) := by
  rw [C07_model_all_pairs_par s weighted none none false true threshold threads sched h, pathsInvolving_shape]
  rfl

/-- The same in terms of `dispatch` itself: when the prologue of `all_pairs` succeeds (for `target = None` this
    means: `weighted` is false or every edge has a weight), the post-processed parallel section is the serial model. -/
theorem C07_model_involving_dispatch (s : Store) (x : Nat) (weighted : Bool) (ti : Option Nat)
    (hpre : s.allPairsPre weighted none = .ok ti)
    (threshold threads : Nat) (sched : List Nat) (h : Covers (List.range s.numberOfNodes) sched) :
    dispatch threshold threads (s.apItem weighted ti none none false true) (List.range s.numberOfNodes) sched
        (fun vecs => involvingPost x (s.apFold vecs))
      = some (s.pathsInvolving x weighted) := by
  rw [C07_threads_independent threshold threads _ _ _ sched h, pathsInvolving_shape, allPairs_shape, hpre]
  rfl

/-! ## dijkstra.rs: multi_source -/

/-- The sequential prologue of `multi_source`:
    ```
    if !graph.has_nodes(&sources) { return Err(Error { kind: ErrorKind::NodeNotFound, .. }); }
    if target.is_some() && !graph.has_node(&target.clone().unwrap()) { return Err(Error { kind: ErrorKind::NodeNotFound, .. }); }
    ``` -/
def Store.multiSourcePre (s : Store) (sources : List Nat) (target : Option Nat) : Outcome Unit :=
  if !s.hasNodes sources then .err .NodeNotFound
  else if (match target with | some t => !s.hasNode t | none => false) then .err .NodeNotFound
  else .ok ()

/-- The rayon work item of `multi_source`:
    ```
    .map(|source| ( source.clone(),
        single_source(graph, weighted, source.clone(), target.clone(), cutoff, first_only, with_paths).unwrap() ))
    ``` -/
def Store.msItem (s : Store) (weighted : Bool) (target : Option Nat) (cutoff2 : Option Int)
    (firstOnly withPaths : Bool) (source : Nat) : Outcome (Nat × List (Nat × SPInfo)) := do
  let r ← (s.singleSource weighted source target cutoff2 firstOnly withPaths)
  .ok (source, r)

/-- The code after `.collect()`: `Ok(shortest_paths.into_iter().collect())` (into a `HashMap`, i.e. one
    `insert` per element in index order). -/
def msFold (shortestPaths : List (Outcome (Nat × List (Nat × SPInfo)))) :
    Outcome (List (Nat × List (Nat × SPInfo))) :=
  seqFold (fun out p => .ok (ainsert out p.1 p.2)) [] shortestPaths

/-- the serial loop of `Store.multiSource` is `msFold` of the mapped items -/
private theorem multiSource_loop (s : Store) (weighted : Bool) (sources : List Nat) (target : Option Nat)
    (cutoff2 : Option Int) (firstOnly withPaths : Bool) :
    sources.foldl (fun acc src => do
      let out ← acc
      let r ← (s.singleSource weighted src target cutoff2 firstOnly withPaths)
      .ok (ainsert out src r)) (.ok [])
    = msFold (sources.map (s.msItem weighted target cutoff2 firstOnly withPaths)) := by
  unfold msFold
  rw [seqFold_map]
  apply foldl_congr
  intro acc src
  cases acc with
  | ok out =>
    unfold Store.msItem
    cases (s.singleSource weighted src target cutoff2 firstOnly withPaths) <;> rfl
  | err k => rfl
  | panic m => rfl

/-- **Shape theorem** for `Store.multiSource`: the prologue, then `fold (xs.map f)`. -/
theorem multiSource_shape (s : Store) (weighted : Bool) (sources : List Nat) (target : Option Nat)
    (cutoff2 : Option Int) (firstOnly withPaths : Bool) :
    s.multiSource weighted sources target cutoff2 firstOnly withPaths = (do
      s.multiSourcePre sources target
      msFold (sources.map (s.msItem weighted target cutoff2 firstOnly withPaths))) := by
  unfold Store.multiSource Store.multiSourcePre
  rw [multiSource_loop]
  by_cases h1 : (!s.hasNodes sources) = true
  · simp only [h1, if_true]; rfl
  · simp only [h1, if_false, Bool.false_eq_true]
    cases target with
    | none => rfl
    | some t => cases ht : s.hasNode t <;> simp only [ht] <;> rfl

/-- The parallel section of `multi_source` followed by the sequential `collect` into the map returns what the
    serial model returns, for every thread count, threshold and completing schedule. -/
theorem C07_model_multi_source (s : Store) (weighted : Bool) (sources : List Nat) (target : Option Nat)
    (cutoff2 : Option Int) (firstOnly withPaths : Bool) (hpre : s.multiSourcePre sources target = .ok ())
    (threshold threads : Nat) (sched : List Nat) (h : Covers sources sched) :
    dispatch threshold threads (s.msItem weighted target cutoff2 firstOnly withPaths) sources sched msFold
      = some (s.multiSource weighted sources target cutoff2 firstOnly withPaths) := by
  rw [multiSource_shape, hpre]
  exact C07_threads_independent threshold threads _ _ _ sched h

/-- If the prologue fails (it can only return `NodeNotFound`), the parallel section is never reached. -/
theorem multiSource_pre_fail (s : Store) (weighted : Bool) (sources : List Nat) (target : Option Nat)
    (cutoff2 : Option Int) (firstOnly withPaths : Bool) :
    (∀ k, s.multiSourcePre sources target = .err k →
      s.multiSource weighted sources target cutoff2 firstOnly withPaths = .err k) ∧
    (∀ m, s.multiSourcePre sources target = .panic m →
      s.multiSource weighted sources target cutoff2 firstOnly withPaths = .panic m) := by
  constructor <;> intro x hx <;> rw [multiSource_shape, hx] <;> rfl

/-- `multi_source` as written in Rust, with its `match parallel { true => .., false => .. }`. -/
def Store.multiSourcePar (s : Store) (weighted : Bool) (sources : List Nat) (target : Option Nat)
    (cutoff2 : Option Int) (firstOnly withPaths : Bool) (threshold threads : Nat) (sched : List Nat) :
    Option (Outcome (List (Nat × List (Nat × SPInfo)))) :=
  match s.multiSourcePre sources target with
  | .ok () => dispatch threshold threads (s.msItem weighted target cutoff2 firstOnly withPaths) sources sched msFold
  | .err k => some (.err k)
  | .panic m => some (.panic m)

theorem C07_model_multi_source_par (s : Store) (weighted : Bool) (sources : List Nat) (target : Option Nat)
    (cutoff2 : Option Int) (firstOnly withPaths : Bool) (threshold threads : Nat) (sched : List Nat)
    (h : Covers sources sched) :
    s.multiSourcePar weighted sources target cutoff2 firstOnly withPaths threshold threads sched
      = some (s.multiSource weighted sources target cutoff2 firstOnly withPaths) := by
  unfold Store.multiSourcePar
  cases hpre : s.multiSourcePre sources target with
  | ok u => exact C07_model_multi_source s weighted sources target cutoff2 firstOnly withPaths hpre threshold threads sched h
  | err k => rw [(multiSource_pre_fail s weighted sources target cutoff2 firstOnly withPaths).1 k hpre]
  | panic m => rw [(multiSource_pre_fail s weighted sources target cutoff2 firstOnly withPaths).2 m hpre]

/-! ## non-vacuity -/

/-- Completing schedules exist: e.g. the items finishing in reverse index order. -/
theorem covers_reverse_range {α} (xs : List α) : Covers xs (List.range xs.length).reverse := by
  intro i hi
  simp [hi]

/-- With threshold 0 and two threads the parallel branch of `dispatch` is really the one taken
    (for a non-empty item list), so the theorems above are statements about `parCollect`. -/
theorem dispatch_parallel_branch {α β γ} (f : α → β) (xs : List α) (sched : List Nat) (fold : List β → γ)
    (hne : xs ≠ []) : dispatch 0 2 f xs sched fold = (parCollect f xs sched).map fold := by
  unfold dispatch
  have : xs.length > 0 := List.length_pos_iff.mpr hne
  simp [this]

end Graphrs
