/-
  C03, entry level. `Store.vecOk` (part of `wf`) ties, per pair of nodes, only the *minimum* listed weight to the minimum
  stored weight. The two predicates of Spec/Inv.lean `rowsNodup` and `entriesStored` pin every single entry of
  `successors_vec` / `predecessors_vec`; they are invariants of the stores reachable through the mutation API
  (`wf` alone admits states that violate them), proved here for every GraphSpecs record and every history.
-/
import GraphrsModel.Props.Core
import GraphrsModel.Props.C06Model
import GraphrsModel.Lemmas.C03Ent
namespace Graphrs

/-- both entry-level predicates -/
def Store.entOk (s : Store) : Bool := s.rowsNodup && s.entriesStored

theorem C03_rows_new (sp : Specs) : (Store.new sp).entOk = true := by
  rfl

private theorem entOk_iff (s : Store) (hw : s.wf = true) : s.entOk = true ↔ C03E.EntP s := by
  have hv := C03.preV_of_pre s (C03.pre_of_wf s hw)
  unfold Store.entOk
  rw [Bool.and_eq_true]
  constructor
  · intro h; exact C03E.entP_of_bool s h.1 h.2
  · intro h; exact C03E.bool_of_entP s hv h

theorem C03_rows_addNode (s : Store) (n : Node) (hw : s.wf = true) (h : s.entOk = true) : (s.addNode n).entOk = true := by
  rw [entOk_iff _ (Core_addNode_wf s n hw)]
  exact C03E.entP_addNode s n (C03.pre_of_wf s hw) ((entOk_iff s hw).1 h)

theorem C03_rows_addEdge (s : Store) (e : Edge) (hw : s.wf = true) (h : s.entOk = true) : (s.addEdge e).1.entOk = true := by
  rw [entOk_iff _ (Core_addEdge_wf s e hw)]
  exact C03E.entP_addEdge s e (C03.pre_of_wf s hw) ((entOk_iff s hw).1 h)

private theorem rows_addNodes (ns : List Node) : ∀ (s : Store), s.wf = true → s.entOk = true →
    (s.addNodes ns).entOk = true := by
  induction ns with
  | nil => intro s _ h; simpa [Store.addNodes] using h
  | cons n ns ih =>
    intro s hw h
    have := ih (s.addNode n) (Core_addNode_wf s n hw) (C03_rows_addNode s n hw h)
    simpa [Store.addNodes, List.foldl_cons] using this

private theorem rows_addEdges (es : List Edge) : ∀ (s : Store), s.wf = true → s.entOk = true →
    (s.addEdges es).1.entOk = true := by
  induction es with
  | nil => intro s _ h; simpa [Store.addEdges] using h
  | cons e es ih =>
    intro s hw h
    have hw' := Core_addEdge_wf s e hw
    have h' := C03_rows_addEdge s e hw h
    unfold Store.addEdges
    cases hr : s.addEdge e with
    | mk s' r =>
      rw [hr] at hw' h'
      cases r with
      | none => exact ih s' hw' h'
      | some k => exact h'

/-- every call of the mutation API preserves the entry-level invariant -/
theorem C03_rows_step (s : Store) (op : Op) (hw : s.wf = true) (h : s.entOk = true) : (s.step op).1.entOk = true := by
  cases op with
  | addNode n => exact C03_rows_addNode s n hw h
  | addNodes ns => exact rows_addNodes ns s hw h
  | addEdge e => exact C03_rows_addEdge s e hw h
  | addEdgeTuple u v => exact C03_rows_addEdge s _ hw h
  | addEdges es => exact rows_addEdges es s hw h
  | addEdgeTuples es => exact rows_addEdges _ s hw h
  | newFrom ns es =>
    have hw1 : ((Store.new s.specs).addNodes ns).wf = true := Core_addNodes_wf ns _ (C01_new_wf s.specs)
    have h1 := rows_addNodes ns _ (C01_new_wf s.specs) (C03_rows_new s.specs)
    have hall := rows_addEdges es _ hw1 h1
    simp only [Store.step, Store.newFrom]
    cases hr : ((Store.new s.specs).addNodes ns).addEdges es with
    | mk s' r =>
      rw [hr] at hall
      cases r with
      | none => simpa using hall
      | some k => simpa using h

/-- **on every reachable store**, for every GraphSpecs record and every history -/
theorem C03_rows_reachable (sp : Specs) (ops : List Op) : (Store.run sp ops).1.entOk = true := by
  have key : ∀ (F : Store × List (Option ErrKind) → Op → Store × List (Option ErrKind))
      (_ : ∀ acc op, (F acc op).1 = (acc.1.step op).1) (l : List Op) (acc : Store × List (Option ErrKind)),
      acc.1.wf = true → acc.1.entOk = true → (l.foldl F acc).1.entOk = true := by
    intro F hF l
    induction l with
    | nil => intro acc _ h; exact h
    | cons op l ih =>
      intro acc hw h
      rw [List.foldl_cons]
      apply ih
      · rw [hF]; exact Core_step_wf acc.1 op hw
      · rw [hF]; exact C03_rows_step acc.1 op hw h
  unfold Store.run
  exact key _ (by intro acc op; rfl) ops _ (C01_new_wf sp) (C03_rows_new sp)

/-- `Graph::new_from_nodes_and_edges` (and with it every derived graph: subgraph, reverse, set_all_edge_weights,
    to_single_edges are rebuilt through it) -/
theorem C03_rows_newFrom (sp : Specs) (ns : List Node) (es : List Edge) (t : Store)
    (h : Store.newFrom sp ns es = .ok t) : t.entOk = true := by
  unfold Store.newFrom at h
  have hw1 : ((Store.new sp).addNodes ns).wf = true := Core_addNodes_wf ns _ (C01_new_wf sp)
  have h1 := rows_addNodes ns _ (C01_new_wf sp) (C03_rows_new sp)
  have hall := rows_addEdges es _ hw1 h1
  cases hr : ((Store.new sp).addNodes ns).addEdges es with
  | mk s' r =>
    rw [hr] at h hall
    cases r with
    | none => simp only [Outcome.ok.injEq] at h; subst h; exact hall
    | some k => simp at h

/-- a row whose (filtered) first components are distinct lists the entry `a` alone for `a.1` -/
private theorem wts_single (row : List Adj) (p : Nat → Bool) (hnd : ((row.map (·.1)).filter p).Nodup)
    (a : Adj) (ha : a ∈ row) (hp : p a.1 = true) : C03.wts row a.1 = [a.2] := by
  induction row with
  | nil => simp at ha
  | cons b r ih =>
    rw [C03.wts_cons]
    simp only [List.map_cons] at hnd
    by_cases hb : b.1 = a.1
    · rw [if_pos hb]
      have hpb : p b.1 = true := by rw [hb]; exact hp
      rw [List.filter_cons_of_pos hpb, List.nodup_cons] at hnd
      have hno : ∀ c ∈ r, c.1 ≠ a.1 := by
        intro c hc e
        apply hnd.1
        rw [List.mem_filter]
        exact ⟨List.mem_map.2 ⟨c, hc, by rw [e, hb]⟩, hpb⟩
      rw [C03.wts_eq_nil r a.1 hno]
      rcases List.mem_cons.1 ha with h | h
      · rw [h]
      · exact absurd rfl (hno a h)
    · rw [if_neg hb]
      have hnd' : ((r.map (·.1)).filter p).Nodup := by
        by_cases hpb : p b.1 = true
        · rw [List.filter_cons_of_pos hpb, List.nodup_cons] at hnd; exact hnd.2
        · rw [List.filter_cons_of_neg hpb] at hnd; exact hnd
      rcases List.mem_cons.1 ha with h | h
      · exact absurd (by rw [h]) hb
      · exact ih hnd' h

private theorem hoff_filter (dir : Bool) (i j : Nat) (hoff : dir = true ∨ j ≠ i) : (dir || j != i) = true := by
  rcases hoff with h | h
  · simp [h]
  · simp [h]

/-- **every entry is exact**: under `wf` and the entry-level invariant, an entry `(j, w)` of row `i` of `successors_vec`
    (other than the doubled entry of an undirected self-loop) carries exactly the minimum stored weight between the two nodes -/
theorem C03_entry_exact (s : Store) (hw : s.wf = true) (h : s.entOk = true) (i : Nat) (row : List Adj)
    (hrow : s.succVec[i]? = some row) (a : Adj) (ha : a ∈ row) (hoff : s.specs.directed = true ∨ a.1 ≠ i) :
    ∃ x y, s.names[i]? = some x ∧ s.names[a.1]? = some y ∧ some a.2 = Abs.minW (s.weightsBetween x y) := by
  have hp := C03.pre_of_wf s hw
  have he := (entOk_iff s hw).1 h
  have hi : i < s.names.length := by rw [← hp.vS.len]; exact C03.lt_of_getElem? hrow
  have hj := hp.vS.bnd i row hrow a ha
  refine ⟨s.names[i], s.names[a.1], List.getElem?_eq_getElem hi, List.getElem?_eq_getElem hj, ?_⟩
  have hv := hp.vS.val i a.1 _ _ (List.getElem?_eq_getElem hi) (List.getElem?_eq_getElem hj)
  have hr : C03.rowMin s.succVec i a.1 = Abs.minW (C03.wts row a.1) := by simp [C03.rowMin, hrow]
  rw [hr, wts_single row _ (he.nS i row hrow) a ha (hoff_filter _ _ _ hoff)] at hv
  rw [C03.weightsBetween_eq]
  exact hv

/-- the same for `predecessors_vec` (weights of the edges *into* the node) -/
theorem C03_entry_exact_pred (s : Store) (hw : s.wf = true) (h : s.entOk = true) (i : Nat) (row : List Adj)
    (hrow : s.predVec[i]? = some row) (a : Adj) (ha : a ∈ row) (hoff : s.specs.directed = true ∨ a.1 ≠ i) :
    ∃ x y, s.names[i]? = some x ∧ s.names[a.1]? = some y ∧ some a.2 = Abs.minW (s.weightsBetween y x) := by
  have hp := C03.pre_of_wf s hw
  have he := (entOk_iff s hw).1 h
  have hi : i < s.names.length := by rw [← hp.vP.len]; exact C03.lt_of_getElem? hrow
  have hj := hp.vP.bnd i row hrow a ha
  refine ⟨s.names[i], s.names[a.1], List.getElem?_eq_getElem hi, List.getElem?_eq_getElem hj, ?_⟩
  have hv := hp.vP.val i a.1 _ _ (List.getElem?_eq_getElem hi) (List.getElem?_eq_getElem hj)
  have hr : C03.rowMin s.predVec i a.1 = Abs.minW (C03.wts row a.1) := by simp [C03.rowMin, hrow]
  rw [hr, wts_single row _ (he.nP i row hrow) a ha (hoff_filter _ _ _ hoff)] at hv
  rw [C03.weightsBetween_eq]
  cases hd : s.specs.directed with
  | true =>
    rw [hd, C03.fP_true] at hv
    exact hv
  | false =>
    rw [hd, C03.fP_false] at hv
    cases hv

private theorem stored_weighted (s : Store) (hall : ∀ e ∈ s.allEdges, ∃ c, e.w = some c) (x y : Nat) (w : W)
    (hw : w ∈ s.weightsBetween x y) : ∃ c, w = some c := by
  unfold Store.weightsBetween at hw
  rw [List.mem_map] at hw
  obtain ⟨e, he, rfl⟩ := hw
  cases hl : alookup s.edges (nameKey s.specs.directed x y) with
  | none => rw [hl] at he; simp at he
  | some l =>
    rw [hl] at he
    simp only [Option.getD_some] at he
    apply hall e
    rw [C03.mem_allEdges]
    exact ⟨_, C03.mem_of_alookup _ _ _ hl, he⟩

private theorem stB_weighted (s : Store) (vec : List (List Adj)) (wb : Nat → Nat → List W)
    (hwb : ∀ x y w, w ∈ wb x y → ∃ c, w = some c) (h : C03E.stB s.names vec wb = true) :
    ∀ row ∈ vec, ∀ a ∈ row, ∃ c, a.2 = some c := by
  rw [C03E.stB_iff] at h
  intro row hrow a ha
  obtain ⟨i, hi⟩ := List.mem_iff_getElem?.1 hrow
  obtain ⟨x, y, _, _, hm⟩ := h i row hi a ha
  exact hwb x y _ hm

/-- when every stored edge carries a weight, so does every entry the algorithms traverse -/
theorem C03_entries_weighted (s : Store) (h : s.entOk = true) (hall : ∀ e ∈ s.allEdges, ∃ c, e.w = some c) :
    (∀ row ∈ s.succVec, ∀ a ∈ row, ∃ c, a.2 = some c) ∧ (∀ row ∈ s.predVec, ∀ a ∈ row, ∃ c, a.2 = some c) := by
  unfold Store.entOk at h
  rw [Bool.and_eq_true, C03E.entriesStored_eq, Bool.and_eq_true] at h
  exact ⟨stB_weighted s _ _ (fun x y w hw => stored_weighted s hall x y w hw) h.2.1,
    stB_weighted s _ _ (fun x y w hw => stored_weighted s hall y x w hw) h.2.2⟩

/-- **weighted closeness of the model = the definition on every reachable store** whose stored edges have positive
    weights - no hypothesis on the history (compare `C06_model_eq_spec_weighted_reachable`, which asks every operation of
    the history to add weighted edges only, and `_corrected`, which assumes the entries are weighted) -/
theorem C06_model_eq_spec_weighted_any_history (sp : Specs) (ops : List Op) (wfFlag : Bool) (m : List (Nat × Rat))
    (hpos : ∀ e ∈ (Store.run sp ops).1.allEdges, ∃ c, e.w = some c ∧ 0 < c)
    (hm : (Store.run sp ops).1.closeness true wfFlag = .ok m) :
    ∀ u, alookup m u =
      alookup (ccSpec (Store.run sp ops).1.getAllNodeNames
        ((Store.run sp ops).1.abs.arcs (Store.run sp ops).1.specs.directed true) wfFlag) u :=
  C06_model_eq_spec_weighted_corrected _ (Core_reachable_wf sp ops) wfFlag m hpos
    (fun _ => (C03_entries_weighted _ (C03_rows_reachable sp ops)
      (fun e he => by obtain ⟨c, hc, _⟩ := hpos e he; exact ⟨c, hc⟩)).1) hm

/-- non-vacuity: an undirected multigraph with a doubled self-loop entry and a NaN-weighted parallel edge -/
example :
    let s := (Store.run { directed := false, multi := true, selfLoops := true, dedupe := .keepLast, missing := .create, slFalse := .error }
      [.addEdge ⟨1, 2, some 5, none⟩, .addEdge ⟨2, 1, some 3, none⟩, .addEdge ⟨2, 2, some 4, none⟩, .addEdge ⟨1, 2, none, none⟩]).1
    s.wf = true ∧ s.entOk = true ∧ s.succVec = [[(1, some 3)], [(0, some 3), (1, some 4), (1, some 4)]] := by
  decide +kernel

end Graphrs
