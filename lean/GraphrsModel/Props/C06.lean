/-
  C06 — closeness centrality equals its definition.

  The implementation's values are compared on every run with `ccSpec` (Spec/Centrality.lean), which reads
  *incoming* distances d(s, u) off the abstract graph.  The code obtains them on directed graphs by running
  the search on `reverse()`; this file proves that this is the same thing (walk reversal), gives the closed
  form of `get_node_centrality`, and bounds the specification.
-/
import GraphrsModel.ObsCen
import GraphrsModel.Spec.Walk
import GraphrsModel.Lemmas.C04Aux
namespace Graphrs

/-- the arcs of the reversed graph -/
def Arcs.rev (arcs : Arcs) : Arcs := arcs.map fun a => (a.2.1, a.1, a.2.2)

private theorem rev_rev (arcs : Arcs) : arcs.rev.rev = arcs := by
  unfold Arcs.rev
  rw [List.map_map]
  conv => rhs; rw [← List.map_id arcs]
  apply List.map_congr_left
  intro a _
  rfl

private theorem walk_rev (arcs : Arcs) (s t : Nat) (c : Int) (h : Walk arcs s t c) : Walk arcs.rev t s c := by
  induction h with
  | nil => exact Walk.nil _
  | snoc hw ha ih =>
    rename_i u v c w
    have hm : (v, u, w) ∈ arcs.rev := by
      unfold Arcs.rev
      rw [List.mem_map]
      exact ⟨_, ha, rfl⟩
    exact Walk.cons' hm ih

/-- a walk from t to s in the reversed graph is a walk from s to t in the original, of the same cost -/
theorem C06_reverse_walk (arcs : Arcs) (s t : Nat) (c : Int) : Walk arcs.rev t s c ↔ Walk arcs s t c := by
  constructor
  · intro h
    have := walk_rev _ _ _ _ h
    rw [rev_rev] at this
    exact this
  · exact walk_rev _ _ _ _

/-- hence outgoing distances in `reverse()` are incoming distances in the graph -/
theorem C06_reverse_dist (arcs : Arcs) (s t : Nat) (d : Int) : IsDist arcs.rev t s d ↔ IsDist arcs s t d := by
  unfold IsDist
  rw [C06_reverse_walk]
  constructor
  · intro h
    exact ⟨h.1, fun c hw => h.2 c ((C06_reverse_walk arcs s t c).2 hw)⟩
  · intro h
    exact ⟨h.1, fun c hw => h.2 c ((C06_reverse_walk arcs s t c).1 hw)⟩

/-- reversing the stored edges of a directed abstract graph reverses its arcs -/
theorem C06_abs_reverse_arcs (a : Abs) (weighted : Bool) : a.reverse.arcs true weighted = (a.arcs true weighted).rev := by
  unfold Abs.arcs Abs.reverse Arcs.rev
  simp only [List.flatMap_map, List.map_flatMap]
  congr 1
  funext e
  cases weighted <;> simp [Edge.reversed] <;> cases e.w <;> simp

/-- `get_node_centrality` in closed form: (r-1)/tot, times (r-1)/(n-1) with the Wasserman-Faust flag; 0 when the
    total distance is 0 or there is a single node -/
theorem C06_nodeCentrality_closed_form (sp : List (Nat × Int)) (n : Nat) (wf : Bool) :
    nodeCentrality sp n wf =
      (if sumInt (sp.map (·.2)) > 0 ∧ n > 1 then
         (((sp.length - 1 : Nat) : Rat) / ((sumInt (sp.map (·.2)) : Int) : Rat)) *
           (if wf then ((sp.length - 1 : Nat) : Rat) / ((n - 1 : Nat) : Rat) else 1)
       else 0) := by
  unfold nodeCentrality
  simp only [Bool.and_eq_true, decide_eq_true_eq]
  cases wf <;> simp

/-- one entry per node -/
theorem C06_ccSpec_keys (nodes : List Nat) (arcs : Arcs) (wf : Bool) : (ccSpec nodes arcs wf).map (·.1) = nodes := by
  unfold ccSpec
  simp only [List.map_map]
  conv => rhs; rw [← List.map_id nodes]
  apply List.map_congr_left
  intro u _
  simp only [Function.comp]
  split <;> rfl

/-- non-vacuity: a directed path 1 -> 2 -> 3; node 3 is reached by 1 (distance 2) and 2 (distance 1) -/
example : ccSpec [1, 2, 3] [(1, 2, 1), (2, 3, 1)] false = [(1, 0), (2, 1), (3, 2 / 3)] := by
  decide +kernel

end Graphrs
