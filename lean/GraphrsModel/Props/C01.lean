/-
  C01 — mutations follow GraphSpecs exactly; a rejected operation changes nothing.

  `Abs.step` (Spec/Abs.lean) is the abstract machine written from the statement of C01.  The
  theorems show that the concrete model of `struct Graph` (all twelve indexes, `Store.step`)
  simulates it on every history, for every GraphSpecs record (the 96 combinations are a
  quantified variable), and that the coupling invariant `Store.wf` holds on every reachable state.
-/
import GraphrsModel.Spec.Inv
import GraphrsModel.Lemmas.Refine
import GraphrsModel.Lemmas.Frame
namespace Graphrs

/-- Two abstract graphs are the same graph: same node list, and for every key the same list of
    edges in the same order (the order *between* different keys is the iteration order of a hash
    map and carries no meaning). -/
def AbsEq (a b : Abs) : Prop :=
  a.nodes = b.nodes ∧ ∀ k : Nat × Nat, a.edges.filter (fun e => (e.u, e.v) == k) = b.edges.filter (fun e => (e.u, e.v) == k)

/-! ### the part of the invariant this file is responsible for: node indexes and edge stores -/

/-! ### helpers -/

private theorem wf_parts {s : Store} (h : s.wf = true) :
    s.NodesInv ∧ s.EdgesInv ∧ s.adjOk = true ∧ s.vecOk = true := by
  simp only [Store.wf, Bool.and_eq_true] at h
  exact ⟨(Store.nodesOk_iff s).mp h.1.1.1, (Store.edgesOk_iff s).mp h.1.1.2, h.1.2, h.2⟩

private theorem absEq_iff {s : Store} (he : s.EdgesInv) (a : Abs) : AbsEq s.abs a ↔ s.Refines a :=
  Store.absEq_iff_refines he a


theorem C01_new_wf (sp : Specs) : (Store.new sp).wf = true := by
  rfl

theorem C01_addNode_nodesOk_edgesOk (s : Store) (n : Node) (h : s.wf = true) :
    (s.addNode n).nodesOk = true ∧ (s.addNode n).edgesOk = true := by
  obtain ⟨hn, he, _, _⟩ := wf_parts h
  exact ⟨(Store.nodesOk_iff _).mpr (Store.addNode_nodesInv hn n), (Store.edgesOk_iff _).mpr (Store.addNode_edgesInv hn he n)⟩

theorem C01_addEdge_nodesOk_edgesOk (s : Store) (e : Edge) (h : s.wf = true) :
    (s.addEdge e).1.nodesOk = true ∧ (s.addEdge e).1.edgesOk = true := by
  obtain ⟨hn, he, hadj, hvec⟩ := wf_parts h
  obtain ⟨h1, h2⟩ := Store.addEdge_inv hn he hadj hvec e
  exact ⟨(Store.nodesOk_iff _).mpr h1, (Store.edgesOk_iff _).mpr h2⟩

theorem C01_specs_unchanged (s : Store) (op : Op) : (s.step op).1.specs = s.specs := by
  exact Store.step_specs s op

/-! ### refinement of the abstract machine -/

/-- re-adding an existing node only replaces its attributes and keeps its position; a new node is appended -/
theorem C01_addNode_refines (s : Store) (n : Node) (a : Abs) (h : s.wf = true) (ha : AbsEq s.abs a) :
    AbsEq (s.addNode n).abs (a.addNode n) := by
  obtain ⟨hn, he, _, _⟩ := wf_parts h
  rw [absEq_iff (Store.addNode_edgesInv hn he n)]
  exact Store.addNode_refines' hn ((absEq_iff he a).mp ha) n

/-- **one `add_edge` call**: same outcome (Ok / SelfLoopsFound / NodeNotFound / DuplicateEdge) and same resulting graph -/
theorem C01_addEdge_refines (s : Store) (e : Edge) (a : Abs) (h : s.wf = true) (ha : AbsEq s.abs a) :
    (s.addEdge e).2 = (Abs.addEdge s.specs a e).2 ∧ AbsEq (s.addEdge e).1.abs (Abs.addEdge s.specs a e).1 := by
  obtain ⟨hn, he, hadj, hvec⟩ := wf_parts h
  obtain ⟨h1, h2⟩ := Store.addEdge_refines' hn he hadj hvec ((absEq_iff he a).mp ha) e
  exact ⟨h1, (absEq_iff (Store.addEdge_inv hn he hadj hvec e).2 _).mpr h2⟩

/-- **a call that returns an error leaves the graph exactly as it was** - all twelve indexes -/
theorem C01_addEdge_error_unchanged (s : Store) (e : Edge) (k : ErrKind) (h : s.wf = true)
    (herr : (s.addEdge e).2 = some k) : (s.addEdge e).1 = s := by
  obtain ⟨hn, he, hadj, hvec⟩ := wf_parts h
  exact Store.addEdge_error_unchanged' hn he hadj hvec e k herr

/-- a batch applies exactly the prefix that precedes the first failing edge -/
theorem C01_addEdges_prefix (s s' : Store) (es : List Edge) (k : ErrKind)
    (herr : s.addEdges es = (s', some k)) :
    ∃ pre e post mid, es = pre ++ e :: post ∧ s.addEdges pre = (mid, none) ∧ mid.addEdge e = (s', some k) := by
  induction es generalizing s with
  | nil => simp [Store.addEdges] at herr
  | cons e es ih =>
    cases hr : s.addEdge e with
    | mk s1 o =>
      cases o with
      | none =>
        have h1 : s.addEdges (e :: es) = s1.addEdges es := by simp only [Store.addEdges, hr]
        rw [h1] at herr
        obtain ⟨pre, e', post, mid, h2, h3, h4⟩ := ih s1 herr
        refine ⟨e :: pre, e', post, mid, by rw [h2]; rfl, ?_, h4⟩
        simp only [Store.addEdges, hr]; exact h3
      | some k' =>
        have h1 : s.addEdges (e :: es) = (s1, some k') := by simp only [Store.addEdges, hr]
        rw [h1] at herr
        exact ⟨[], e, es, s, rfl, rfl, by rw [hr]; exact herr⟩

theorem C01_addEdges_ok (s : Store) (es : List Edge) (hok : (s.addEdges es).2 = none) :
    (s.addEdges es).1 = es.foldl (fun st e => (st.addEdge e).1) s := by
  induction es generalizing s with
  | nil => rfl
  | cons e es ih =>
    cases hr : s.addEdge e with
    | mk s1 o =>
      cases o with
      | none =>
        have h1 : s.addEdges (e :: es) = s1.addEdges es := by simp only [Store.addEdges, hr]
        rw [h1] at hok ⊢
        rw [List.foldl_cons, hr]
        exact ih s1 hok
      | some k' =>
        have h1 : s.addEdges (e :: es) = (s1, some k') := by simp only [Store.addEdges, hr]
        rw [h1] at hok; cases hok

/-! ### every history -/

/-- the hypothesis of `C01_step_sim`: the other two clauses are re-established by every mutation -/
private abbrev Rest : Prop :=
  ∀ (t : Store) (o : Op), t.wf = true → (t.step o).1.nodesOk = true → (t.step o).1.edgesOk = true →
    (t.step o).1.adjOk = true ∧ (t.step o).1.vecOk = true

private theorem wf_step (hrest : Rest) {t : Store} (o : Op) (ht : t.wf = true)
    (h1 : (t.step o).1.nodesOk = true) (h2 : (t.step o).1.edgesOk = true) : (t.step o).1.wf = true := by
  obtain ⟨h3, h4⟩ := hrest t o ht h1 h2
  simp only [Store.wf, Bool.and_eq_true]
  exact ⟨⟨⟨h1, h2⟩, h3⟩, h4⟩

private theorem addNode_sim (hrest : Rest) (s : Store) (a : Abs) (n : Node) (h : s.wf = true) (ha : AbsEq s.abs a) :
    (s.addNode n).wf = true ∧ AbsEq (s.addNode n).abs (a.addNode n) := by
  obtain ⟨h1, h2⟩ := C01_addNode_nodesOk_edgesOk s n h
  exact ⟨wf_step hrest (.addNode n) h h1 h2, C01_addNode_refines s n a h ha⟩

private theorem addNodes_sim (hrest : Rest) (ns : List Node) (s : Store) (a : Abs) (h : s.wf = true)
    (ha : AbsEq s.abs a) : (s.addNodes ns).wf = true ∧ AbsEq (s.addNodes ns).abs (a.addNodes ns) := by
  induction ns generalizing s a with
  | nil => exact ⟨h, ha⟩
  | cons n ns ih =>
    obtain ⟨h1, h2⟩ := addNode_sim hrest s a n h ha
    exact ih (s.addNode n) (a.addNode n) h1 h2

private theorem addEdge_sim (hrest : Rest) (s : Store) (a : Abs) (e : Edge) (h : s.wf = true) (ha : AbsEq s.abs a) :
    (s.addEdge e).2 = (Abs.addEdge s.specs a e).2 ∧ (s.addEdge e).1.wf = true ∧
      AbsEq (s.addEdge e).1.abs (Abs.addEdge s.specs a e).1 := by
  obtain ⟨h1, h2⟩ := C01_addEdge_nodesOk_edgesOk s e h
  obtain ⟨h3, h4⟩ := C01_addEdge_refines s e a h ha
  exact ⟨h3, wf_step hrest (.addEdge e) h h1 h2, h4⟩

private theorem addEdges_sim (hrest : Rest) (es : List Edge) (s : Store) (a : Abs) (h : s.wf = true)
    (ha : AbsEq s.abs a) :
    (s.addEdges es).2 = (Abs.addEdges s.specs a es).2 ∧ (s.addEdges es).1.wf = true ∧
      AbsEq (s.addEdges es).1.abs (Abs.addEdges s.specs a es).1 := by
  induction es generalizing s a with
  | nil => exact ⟨rfl, h, ha⟩
  | cons e es ih =>
    cases hr : s.addEdge e with
    | mk s1 o =>
      cases hr' : Abs.addEdge s.specs a e with
      | mk a1 o' =>
        have hsim := addEdge_sim hrest s a e h ha
        have hsp := Store.addEdge_specs s e
        rw [hr, hr'] at hsim
        rw [hr] at hsp
        obtain ⟨h1, h2, h3⟩ := hsim
        simp only at h1 h2 h3 hsp
        subst h1
        cases o with
        | none =>
          have e1 : s.addEdges (e :: es) = s1.addEdges es := by simp only [Store.addEdges, hr]
          have e2 : Abs.addEdges s.specs a (e :: es) = Abs.addEdges s.specs a1 es := by
            simp only [Abs.addEdges, hr']
          rw [e1, e2, ← hsp]
          exact ih s1 a1 h2 h3
        | some k =>
          have e1 : s.addEdges (e :: es) = (s1, some k) := by simp only [Store.addEdges, hr]
          have e2 : Abs.addEdges s.specs a (e :: es) = (a1, some k) := by simp only [Abs.addEdges, hr']
          rw [e1, e2]
          exact ⟨rfl, h2, h3⟩

/-- The simulation step, assuming the remaining clauses of the invariant (adjacency sets and traversal
    lists; proved in Props/C02.lean and Props/C03.lean) are re-established by every mutation. -/
theorem C01_step_sim (s : Store) (a : Abs) (op : Op)
    (hrest : ∀ (t : Store) (o : Op), t.wf = true → (t.step o).1.nodesOk = true → (t.step o).1.edgesOk = true →
      (t.step o).1.adjOk = true ∧ (t.step o).1.vecOk = true)
    (h : s.wf = true) (ha : AbsEq s.abs a) :
    (s.step op).2 = (Abs.step s.specs a op).2 ∧ (s.step op).1.wf = true ∧ AbsEq (s.step op).1.abs (Abs.step s.specs a op).1 := by
  cases op with
  | addNode n =>
    obtain ⟨h1, h2⟩ := addNode_sim hrest s a n h ha
    exact ⟨rfl, h1, h2⟩
  | addNodes ns =>
    obtain ⟨h1, h2⟩ := addNodes_sim hrest ns s a h ha
    exact ⟨rfl, h1, h2⟩
  | addEdge e => exact addEdge_sim hrest s a e h ha
  | addEdgeTuple u v => exact addEdge_sim hrest s a _ h ha
  | addEdges es => exact addEdges_sim hrest es s a h ha
  | addEdgeTuples es => exact addEdges_sim hrest _ s a h ha
  | newFrom ns es =>
    have h0 : (Store.new s.specs).wf = true := C01_new_wf s.specs
    have a0 : AbsEq (Store.new s.specs).abs ({} : Abs) := ⟨rfl, fun _ => rfl⟩
    obtain ⟨h1, a1⟩ := addNodes_sim hrest ns _ _ h0 a0
    have hsim := addEdges_sim hrest es _ _ h1 a1
    have hsp : ((Store.new s.specs).addNodes ns).specs = s.specs := Store.addNodes_specs _ _
    rw [hsp] at hsim
    simp only [Store.step, Store.newFrom, Abs.step]
    cases hr : ((Store.new s.specs).addNodes ns).addEdges es with
    | mk s1 o =>
      cases hr' : Abs.addEdges s.specs (({} : Abs).addNodes ns) es with
      | mk a1' o' =>
        rw [hr, hr'] at hsim
        obtain ⟨r2, h2, a2⟩ := hsim
        simp only at r2 h2 a2
        subst r2
        cases o with
        | none => exact ⟨rfl, h2, a2⟩
        | some k => exact ⟨rfl, h, ha⟩

private theorem run_gen (sp : Specs) (hrest : Rest) (ops : List Op) (s : Store) (a : Abs)
    (rs : List (Option ErrKind)) (h : s.wf = true) (ha : AbsEq s.abs a) (hsp : s.specs = sp) :
    (ops.foldl (fun (acc : Store × List (Option ErrKind)) op =>
        let (s', r) := acc.1.step op
        (s', acc.2 ++ [r])) (s, rs)).2 =
      (ops.foldl (fun (acc : Abs × List (Option ErrKind)) op =>
        let (a', r) := Abs.step sp acc.1 op
        (a', acc.2 ++ [r])) (a, rs)).2 ∧
    (ops.foldl (fun (acc : Store × List (Option ErrKind)) op =>
        let (s', r) := acc.1.step op
        (s', acc.2 ++ [r])) (s, rs)).1.wf = true ∧
    AbsEq (ops.foldl (fun (acc : Store × List (Option ErrKind)) op =>
        let (s', r) := acc.1.step op
        (s', acc.2 ++ [r])) (s, rs)).1.abs
      (ops.foldl (fun (acc : Abs × List (Option ErrKind)) op =>
        let (a', r) := Abs.step sp acc.1 op
        (a', acc.2 ++ [r])) (a, rs)).1 := by
  induction ops generalizing s a rs with
  | nil => exact ⟨rfl, h, ha⟩
  | cons op ops ih =>
    have hsim := C01_step_sim s a op hrest h ha
    have hsp' := C01_specs_unchanged s op
    rw [hsp] at hsim
    cases hr : s.step op with
    | mk s1 o =>
      cases hr' : Abs.step sp a op with
      | mk a1 o' =>
        rw [hr, hr'] at hsim
        rw [hr] at hsp'
        obtain ⟨h1, h2, h3⟩ := hsim
        simp only at h1 h2 h3 hsp'
        subst h1
        simp only [List.foldl_cons, hr, hr']
        exact ih s1 a1 (rs ++ [o]) h2 h3 (hsp'.trans hsp)

/-- **all histories, all 96 specs**: the results of all calls and the final graph are those of the abstract machine,
    and the coupling invariant holds at the end -/
theorem C01_run_refines (sp : Specs) (ops : List Op)
    (hrest : ∀ (t : Store) (o : Op), t.wf = true → (t.step o).1.nodesOk = true → (t.step o).1.edgesOk = true →
      (t.step o).1.adjOk = true ∧ (t.step o).1.vecOk = true) :
    (Store.run sp ops).2 = (Abs.run sp ops).2 ∧ (Store.run sp ops).1.wf = true ∧
    AbsEq (Store.run sp ops).1.abs (Abs.run sp ops).1 := by
  exact run_gen sp hrest ops (Store.new sp) {} [] (C01_new_wf sp) ⟨rfl, fun _ => rfl⟩ rfl

/-- non-vacuity: a history with a replaced duplicate, a created node and a rejected self-loop -/
example :
    let sp : Specs := ⟨false, false, false, .keepLast, .create, .error⟩
    let ops := [Op.addEdge ⟨5, 2, some 1, none⟩, Op.addEdge ⟨2, 5, some 7, some 9⟩, Op.addEdgeTuple 3 3]
    (Store.run sp ops).2 = [none, none, some .SelfLoopsFound] ∧ (Store.run sp ops).1.wf = true ∧
    (Store.run sp ops).1.allEdges = [⟨2, 5, some 7, some 9⟩] := by
  decide

end Graphrs
