/-
  C04 (model level) — the model of `dijkstra` / `dijkstra_basic` (Model/Dijkstra.lean: lazy-deletion priority
  loop with the FringeNode order, `seen`, early exit, cutoff, path bookkeeping) computes exactly the shortest
  distances over the traversal lists it is given, for every graph with non-negative costs.
-/
import GraphrsModel.ObsSP
import GraphrsModel.Props.C04
import GraphrsModel.Lemmas.DijkstraPaths
namespace Graphrs

/-- the arcs the algorithm can traverse: one per entry of the successor lists (NaN entries carry none in weighted mode) -/
def Store.idxArcs (s : Store) (weighted : Bool) : Arcs :=
  s.succVec.zipIdx.flatMap fun r =>
    r.1.filterMap fun a => (if weighted then a.2 else some 1).map fun c => (r.2, a.1, c)

/-- the traversal lists are well-formed: one row per node, every listed index is a node -/
def Store.vecWf (s : Store) : Prop :=
  s.succVec.length = s.nodesVec.length ∧ ∀ row ∈ s.succVec, ∀ a ∈ row, a.1 < s.nodesVec.length


/-! ## connecting the store-level definitions with the abstract invariant -/

theorem idxArcs_eq (s : Store) (weighted : Bool) :
    s.idxArcs weighted = s.succVec.zipIdx.flatMap fun r => rowArcs weighted r.2 r.1 := rfl

theorem idxArcs_rowsOk (s : Store) (weighted : Bool) : RowsOk (s.idxArcs weighted) weighted s.succVec where
  sub := by
    intro v x w h
    rw [idxArcs_eq, List.mem_flatMap] at h
    obtain ⟨⟨row, i⟩, hr, hm⟩ := h
    have e : i = v := (rowArcs_src _ hm).symm
    subst e
    rw [List.mem_zipIdx_iff_getElem?] at hr
    simp only at hr hm
    rw [hr]; exact hm
  sup := by
    intro v a ha
    cases hr : s.succVec[v]? with
    | none => rw [hr] at ha; simp [rowArcs] at ha
    | some row =>
      rw [hr] at ha
      rw [idxArcs_eq, List.mem_flatMap]
      exact ⟨(row, v), List.mem_zipIdx_iff_getElem?.2 hr, ha⟩

theorem idxArcs_wf (s : Store) (weighted : Bool) (hwf : s.vecWf) (hnn : ∀ a ∈ s.idxArcs weighted, 0 ≤ a.2.2) :
    ArcsWf (s.idxArcs weighted) s.nodesVec.length := by
  intro a ha
  refine ⟨?_, hnn a ha⟩
  rw [idxArcs_eq, List.mem_flatMap] at ha
  obtain ⟨⟨row, i⟩, hr, hm⟩ := ha
  have hrow : row ∈ s.succVec := by
    rw [List.mem_zipIdx_iff_getElem?] at hr
    exact List.mem_of_getElem? hr
  simp only [rowArcs, List.mem_filterMap, Option.map_eq_some_iff] at hm
  obtain ⟨adj, hadj, c, _, e⟩ := hm
  rw [← e]
  exact hwf.2 row hrow adj hadj

theorem mem_spInfos (dist : List (Option Int)) (paths : List (List (List Nat))) (wp : Bool) (t : Nat) (i : SPInfo) :
    (t, i) ∈ spInfos dist paths wp ↔
      ∃ d, lk dist t = some d ∧ i = ⟨d, if wp then paths[t]?.getD [] else []⟩ := by
  unfold spInfos
  rw [List.mem_filterMap]
  constructor
  · rintro ⟨⟨o, idx⟩, hm, he⟩
    rw [List.mem_zipIdx_iff_getElem?] at hm
    simp only at hm he
    cases o with
    | none => simp at he
    | some d =>
      simp only [Option.some.injEq, Prod.mk.injEq] at he
      obtain ⟨e1, e2⟩ := he
      subst e1
      exact ⟨d, by simp [lk, hm], e2.symm⟩
  · rintro ⟨d, hd, hi⟩
    refine ⟨(some d, t), ?_, ?_⟩
    · rw [List.mem_zipIdx_iff_getElem?]
      simp only
      unfold lk at hd
      cases h : dist[t]? with
      | none => rw [h] at hd; simp at hd
      | some o => rw [h] at hd; simp at hd; rw [hd]
    · simp only [hi]

theorem spInfos_dist_iff (dist : List (Option Int)) (paths : List (List (List Nat))) (wp : Bool) (t : Nat) (d : Int) :
    (∃ i, (t, i) ∈ spInfos dist paths wp ∧ i.dist = d) ↔ lk dist t = some d := by
  constructor
  · rintro ⟨i, hm, hi⟩
    obtain ⟨d', hd', e⟩ := (mem_spInfos ..).1 hm
    subst e
    simp only at hi
    rw [← hi]; exact hd'
  · intro h
    exact ⟨_, (mem_spInfos ..).2 ⟨d, h, rfl⟩, rfl⟩


/-- the run of `Store.dijkstra` under the hypotheses of C04: it succeeds, and the final state satisfies the invariant -/
theorem dijkstra_run (s : Store) (weighted : Bool) (source : Nat) (target : Option Nat) (cutoff2 : Option Int)
    (firstOnly withPaths : Bool) (hwf : s.vecWf) (hsrc : source < s.nodesVec.length)
    (hnn : ∀ a ∈ s.idxArcs weighted, 0 ≤ a.2.2) :
    ∃ (st : DState) (pend : Arcs), s.dijkstra weighted source target cutoff2 firstOnly withPaths = .ok (spInfos st.dist st.paths withPaths) ∧
      Inv (s.idxArcs weighted) source s.nodesVec.length cutoff2 pend st.dist st.seen st.fringe ∧
      (target = none → pend = [] ∧ st.fringe = []) ∧
      (withPaths = true → PInvB (s.idxArcs weighted) source st.seen st.paths) := by
  have hsrc' : ¬ source ≥ s.numberOfNodes := by show ¬ source ≥ s.nodesVec.length; omega
  have hA : ArcsWf (s.idxArcs weighted) s.numberOfNodes := idxArcs_wf s weighted hwf hnn
  unfold Store.dijkstra
  simp only [if_neg hsrc']
  obtain ⟨st', pend, e, I, hfin⟩ := dijkstraLoop_inv (src := source) (cut := cutoff2) (firstOnly := firstOnly)
    (withPaths := withPaths) (target := target) s.succVec hA (idxArcs_rowsOk s weighted) (s.totalAdj + 2)
    { dist := List.replicate s.numberOfNodes none,
      seen := (List.replicate s.numberOfNodes none).set source (some 0),
      fringe := [(0, 0, source)], count := 0,
      paths := if withPaths then (List.replicate s.numberOfNodes []).set source [[source]] else [] }
    (Inv.init _ _ _ _ hsrc)
    (by simp only [pendFrom_replicate, Store.totalAdj, List.length_cons, List.length_nil]; omega)
  refine ⟨st', pend, ?_, I, hfin, ?_⟩
  · rw [e]
  · intro hp
    subst hp
    exact dijkstraLoop_paths s.succVec hA (idxArcs_rowsOk s weighted) _ _ _ (Inv.init _ _ _ _ hsrc)
      (PInvB.init _ _ _) e

/-- with non-negative costs the `ContradictoryPaths` error cannot occur -/
theorem C04_dijkstra_model_no_error (s : Store) (weighted : Bool) (source : Nat) (target : Option Nat) (cutoff2 : Option Int)
    (firstOnly withPaths : Bool) (hwf : s.vecWf) (hsrc : source < s.nodesVec.length)
    (hnn : ∀ a ∈ s.idxArcs weighted, 0 ≤ a.2.2) :
    ∃ out, s.dijkstra weighted source target cutoff2 firstOnly withPaths = .ok out := by
  obtain ⟨st, pend, e, _, _, _⟩ := dijkstra_run s weighted source target cutoff2 firstOnly withPaths hwf hsrc hnn
  exact ⟨_, e⟩

/-- **the full algorithm without target and cutoff reports exactly the reachable nodes, each with its exact shortest distance** -/
theorem C04_dijkstra_model_exact (s : Store) (weighted : Bool) (source : Nat) (firstOnly withPaths : Bool)
    (hwf : s.vecWf) (hsrc : source < s.nodesVec.length) (hnn : ∀ a ∈ s.idxArcs weighted, 0 ≤ a.2.2)
    (out : List (Nat × SPInfo)) (h : s.dijkstra weighted source none none firstOnly withPaths = .ok out) :
    ∀ t d, (∃ i, (t, i) ∈ out ∧ i.dist = d) ↔ IsDist (s.idxArcs weighted) source t d := by
  intro t d
  obtain ⟨st, pend, e, I, hfin, _⟩ := dijkstra_run s weighted source none none firstOnly withPaths hwf hsrc hnn
  rw [e] at h
  simp only [Outcome.ok.injEq] at h
  subst h
  obtain ⟨e1, e2⟩ := hfin rfl
  subst e1
  rw [e2] at I
  rw [spInfos_dist_iff, I.final_exact (idxArcs_wf s weighted hwf hnn) rfl t d]
  simp [overCutoff]

/-- **the distance-only fast path agrees** -/
theorem C04_dijkstraBasic_model_exact (s : Store) (weighted : Bool) (source : Nat)
    (hwf : s.vecWf) (hsrc : source < s.nodesVec.length) (hnn : ∀ a ∈ s.idxArcs weighted, 0 ≤ a.2.2)
    (out : List (Nat × SPInfo)) (h : s.dijkstraBasic weighted source = .ok out) :
    ∀ t d, (∃ i, (t, i) ∈ out ∧ i.dist = d) ↔ IsDist (s.idxArcs weighted) source t d := by
  intro t d
  have hsrc' : ¬ source ≥ s.numberOfNodes := by show ¬ source ≥ s.nodesVec.length; omega
  unfold Store.dijkstraBasic at h
  simp only [if_neg hsrc', Outcome.ok.injEq] at h
  subst h
  have hA : ArcsWf (s.idxArcs weighted) s.numberOfNodes := idxArcs_wf s weighted hwf hnn
  have hloop := basicLoop_inv (src := source) s.succVec hA (idxArcs_rowsOk s weighted) (s.totalAdj + 2)
    { dist := List.replicate s.numberOfNodes none,
      seen := (List.replicate s.numberOfNodes none).set source (some 0),
      fringe := [(0, 0, source)], count := 0, paths := [] }
    (Inv.init _ _ _ _ hsrc)
    (by simp only [pendFrom_replicate, Store.totalAdj, List.length_cons, List.length_nil]; omega)
  obtain ⟨I, hfr⟩ := hloop
  rw [hfr] at I
  rw [spInfos_dist_iff, I.final_exact hA rfl t d]
  simp [overCutoff]

/- ORIGINAL STATEMENT (FALSE for a negative cutoff: the source itself is popped and reported with distance 0
   before any cutoff test, because the cutoff is only tested on `vu_dist` inside the relaxation):

-- with a cutoff: exactly the nodes whose shortest distance is within the cutoff, with that distance
(original statement) C04_dijkstra_model_cutoff (s : Store) (weighted : Bool) (source : Nat) (c : Int) (firstOnly withPaths : Bool)
    (hwf : s.vecWf) (hsrc : source < s.nodesVec.length) (hnn : ∀ a ∈ s.idxArcs weighted, 0 ≤ a.2.2)
    (out : List (Nat × SPInfo)) (h : s.dijkstra weighted source none (some c) firstOnly withPaths = .ok out) :
    ∀ t d, (∃ i, (t, i) ∈ out ∧ i.dist = d) ↔ (IsDist (s.idxArcs weighted) source t d ∧ 2 * d ≤ c)

   Counterexample (machine-checked below): the one-edge graph 0 → 1, source 0, doubled cutoff c = -1:
   the model returns [(0, ⟨0, []⟩)], but 2 * 0 ≤ -1 is false. -/

/-- with a non-negative cutoff: exactly the nodes whose shortest distance is within the cutoff, with that distance
    (corrected: hypothesis `0 ≤ c` added) -/
theorem C04_dijkstra_model_cutoff_corrected (s : Store) (weighted : Bool) (source : Nat) (c : Int) (firstOnly withPaths : Bool)
    (hwf : s.vecWf) (hsrc : source < s.nodesVec.length) (hnn : ∀ a ∈ s.idxArcs weighted, 0 ≤ a.2.2) (hc : 0 ≤ c)
    (out : List (Nat × SPInfo)) (h : s.dijkstra weighted source none (some c) firstOnly withPaths = .ok out) :
    ∀ t d, (∃ i, (t, i) ∈ out ∧ i.dist = d) ↔ (IsDist (s.idxArcs weighted) source t d ∧ 2 * d ≤ c) := by
  intro t d
  obtain ⟨st, pend, e, I, hfin, _⟩ := dijkstra_run s weighted source none (some c) firstOnly withPaths hwf hsrc hnn
  rw [e] at h
  simp only [Outcome.ok.injEq] at h
  subst h
  obtain ⟨e1, e2⟩ := hfin rfl
  subst e1
  rw [e2] at I
  have h0 : overCutoff (some c) 0 = false := by simp [overCutoff]; omega
  rw [spInfos_dist_iff, I.final_exact (idxArcs_wf s weighted hwf hnn) h0 t d]
  have : overCutoff (some c) d = false ↔ 2 * d ≤ c := by simp [overCutoff]
  rw [this]

/-- for a negative cutoff the model reports exactly the source, with distance 0 (so the original statement
    fails exactly at `t = source`, `d = 0`) -/
theorem C04_dijkstra_model_cutoff_counterexample :
    let sp : Specs := ⟨true, false, false, .keepFirst, .create, .error⟩
    let s := (Store.run sp [Op.addEdge ⟨1, 2, some 1, none⟩]).1
    s.vecWf ∧ 0 < s.nodesVec.length ∧ (∀ a ∈ s.idxArcs true, 0 ≤ a.2.2) ∧
    (s.dijkstra true 0 none (some (-1)) false false).toOption = some [(0, ⟨0, []⟩)] ∧
    ¬ (IsDist (s.idxArcs true) 0 0 0 ∧ 2 * (0 : Int) ≤ -1) := by
  intro sp s
  refine ⟨?_, ?_, ?_, ?_, ?_⟩
  · unfold Store.vecWf; decide
  · decide
  · decide
  · decide
  · intro h; exact absurd h.2 (by decide)

/-- every returned path is a walk from the source to its node whose cost is the reported distance -/
theorem C04_dijkstra_model_paths_valid (s : Store) (weighted : Bool) (source : Nat) (target : Option Nat) (cutoff2 : Option Int) (firstOnly : Bool)
    (hwf : s.vecWf) (hsrc : source < s.nodesVec.length) (hnn : ∀ a ∈ s.idxArcs weighted, 0 ≤ a.2.2)
    (out : List (Nat × SPInfo)) (h : s.dijkstra weighted source target cutoff2 firstOnly true = .ok out) :
    ∀ t i, (t, i) ∈ out → ∀ p ∈ i.paths, p.head? = some source ∧ p.getLast? = some t ∧
      Arcs.walkCost (s.idxArcs weighted) p = some i.dist := by
  intro t i hm p hp
  obtain ⟨st, pend, e, I, _, hP⟩ := dijkstra_run s weighted source target cutoff2 firstOnly true hwf hsrc hnn
  rw [e] at h
  simp only [Outcome.ok.injEq] at h
  subst h
  obtain ⟨d, hd, hi⟩ := (mem_spInfos ..).1 hm
  subst hi
  simp only [if_true] at hp ⊢
  obtain ⟨k, hk, h1, h2, h3⟩ := hP rfl t p hp
  have := I.distSeen t d hd
  rw [hk] at this; cases this
  exact ⟨h1, h2, h3⟩

/-- non-vacuity: a weighted digraph with a tie and a heavier parallel route -/
example :
    let sp : Specs := ⟨true, false, false, .keepFirst, .create, .error⟩
    let s := (Store.run sp [Op.addEdge ⟨1, 2, some 1, none⟩, Op.addEdge ⟨1, 3, some 1, none⟩, Op.addEdge ⟨2, 4, some 1, none⟩,
                            Op.addEdge ⟨3, 4, some 1, none⟩, Op.addEdge ⟨1, 4, some 5, none⟩]).1
    (s.dijkstra true 0 none none false true).toOption.map (fun l => l.map fun p => (p.1, p.2.dist, p.2.paths.length))
      = some [(0, 0, 1), (1, 1, 1), (2, 1, 1), (3, 2, 2)] := by
  decide

end Graphrs
