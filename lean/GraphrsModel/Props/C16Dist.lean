/-
  C16, the *distribution* claim for the undirected generator: "behaves as a draw from G(n,p)".

  The generator draws geometric skips `k` (P(k) = (1-p)^k p: `floor(ln(1-r)/ln(1-p))` for uniform r — PRNG and `ln` are
  outside the model and are the assumption of this file).  What is proved here, for every n in 2 .. 2^31-1:

  * `C16_gnp_undirected_is_slot_process`: the model of `fast_gnp_random_graph_undirected` is the plain *slot process* over
    the N = n(n-1)/2 slots of the lower triangle: from position `pos`, a skip `k` selects slot `pos + k` and continues from
    `pos + k + 1`; the first skip that overshoots N ends the run (saturating `i64` arithmetic included).
  * `C16_slot_process_preimage`: the skip sequences on which the process outputs a given increasing slot list `S` are
    exactly `gaps S ++ [r + j] ++ extra` (r = distance from the last selected slot to the end, `extra` = skips never drawn).
  * `C16_gnp_undirected_bernoulli`: hence, if the skips are independent geometric(p), the probability of the output `S`,
    Σ_j Π geom(gaps S ++ [r + j]), is exactly `p^|S| (1-p)^(N-|S|)`: every pair is present independently with probability p.
  * `C16_bernoulli_total`, `C16_bernoulli_mean`: these masses sum to one over all subsets of slots, and the mean number
    of edges is exactly `p N` (the undirected scheme needs no allowance).
-/
import GraphrsModel.Props.C16Store
import Mathlib.Analysis.SpecificLimits.Basic
import Mathlib.Algebra.BigOperators.Ring.Finset
import Mathlib.Data.Nat.Choose.Sum
import Mathlib.Tactic.LinearCombination
namespace Graphrs

/-- the plain slot process: `N` slots, position `pos`, slots selected so far `acc` -/
def slotRun (N : Int) : List Int → Int → List Int → Option (List Int)
  | [], _, _ => none
  | k :: rest, pos, acc => if N ≤ pos + k then some acc else slotRun N rest (pos + k + 1) (acc ++ [pos + k])

private def triD (v : Int) : Int := v * (v - 1) / 2
private theorem triD_succ (v : Int) : triD (v + 1) = triD v + v := by
  unfold triD
  have : (v + 1) * (v + 1 - 1) = v * (v - 1) + v * 2 := by ring
  rw [this, Int.add_mul_ediv_right _ _ (by decide)]
private theorem slotUnd_eqD (p : Int × Int) : slotUnd p = triD p.1 + p.2 := rfl
private theorem triD_one : triD 1 = 0 := by decide
private theorem triD_zero : triD 0 = 0 := by decide

private theorem triD_mono_nat (a : Int) (ha : 0 ≤ a) : ∀ d : Nat, triD a ≤ triD (a + d) := by
  intro d
  induction d with
  | zero => simp
  | succ d ih =>
    have : a + ((d + 1 : Nat) : Int) = (a + d) + 1 := by push_cast; ring
    rw [this, triD_succ]; omega

private theorem triD_mono (a b : Int) (ha : 0 ≤ a) (hab : a ≤ b) : triD a ≤ triD b := by
  have := triD_mono_nat a ha (b - a).toNat
  have e : a + ((b - a).toNat : Int) = b := by omega
  rwa [e] at this

private theorem triD_nonneg (a : Int) (ha : 0 ≤ a) : 0 ≤ triD a := by
  have := triD_mono 0 a (by omega) ha
  rwa [triD_zero] at this

private theorem triD_le_sq (n : Int) (hn : 0 ≤ n) : triD n ≤ n * n := by
  have h2 := Int.mul_nonneg hn hn
  have : n * (n - 1) = n * n - n := by ring
  unfold triD
  rw [this]
  omega

private theorem sq_smallD (n : Int) (hn : 0 ≤ n) (hsmall : n ≤ 2147483647) : 0 ≤ n * n ∧ n * n ≤ 4611686014132420609 := by
  have h1 := Int.mul_le_mul hsmall hsmall hn (by omega)
  have h2 := Int.mul_nonneg hn hn
  omega

private theorem undRow_specD (n : Int) : ∀ (fuel : Nat) (v w v' w' : Int),
    gnpUndRow n fuel v w = (v', w') → 1 ≤ v →
    v ≤ v' ∧ triD v' + w' = triD v + w ∧ (0 ≤ w → 0 ≤ w') ∧ (v ≤ n → v' ≤ n) ∧
    (n - v < fuel → ¬ (w' ≥ v' ∧ v' < n)) := by
  intro fuel
  induction fuel with
  | zero =>
    intro v w v' w' h hv
    simp only [gnpUndRow, Prod.mk.injEq] at h
    obtain ⟨rfl, rfl⟩ := h
    refine ⟨by omega, rfl, id, id, ?_⟩
    intro h; omega
  | succ fuel ih =>
    intro v w v' w' h hv
    rw [gnpUndRow] at h
    by_cases hc : w ≥ v ∧ v < n
    · rw [if_pos (by simpa using hc)] at h
      obtain ⟨h1, h2, h3, h4, h6⟩ := ih (v + 1) (w - v) v' w' h (by omega)
      rw [triD_succ] at h2
      exact ⟨by omega, by omega, fun h => h3 (by omega), fun _ => h4 (by omega), fun h => h6 (by omega)⟩
    · rw [if_neg (by simpa using hc)] at h
      simp only [Prod.mk.injEq] at h
      obtain ⟨rfl, rfl⟩ := h
      exact ⟨by omega, rfl, id, id, fun _ => hc⟩

private theorem und_stepD (n : Int) (fuel : Nat) (sk : Int) (rest : List Int) (v w w1 v' w' : Int) (acc : List (Int × Int))
    (hv : v < n) (hsat : satAdd (satAdd w 1) sk = w1) (hrow : gnpUndRow n (n.toNat + 1) v w1 = (v', w')) :
    gnpUndirected n (fuel + 1) (sk :: rest) v w acc =
      gnpUndirected n fuel rest v' w' (if v' < n then acc ++ [(v', w')] else acc) := by
  rw [gnpUndirected, if_pos hv]
  simp only [hsat, hrow]

/-- the generator, started in any loop state, is the slot process started at the next slot -/
private theorem und_refines (n : Int) (hn : 2 ≤ n) (hsmall : n ≤ 2147483647) :
    ∀ (fuel : Nat) (skips : List Int) (v w : Int) (acc : List (Int × Int)),
      skips.length < fuel → (∀ k ∈ skips, 0 ≤ k) → 1 ≤ v → v < n → -1 ≤ w → w < v →
      (gnpUndirected n fuel skips v w acc).map (List.map slotUnd) =
        slotRun (triD n) skips (triD v + w + 1) (acc.map slotUnd) := by
  have hsq := sq_smallD n (by omega) hsmall
  have htn := triD_le_sq n (by omega)
  have hM : i64Max = 9223372036854775807 := rfl
  intro fuel
  induction fuel with
  | zero => intro skips v w acc h; omega
  | succ fuel ih =>
    intro skips v w acc hlen hs hv hvn hw hwv
    have htv := triD_nonneg v (by omega)
    cases skips with
    | nil => simp [gnpUndirected, slotRun, hvn]
    | cons sk rest =>
      have hsk := hs sk (by simp)
      have hrest : ∀ k ∈ rest, 0 ≤ k := fun k hk => hs k (by simp [hk])
      simp only [List.length_cons] at hlen
      generalize hw1 : satAdd (satAdd w 1) sk = w1
      have hw1' : (w + 1 + sk ≤ i64Max → w1 = w + 1 + sk) ∧ (i64Max < w + 1 + sk → w1 = i64Max) := by
        rw [← hw1, show satAdd w 1 = w + 1 from by unfold satAdd; split <;> omega]
        unfold satAdd
        constructor
        · intro h; rw [if_neg (by omega)]
        · intro h; rw [if_pos (by omega)]
      generalize hrow : gnpUndRow n (n.toNat + 1) v w1 = r
      obtain ⟨v', w'⟩ := r
      obtain ⟨h1, h2, h3, h4, h6⟩ := undRow_specD n _ v _ v' w' hrow hv
      have hexit := h6 (by omega)
      have h4' := h4 (by omega)
      rw [und_stepD n _ _ _ v w _ v' w' acc hvn hw1 hrow, slotRun]
      by_cases hover : triD n ≤ triD v + w + 1 + sk
      · -- overshoot: the row loop runs to v' = n
        rw [if_pos hover]
        have hw1ge : triD n ≤ triD v + w1 := by
          by_cases hc : w + 1 + sk ≤ i64Max
          · rw [hw1'.1 hc]; omega
          · rw [hw1'.2 (by omega)]; omega
        have hv'n : ¬ v' < n := by
          intro hlt
          have := triD_mono (v' + 1) n (by omega) (by omega)
          rw [triD_succ] at this
          omega
        rw [if_neg hv'n]
        cases fuel with
        | zero => omega
        | succ fuel => simp [gnpUndirected, hv'n]
      · rw [if_neg hover]
        have hc : w + 1 + sk ≤ i64Max := by omega
        have e1 := hw1'.1 hc
        subst e1
        have h3' := h3 (by omega)
        have hv'n : v' < n := by
          by_cases he : v' = n
          · rw [he] at h2; omega
          · omega
        rw [if_pos hv'n]
        have := ih rest v' w' (acc ++ [(v', w')]) (by omega) hrest (by omega) hv'n (by omega) (by omega)
        rw [this, List.map_append, List.map_cons, List.map_nil, slotUnd_eqD]
        show slotRun (triD n) rest (triD v' + w' + 1) (List.map slotUnd acc ++ [triD v' + w']) = _
        rw [h2]
        congr 1 <;> first | omega | (congr 1; congr 1; omega)

/-- **the undirected generator is the slot process** over the `n(n-1)/2` slots of the lower triangle -/
theorem C16_gnp_undirected_is_slot_process (n : Int) (hn : 2 ≤ n) (hsmall : n ≤ 2147483647) (skips : List Int)
    (hs : ∀ k ∈ skips, 0 ≤ k) :
    (gnpUndirected n (skips.length + 1) skips 1 (-1) []).map (List.map slotUnd) =
      slotRun (n * (n - 1) / 2) skips 0 [] := by
  have := und_refines n hn hsmall (skips.length + 1) skips 1 (-1) [] (by omega) hs (by omega) (by omega) (by omega) (by omega)
  rw [this, triD_one]
  rfl

/-! ### which skip sequences produce a given output -/

/-- gaps between successive selected slots, starting from position `pos` -/
def gaps : Int → List Int → List Int
  | _, [] => []
  | pos, s :: t => (s - pos) :: gaps (s + 1) t
/-- the position after the last selected slot -/
def endPos : Int → List Int → Int
  | pos, [] => pos
  | _, s :: t => endPos (s + 1) t

/-- slots strictly increasing, all in `[pos, N)` -/
def SlotsOk (N pos : Int) : List Int → Prop
  | [] => pos ≤ N
  | s :: t => pos ≤ s ∧ s < N ∧ SlotsOk N (s + 1) t

private theorem slotRun_prefix (N : Int) : ∀ (ks : List Int) (pos : Int) (acc out : List Int),
    slotRun N ks pos acc = some out → ∃ S, out = acc ++ S := by
  intro ks
  induction ks with
  | nil => intro pos acc out h; simp [slotRun] at h
  | cons k rest ih =>
    intro pos acc out h
    rw [slotRun] at h
    split at h
    · exact ⟨[], by simpa using h.symm⟩
    · obtain ⟨S, hS⟩ := ih _ _ _ h
      exact ⟨(pos + k) :: S, by rw [hS]; simp⟩

private theorem endPos_le (N : Int) : ∀ (S : List Int) (pos : Int), SlotsOk N pos S → pos + S.length ≤ endPos pos S ∧ endPos pos S ≤ N := by
  intro S
  induction S with
  | nil => intro pos h; simpa [endPos, SlotsOk] using h
  | cons s t ih =>
    intro pos h
    obtain ⟨h1, h2, h3⟩ := h
    have := ih (s + 1) h3
    simp only [endPos, List.length_cons]
    push_cast
    omega

/-- **preimage of an output**: the slot process outputs exactly the increasing slot list `S` on precisely the skip
    sequences "gaps of S, then a skip of at least the remaining distance to the end, then anything" -/
theorem C16_slot_process_preimage_gen (N : Int) : ∀ (S : List Int) (pos : Int) (acc ks : List Int), SlotsOk N pos S →
    (∀ k ∈ ks, 0 ≤ k) →
    (slotRun N ks pos acc = some (acc ++ S) ↔
      ∃ (j : Nat) (extra : List Int), ks = gaps pos S ++ [(N - endPos pos S) + j] ++ extra) := by
  intro S
  induction S with
  | nil =>
    intro pos acc ks hok hks
    cases ks with
    | nil => simp [slotRun, gaps]
    | cons k rest =>
      rw [slotRun]
      by_cases h : N ≤ pos + k
      · rw [if_pos h]
        simp only [List.append_nil, true_iff, gaps, endPos, List.nil_append, List.cons_append, List.cons.injEq]
        exact ⟨(k - (N - pos)).toNat, rest, by omega, rfl⟩
      · rw [if_neg h]
        constructor
        · intro hrun
          obtain ⟨S', hS'⟩ := slotRun_prefix N _ _ _ _ hrun
          have := congrArg List.length hS'
          simp at this
        · rintro ⟨j, extra, hj⟩
          simp only [gaps, endPos, List.nil_append, List.cons_append, List.cons.injEq] at hj
          omega
  | cons s t ih =>
    intro pos acc ks hok hks
    obtain ⟨h1, h2, h3⟩ := hok
    cases ks with
    | nil => simp [slotRun, gaps]
    | cons k rest =>
      have hk := hks k (by simp)
      have hrest : ∀ k ∈ rest, 0 ≤ k := fun k hk => hks k (by simp [hk])
      rw [slotRun]
      by_cases h : N ≤ pos + k
      · rw [if_pos h]
        constructor
        · intro he
          have := congrArg List.length (Option.some.inj he)
          simp at this
        · rintro ⟨j, extra, hj⟩
          simp only [gaps, List.cons_append, List.cons.injEq] at hj
          omega
      · rw [if_neg h]
        by_cases hs : pos + k = s
        · subst hs
          have := ih (pos + k + 1) (acc ++ [pos + k]) rest h3 hrest
          rw [show acc ++ (pos + k) :: t = (acc ++ [pos + k]) ++ t by simp, this]
          simp only [gaps, endPos, List.cons_append, List.cons.injEq]
          constructor
          · rintro ⟨j, extra, hj⟩; exact ⟨j, extra, by omega, by simpa using hj⟩
          · rintro ⟨j, extra, _, hj⟩; exact ⟨j, extra, by simpa using hj⟩
        · constructor
          · intro hrun
            obtain ⟨S', hS'⟩ := slotRun_prefix N _ _ _ _ hrun
            simp only [List.append_assoc, List.append_cancel_left_eq, List.cons_append, List.nil_append, List.cons.injEq] at hS'
            omega
          · rintro ⟨j, extra, hj⟩
            simp only [gaps, List.cons_append, List.cons.injEq] at hj
            omega

theorem C16_slot_process_preimage (N : Int) (S ks : List Int) (hok : SlotsOk N 0 S) (hks : ∀ k ∈ ks, 0 ≤ k) :
    slotRun N ks 0 [] = some S ↔ ∃ (j : Nat) (extra : List Int), ks = gaps 0 S ++ [(N - endPos 0 S) + j] ++ extra := by
  simpa using C16_slot_process_preimage_gen N S 0 [] ks hok hks

/-! ### the law of the output under independent geometric skips -/

/-- P(skip = k) for a geometric skip: `(1-p)^k p` -/
noncomputable def geom (p : ℝ) (k : Int) : ℝ := (1 - p) ^ k.toNat * p
/-- probability of drawing exactly this finite sequence of independent skips -/
noncomputable def skipsWeight (p : ℝ) (ks : List Int) : ℝ := (ks.map (geom p)).prod

private theorem weight_gaps (N : Int) (p : ℝ) : ∀ (S : List Int) (pos : Int), SlotsOk N pos S →
    skipsWeight p (gaps pos S) * (1 - p) ^ S.length = p ^ S.length * (1 - p) ^ (endPos pos S - pos).toNat := by
  intro S
  induction S with
  | nil => intro pos _; simp [skipsWeight, gaps, endPos]
  | cons s t ih =>
    intro pos hok
    obtain ⟨h1, h2, h3⟩ := hok
    have hle := endPos_le N t (s + 1) h3
    have ih' := ih (s + 1) h3
    simp only [skipsWeight, gaps, endPos, List.map_cons, List.prod_cons, List.length_cons] at ih' ⊢
    have e : (endPos (s + 1) t - pos).toNat = (s - pos).toNat + 1 + (endPos (s + 1) t - (s + 1)).toNat := by omega
    rw [e]
    simp only [geom]
    linear_combination ((1 - p) ^ (s - pos).toNat * p * (1 - p)) * ih'

/-- **Bernoulli law of the slot process**: with independent geometric(p) skips, the probability that exactly the slots `S`
    (strictly increasing, within `0..N`) are selected — the sum over the final overshooting skip of the probability of
    drawing "gaps of S, then that skip" — is `p^|S| (1-p)^(N-|S|)` -/
theorem C16_slot_process_law (N : Int) (S : List Int) (hok : SlotsOk N 0 S) (p : ℝ) (hp0 : 0 < p) (hp1 : p < 1) :
    HasSum (fun j : Nat => skipsWeight p (gaps 0 S ++ [(N - endPos 0 S) + j]))
      (p ^ S.length * (1 - p) ^ (N.toNat - S.length)) := by
  have hle := endPos_le N S 0 hok
  have hq0 : 0 < 1 - p := by linarith
  have hq1 : 1 - p < 1 := by linarith
  have hg := weight_gaps N p S 0 hok
  have hterm : ∀ j : Nat, skipsWeight p (gaps 0 S ++ [(N - endPos 0 S) + j]) =
      (skipsWeight p (gaps 0 S) * (1 - p) ^ (N - endPos 0 S).toNat * p) * (1 - p) ^ j := by
    intro j
    simp only [skipsWeight, List.map_append, List.prod_append, List.map_cons, List.map_nil, List.prod_cons, List.prod_nil,
      mul_one, geom]
    rw [show ((N - endPos 0 S) + (j : Int)).toNat = (N - endPos 0 S).toNat + j by omega, pow_add]
    ring
  simp only [hterm]
  have hgeo := (hasSum_geometric_of_lt_one hq0.le hq1).mul_left
    (skipsWeight p (gaps 0 S) * (1 - p) ^ (N - endPos 0 S).toNat * p)
  suffices hv : p ^ S.length * (1 - p) ^ (N.toNat - S.length) =
      skipsWeight p (gaps 0 S) * (1 - p) ^ (N - endPos 0 S).toNat * p * (1 - (1 - p))⁻¹ by rw [hv]; exact hgeo
  have hqne : (1 - p) ^ S.length ≠ 0 := pow_ne_zero _ hq0.ne'
  apply mul_right_cancel₀ hqne
  have e2 : N.toNat - S.length + S.length = (endPos 0 S - 0).toNat + (N - endPos 0 S).toNat := by omega
  have hp' : (1 - (1 - p))⁻¹ * p = 1 := by
    rw [show 1 - (1 - p) = p by ring]; exact inv_mul_cancel₀ hp0.ne'
  calc p ^ S.length * (1 - p) ^ (N.toNat - S.length) * (1 - p) ^ S.length
      = p ^ S.length * (1 - p) ^ (N.toNat - S.length + S.length) := by rw [pow_add]; ring
    _ = p ^ S.length * (1 - p) ^ (endPos 0 S - 0).toNat * (1 - p) ^ (N - endPos 0 S).toNat := by rw [e2, pow_add]; ring
    _ = skipsWeight p (gaps 0 S) * (1 - p) ^ S.length * (1 - p) ^ (N - endPos 0 S).toNat * ((1 - (1 - p))⁻¹ * p) := by
        rw [hg, hp']; ring
    _ = _ := by ring

/-- **the undirected generator draws from G(n,p)** (given independent geometric skips): for every set of unordered pairs,
    presented as an increasing slot list `S`,
    * the model emits exactly the pairs of `S` on precisely the skip sequences `gaps S ++ [r + j] ++ extra`, and
    * the total probability of those draws is `p^|S| (1-p)^(N-|S|)` with `N = n(n-1)/2`. -/
theorem C16_gnp_undirected_bernoulli (n : Int) (hn : 2 ≤ n) (hsmall : n ≤ 2147483647) (S : List Int)
    (hok : SlotsOk (n * (n - 1) / 2) 0 S) (p : ℝ) (hp0 : 0 < p) (hp1 : p < 1) :
    (∀ ks : List Int, (∀ k ∈ ks, 0 ≤ k) →
      ((gnpUndirected n (ks.length + 1) ks 1 (-1) []).map (List.map slotUnd) = some S ↔
        ∃ (j : Nat) (extra : List Int), ks = gaps 0 S ++ [(n * (n - 1) / 2 - endPos 0 S) + j] ++ extra)) ∧
    HasSum (fun j : Nat => skipsWeight p (gaps 0 S ++ [(n * (n - 1) / 2 - endPos 0 S) + j]))
      (p ^ S.length * (1 - p) ^ ((n * (n - 1) / 2).toNat - S.length)) := by
  refine ⟨?_, C16_slot_process_law _ S hok p hp0 hp1⟩
  intro ks hks
  rw [C16_gnp_undirected_is_slot_process n hn hsmall ks hks]
  exact C16_slot_process_preimage _ S ks hok hks

/-! ### the masses form the binomial product law -/

open Finset in
/-- the Bernoulli masses over all subsets of the `N` slots sum to one -/
theorem C16_bernoulli_total (N : Nat) (p : ℝ) :
    ∑ S ∈ (Finset.range N).powerset, p ^ S.card * (1 - p) ^ (N - S.card) = 1 := by
  have := Finset.sum_pow_mul_eq_add_pow p (1 - p) (Finset.range N)
  simp only [Finset.card_range] at this
  rw [this]; simp

open Finset in
private theorem choose_mean (a b : ℝ) (N : Nat) :
    ∑ m ∈ Finset.range (N + 1), (N.choose m : ℝ) * (m * (a ^ m * b ^ (N - m))) = N * a * (a + b) ^ (N - 1) := by
  cases N with
  | zero => simp
  | succ n =>
    rw [Finset.sum_range_succ', add_pow]
    simp only [Nat.cast_zero, zero_mul, mul_zero, add_zero, Nat.add_sub_cancel, Finset.mul_sum]
    apply Finset.sum_congr rfl
    intro k hk
    have hk' : k ≤ n := by simpa [Nat.lt_succ_iff] using hk
    have hc : ((n + 1).choose (k + 1) : ℝ) * ((k + 1 : Nat) : ℝ) = ((n + 1 : Nat) : ℝ) * (n.choose k : ℝ) := by
      have := Nat.add_one_mul_choose_eq n k
      have h2 : (((n + 1) * n.choose k : Nat) : ℝ) = (((n + 1).choose (k + 1) * (k + 1) : Nat) : ℝ) := by rw [this]
      push_cast at h2 ⊢
      linarith
    rw [show n + 1 - (k + 1) = n - k by omega]
    calc ((n + 1).choose (k + 1) : ℝ) * (((k + 1 : Nat) : ℝ) * (a ^ (k + 1) * b ^ (n - k)))
        = (((n + 1).choose (k + 1) : ℝ) * ((k + 1 : Nat) : ℝ)) * (a ^ (k + 1) * b ^ (n - k)) := by ring
      _ = _ := by rw [hc, pow_succ]; push_cast; ring

open Finset in
/-- the mean number of selected slots (edges) under the Bernoulli law is exactly `p N` -/
theorem C16_bernoulli_mean (N : Nat) (p : ℝ) :
    ∑ S ∈ (Finset.range N).powerset, (S.card : ℝ) * (p ^ S.card * (1 - p) ^ (N - S.card)) = N * p := by
  have := Finset.sum_powerset_apply_card (fun m => (m : ℝ) * (p ^ m * (1 - p) ^ (N - m))) (x := Finset.range N)
  simp only [Finset.card_range, nsmul_eq_mul] at this
  rw [this, choose_mean]
  simp

/-- non-vacuity: n = 4 (6 slots), output slots 0, 2, 5: the preimage and the mass p³(1-p)³ -/
example : SlotsOk 6 0 [0, 2, 5] ∧ gaps 0 [0, 2, 5] = [0, 1, 2] ∧ endPos 0 [0, 2, 5] = 6 ∧
    slotRun 6 [0, 1, 2, 100] 0 [] = some [0, 2, 5] := by
  refine ⟨by simp [SlotsOk], by decide, by decide, by decide⟩

end Graphrs
