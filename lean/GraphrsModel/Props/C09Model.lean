/-
  C09 / C12 (model level) — under the coupling invariant the model of the count / degree functions
  (each following the Rust lookup path through `get_edges_for_node` etc.) returns the abstract
  quantities of Spec/Abs.lean, and the model of `modularity` equals Newman's formula
  (`Abs.modularitySpec`) for every true partition.
-/
import GraphrsModel.Props.Core
import GraphrsModel.Props.C09
import GraphrsModel.Props.C12
import GraphrsModel.Model.Community
import GraphrsModel.Lemmas.C09ModelAux
namespace Graphrs

-- some statements carry the `wf` hypothesis although their proof does not need it
set_option linter.unusedVariables false

theorem C09_model_numberOfEdges (s : Store) (h : s.wf = true) :
    s.numberOfEdges = s.abs.edges.length ∧ s.sizeUnweighted = s.abs.edges.length ∧ s.numberOfNodes = s.abs.nodes.length := by
  refine ⟨?_, rfl, rfl⟩
  simp only [Store.numberOfEdges, Store.abs, Store.allEdges, C09M.sumNat_eq_sum, List.length_flatMap]

private theorem getNode_isNone_of (s : Store) (x : Nat) (hx : s.hasNode x = false) : (s.getNode x).isNone = true := by
  unfold Store.hasNode at hx
  cases h : s.getNode x <;> simp_all

private theorem getNode_isNone_of' (s : Store) (x : Nat) (hx : s.hasNode x = true) : (s.getNode x).isNone = false := by
  unfold Store.hasNode at hx
  cases h : s.getNode x <;> simp_all

theorem C09_model_degree (s : Store) (h : s.wf = true) (x : Nat) :
    s.getNodeDegree x = (if s.hasNode x then some (s.abs.degree s.specs.directed x) else none) := by
  cases hx : s.hasNode x
  · simp [Store.getNodeDegree, (C02_node_errors s x).2 (getNode_isNone_of s x hx)]
  · obtain ⟨l, hl, hp⟩ := C02_edgesForNode s h x hx
    simp only [Store.getNodeDegree, hl, if_true]
    cases hd : s.specs.directed
    · simp only [Abs.edgesForNode, hd, Bool.false_eq_true, if_false] at hp
      simp only [Abs.degree, Bool.false_eq_true, if_false]
      rw [hp.length_eq, (hp.filter _).length_eq, Abs.touching, List.filter_filter]
      have hf : s.abs.edges.filter (fun a => a.u == x && a.v == x && (a.u == x || a.v == x))
          = s.abs.edges.filter (fun e => e.u == x && e.v == x) := by
        apply List.filter_congr
        intro e _
        cases e.u == x <;> cases e.v == x <;> rfl
      rw [hf]
    · simp only [Abs.edgesForNode, hd, if_true] at hp
      simp only [Abs.degree, if_true]
      rw [hp.length_eq, List.length_append]
      simp

theorem C09_model_in_out_degree (s : Store) (h : s.wf = true) (x : Nat) :
    s.getNodeInDegree x = (if s.specs.directed && s.hasNode x then some (s.abs.inEdges x).length else none) ∧
    s.getNodeOutDegree x = (if s.specs.directed && s.hasNode x then some (s.abs.outEdges x).length else none) := by
  cases hd : s.specs.directed
  · simp [Store.getNodeInDegree, Store.getNodeOutDegree, Store.getInEdgesForNode, Store.getOutEdgesForNode, hd]
  · cases hx : s.hasNode x
    · simp [Store.getNodeInDegree, Store.getNodeOutDegree, Store.getInEdgesForNode, Store.getOutEdgesForNode, hd,
        getNode_isNone_of s x hx]
    · obtain ⟨l1, hl1, hp1⟩ := C02_inEdges s h hd x hx
      obtain ⟨l2, hl2, hp2⟩ := C02_outEdges s h hd x hx
      simp [Store.getNodeInDegree, Store.getNodeOutDegree, hl1, hl2, hp1.length_eq, hp2.length_eq]

/-- the abstract graph of a well-formed store is valid (so the handshake identities of Props/C09.lean apply to it) -/
theorem C09_model_abs_valid (s : Store) (h : s.wf = true) : s.abs.Valid := by
  obtain ⟨hn, he⟩ := Store.wf_inv h
  exact ⟨hn.names_nodup, fun e hm => ⟨(Store.allEdges_valid he hm).1, (Store.allEdges_valid he hm).2.1⟩⟩

private theorem hasNode_names (s : Store) (h : s.wf = true) (x : Nat) : s.hasNode x = true ↔ x ∈ s.names :=
  C02.hasNode_mem (C02.nodesP_of s (C09M.wf_parts s h).1) x

/-- **handshake on every reachable store**: the degrees the model reports sum to twice the number of stored edges -/
theorem C09_model_handshake (s : Store) (h : s.wf = true) :
    sumNat (s.getAllNodeNames.map fun x => (s.getNodeDegree x).getD 0) = 2 * s.numberOfEdges := by
  rw [(C09_model_numberOfEdges s h).1, ← C09_handshake s.specs.directed s.abs (C09_model_abs_valid s h)]
  congr 1
  apply List.map_congr_left
  intro x hx
  rw [C09_model_degree s h x, (hasNode_names s h x).2 hx]
  rfl

/-- the degree map has one entry per node with that node's degree -/
theorem C09_model_degree_map (s : Store) (h : s.wf = true) :
    ∃ m, s.getDegreeForAllNodes = .ok m ∧ ∀ x, alookup m x = (if s.hasNode x then some (s.abs.degree s.specs.directed x) else none) := by
  obtain ⟨hn, _⟩ := Store.wf_inv h
  refine ⟨_, C09M.forAllNodes_ok s _ s.getNodeDegree (s.abs.degree s.specs.directed) hn.names_nodup ?_, ?_⟩
  · intro x hx
    rw [C09_model_degree s h x, (hasNode_names s h x).2 hx]
    rfl
  · intro x
    rw [C09M.alookup_map_self]
    by_cases hx : x ∈ s.names
    · simp [hx, (hasNode_names s h x).2 hx]
    · have : s.hasNode x = false := by
        rw [Bool.eq_false_iff]; intro hc; exact hx ((hasNode_names s h x).1 hc)
      simp [hx, this]

/-! ### modularity -/

private theorem partition_names (s : Store) (h : s.wf = true) (comms : List (List Nat))
    (hp : s.isPartition comms = true) (hsets : ∀ c ∈ comms, c.Nodup) : ∀ c ∈ comms, ∀ x ∈ c, x ∈ s.names := by
  obtain ⟨hn, _⟩ := Store.wf_inv h
  have := (C12_is_partition_iff s comms hn.names_nodup (fun x => hasNode_names s h x) hsets).1 hp
  intro c hc x hx
  exact this.2.1 x (List.mem_flatMap.mpr ⟨c, hc, hx⟩)

private theorem outDegMap (s : Store) (h : s.wf = true) (hd : s.specs.directed = true) :
    s.getOutDegreeForAllNodes = .ok (s.names.map fun x => (x, (s.abs.outEdges x).length)) := by
  obtain ⟨hn, _⟩ := Store.wf_inv h
  simp only [Store.getOutDegreeForAllNodes, hd, Bool.not_true, Bool.false_eq_true, if_false]
  apply C09M.forAllNodes_ok s _ _ _ hn.names_nodup
  intro x hx
  rw [(C09_model_in_out_degree s h x).2, hd, (hasNode_names s h x).2 hx]
  rfl

private theorem inDegMap (s : Store) (h : s.wf = true) (hd : s.specs.directed = true) :
    s.getInDegreeForAllNodes = .ok (s.names.map fun x => (x, (s.abs.inEdges x).length)) := by
  obtain ⟨hn, _⟩ := Store.wf_inv h
  simp only [Store.getInDegreeForAllNodes, hd, Bool.not_true, Bool.false_eq_true, if_false]
  apply C09M.forAllNodes_ok s _ _ _ hn.names_nodup
  intro x hx
  rw [(C09_model_in_out_degree s h x).1, hd, (hasNode_names s h x).2 hx]
  rfl

private theorem degMap (s : Store) (h : s.wf = true) :
    s.getDegreeForAllNodes = .ok (s.names.map fun x => (x, s.abs.degree s.specs.directed x)) := by
  obtain ⟨hn, _⟩ := Store.wf_inv h
  apply C09M.forAllNodes_ok s _ _ _ hn.names_nodup
  intro x hx
  rw [C09_model_degree s h x, (hasNode_names s h x).2 hx]
  rfl

/-- the subgraph of a community holds exactly the edges with both ends in it -/
private theorem subgraph_edge_count (s : Store) (h : s.wf = true) (c : List Nat) :
    ∃ t, s.getSubgraph c = .ok t ∧
      t.allEdges.length = (s.abs.edges.filter fun e => c.contains e.u && c.contains e.v).length := by
  obtain ⟨t, h1, _, _, h4⟩ := Core_subgraph s h c
  exact ⟨t, h1, (C09M.absEq_edges_perm h4).length_eq⟩

/-- unweighted modularity of the model = Newman's formula, for every true partition of a graph with at least one edge -/
theorem C12_model_modularity_unweighted (s : Store) (h : s.wf = true) (comms : List (List Nat)) (res : Rat)
    (hp : s.isPartition comms = true) (hsets : ∀ c ∈ comms, c.Nodup) (hm : s.abs.edges ≠ []) :
    s.modularity comms false res = .ok (Abs.modularitySpec s.specs.directed s.abs comms false res) := by
  obtain ⟨hn, he⟩ := Store.wf_inv h
  have hnames := partition_names s h comms hp hsets
  have hvalid := C09_model_abs_valid s h
  have hM : s.abs.edges.length ≠ 0 := by
    intro hc; exact hm (List.length_eq_zero_iff.mp hc)
  have hMq : ((s.abs.edges.length : Nat) : Rat) ≠ 0 := by exact_mod_cast hM
  unfold Store.modularity
  simp only [hp, Bool.not_true, Bool.false_eq_true, if_false]
  cases hd : s.specs.directed
  · simp only [Bool.false_eq_true, if_false]
    have hsumDeg : Store.sumOpt (s.names.map fun x => some ((s.abs.degree false x : Nat) : Rat))
        = some (2 * ((s.abs.edges.length : Nat) : Rat)) := by
      rw [C09M.sumOpt_some_nat, ← C09M.sumNat_eq_sum]
      have := C09_handshake false s.abs hvalid
      simp only [Abs.nodeNames] at this
      simp only [Store.names]
      rw [show s.nodesVec = s.abs.nodes from rfl, this]
      push_cast
      rfl
    have hdm := degMap s h
    rw [hd] at hdm
    rw [hdm]
    simp only [Outcome.map', bind, Outcome.bind, pure, List.map_map, Function.comp_def, hsumDeg,
      Option.map_some]
    have hbeq : ((((s.abs.edges.length : Nat) : Rat)) == 0) = false := by simpa using hMq
    have h2Mq : 2 * ((s.abs.edges.length : Nat) : Rat) ≠ 0 := mul_ne_zero (by norm_num) hMq
    have hbeq2 : ((2 * ((s.abs.edges.length : Nat) : Rat)) == 0) = false := by simpa using hMq
    have hhalf : 2 * ((s.abs.edges.length : Nat) : Rat) / 2 = ((s.abs.edges.length : Nat) : Rat) := by
      field_simp
    rw [C02.foldl_ok_append _ (fun c => [some (
        (((s.abs.edges.filter fun e => c.contains e.u && c.contains e.v).length : Nat) : Rat) / ((s.abs.edges.length : Nat) : Rat)
        - res * (((((s.abs.edges.filter fun e => c.contains e.u).length : Nat) : Rat)
                  + (((s.abs.edges.filter fun e => c.contains e.v).length : Nat) : Rat)) / (2 * ((s.abs.edges.length : Nat) : Rat)))
              * (((((s.abs.edges.filter fun e => c.contains e.u).length : Nat) : Rat)
                  + (((s.abs.edges.filter fun e => c.contains e.v).length : Nat) : Rat)) / (2 * ((s.abs.edges.length : Nat) : Rat))))])
        comms []]
    · simp only [Abs.modularitySpec, C09M.sumO_eq, C09M.sumOpt_wOf_false, hbeq, Bool.false_eq_true, if_false,
        List.nil_append, ← List.map_eq_flatMap]
    · intro comm hc acc
      obtain ⟨t, hsub, hlen⟩ := subgraph_edge_count s h comm
      simp only [hsub]
      rw [C09M.commFold_ok _ (s.names.map fun x => (x, some ((s.abs.degree false x : Nat) : Rat))) comm
        (fun x => s.abs.degree false x) ?_ ?_]
      · simp only [C09M.degree_sum_comm s.abs comm (hsets comm hc), hlen, hbeq, hbeq2, hhalf, Bool.false_eq_true,
          if_false]
        congr 4
        push_cast
        field_simp
      · intro x y n hl
        simp only [hl, Outcome.ofOption]
      · intro n hn'
        rw [C09M.alookup_map_self, if_pos (hnames comm hc n hn')]
  · simp only [if_true]
    have hsumOut : Store.sumOpt (s.names.map fun x => some (((s.abs.outEdges x).length : Nat) : Rat))
        = some ((s.abs.edges.length : Nat) : Rat) := by
      rw [C09M.sumOpt_some_nat, ← C09M.sumNat_eq_sum]
      exact congrArg (fun n : Nat => some (n : Rat)) (C09_out_degrees_sum s.abs hvalid)
    rw [outDegMap s h hd, inDegMap s h hd]
    simp only [Outcome.map', Outcome.unwrap, bind, Outcome.bind, pure, List.map_map, Function.comp_def, hsumOut,
      Option.map_some]
    rw [C02.foldl_ok_append _ (fun c => [some (
        (((s.abs.edges.filter fun e => c.contains e.u && c.contains e.v).length : Nat) : Rat) / ((s.abs.edges.length : Nat) : Rat)
        - res * (((s.abs.edges.filter fun e => c.contains e.u).length : Nat) : Rat)
            * (((s.abs.edges.filter fun e => c.contains e.v).length : Nat) : Rat)
            / (((s.abs.edges.length : Nat) : Rat) * ((s.abs.edges.length : Nat) : Rat)))]) comms []]
    · have hbeq : ((((s.abs.edges.length : Nat) : Rat)) == 0) = false := by simpa using hMq
      simp only [Abs.modularitySpec, C09M.sumO_eq, C09M.sumOpt_wOf_false, hbeq, Bool.false_eq_true, if_false,
        List.nil_append, ← List.map_eq_flatMap, if_true]
    · intro comm hc acc
      obtain ⟨t, hsub, hlen⟩ := subgraph_edge_count s h comm
      simp only [hsub]
      rw [C09M.commFold_ok _ (s.names.map fun x => (x, some (((s.abs.outEdges x).length : Nat) : Rat))) comm
        (fun x => (s.abs.outEdges x).length) ?_ ?_]
      rw [C09M.commFold_ok _ (s.names.map fun x => (x, some (((s.abs.inEdges x).length : Nat) : Rat))) comm
        (fun x => (s.abs.inEdges x).length) ?_ ?_]
      · have hbeq : ((((s.abs.edges.length : Nat) : Rat)) == 0) = false := by simpa using hMq
        have ho := C09M.count_by_set s.abs.edges (·.u) comm (hsets comm hc)
        have hi := C09M.count_by_set s.abs.edges (·.v) comm (hsets comm hc)
        simp only [Abs.outEdges, Abs.inEdges, ho, hi, hlen, hbeq, Bool.false_eq_true, if_false]
        congr 4
        field_simp
      · intro x y n hl
        simp only [hl, Outcome.ofOption]
      · intro n hn'
        rw [C09M.alookup_map_self, if_pos (hnames comm hc n hn')]
      · intro x y n hl
        simp only [hl, Outcome.ofOption]
      · intro n hn'
        rw [C09M.alookup_map_self, if_pos (hnames comm hc n hn')]

end Graphrs
