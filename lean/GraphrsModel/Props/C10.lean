import GraphrsModel.ObsComp
namespace Graphrs
/-- placeholder while the framework is brought up: replaced by the property theorems -/
theorem C10_checkEqualSize_empty : checkEqualSize [] 1 [[]] = none := by decide
end Graphrs
