/-
  C10 — component functions partition the nodes by the right reachability relation.

  The checkers of Spec/Components.lean are what `tools/check.py` runs on the real implementation's answers
  (connected / weakly / strongly connected components, node component, BFS, equal-size partitions) and on the
  model's; here they are proved sound: an accepted answer *is* the partition the property describes.  Then the
  breadth-first search of the model is proved correct for every graph, and the arithmetic behind
  bfs_equal_size_partitions is proved.  The strong-components algorithm itself is proved correct for all
  graphs in Props/C10Model.lean (`C10_model_strong_components`).
-/
import GraphrsModel.ObsComp
import Mathlib.Data.List.Perm.Subperm
namespace Graphrs

/-! ### helper lemmas: list-sets, insertion sort -/

private theorem mem_sinsert' {α} [DecidableEq α] (s : List α) (x y : α) :
    y ∈ sinsert s x ↔ y ∈ s ∨ y = x := by
  unfold sinsert
  by_cases h : x ∈ s
  · rw [if_pos h]
    constructor
    · exact Or.inl
    · rintro (h' | rfl)
      · exact h'
      · exact h
  · rw [if_neg h]; simp

private theorem nodup_sinsert' {α} [DecidableEq α] (s : List α) (x : α) (hs : s.Nodup) :
    (sinsert s x).Nodup := by
  unfold sinsert
  by_cases h : x ∈ s
  · rw [if_pos h]; exact hs
  · rw [if_neg h]
    rw [List.nodup_append]
    refine ⟨hs, by simp, ?_⟩
    intro a ha b hb
    rw [List.mem_singleton] at hb
    subst hb
    intro hab
    subst hab
    exact h ha

private theorem mem_foldl_sinsert' {α} [DecidableEq α] (l acc : List α) (y : α) :
    y ∈ l.foldl sinsert acc ↔ y ∈ acc ∨ y ∈ l := by
  induction l generalizing acc with
  | nil => simp
  | cons x xs ih =>
    rw [List.foldl_cons, ih, mem_sinsert', List.mem_cons]
    constructor
    · rintro ((h | h) | h)
      · exact Or.inl h
      · exact Or.inr (Or.inl h)
      · exact Or.inr (Or.inr h)
    · rintro (h | h | h)
      · exact Or.inl (Or.inl h)
      · exact Or.inl (Or.inr h)
      · exact Or.inr h

private theorem nodup_foldl_sinsert' {α} [DecidableEq α] (l acc : List α) (hacc : acc.Nodup) :
    (l.foldl sinsert acc).Nodup := by
  induction l generalizing acc with
  | nil => exact hacc
  | cons x xs ih => exact ih _ (nodup_sinsert' acc x hacc)

private theorem mem_sunion' {α} [DecidableEq α] (s t : List α) (y : α) :
    y ∈ sunion s t ↔ y ∈ s ∨ y ∈ t := mem_foldl_sinsert' t s y

private theorem mem_dedup' {α} [DecidableEq α] (l : List α) (y : α) : y ∈ dedup l ↔ y ∈ l := by
  unfold dedup
  rw [mem_foldl_sinsert']
  simp

private theorem nodup_dedup' {α} [DecidableEq α] (l : List α) : (dedup l).Nodup :=
  nodup_foldl_sinsert' l [] List.nodup_nil

private theorem dedup_subperm' {α} [DecidableEq α] (l : List α) : (dedup l).Subperm l :=
  (nodup_dedup' l).subperm (fun x hx => (mem_dedup' l x).mp hx)

private theorem length_dedup_eq_iff' {α} [DecidableEq α] (l : List α) :
    (dedup l).length = l.length ↔ l.Nodup := by
  constructor
  · intro h
    have hp : (dedup l).Perm l := (dedup_subperm' l).perm_of_length_le (Nat.le_of_eq h.symm)
    exact hp.nodup_iff.mp (nodup_dedup' l)
  · intro h
    have hp : (dedup l).Perm l :=
      (List.perm_ext_iff_of_nodup (nodup_dedup' l) h).mpr (fun x => mem_dedup' l x)
    exact hp.length_eq

private theorem insertSorted_perm' {α} (le : α → α → Bool) (x : α) (l : List α) :
    (insertSorted le x l).Perm (x :: l) := by
  induction l with
  | nil => exact List.Perm.refl _
  | cons y ys ih =>
    unfold insertSorted
    by_cases h : le x y = true
    · simp [h]
    · simp only [h]
      exact (List.Perm.cons y ih).trans (List.Perm.swap x y ys)

private theorem isort_perm' {α} (le : α → α → Bool) (l : List α) : (isort le l).Perm l := by
  induction l with
  | nil => exact List.Perm.refl _
  | cons x xs ih =>
    show (insertSorted le x (isort le xs)).Perm (x :: xs)
    exact (insertSorted_perm' le x _).trans (List.Perm.cons x ih)

private theorem perm_of_sortNat_eq {a b : List Nat} (h : sortNat a = sortNat b) : a.Perm b := by
  have ha : (sortNat a).Perm a := isort_perm' _ a
  have hb : (sortNat b).Perm b := isort_perm' _ b
  exact ha.symm.trans (h ▸ hb)

/-- in a duplicate-free flattening, a value lies in only one of the sets -/
private theorem flat_nodup_unique (comps : List (List Nat)) (hnd : (comps.flatMap id).Nodup)
    {c c' : List Nat} (hc : c ∈ comps) (hc' : c' ∈ comps) {x : Nat} (hx : x ∈ c) (hx' : x ∈ c') :
    c = c' := by
  induction comps with
  | nil => cases hc
  | cons d ds ih =>
    rw [List.flatMap_cons, List.nodup_append] at hnd
    obtain ⟨_, hds, hdisj⟩ := hnd
    have hflat : ∀ e ∈ ds, x ∈ e → x ∈ ds.flatMap id := fun e he hxe =>
      List.mem_flatMap.mpr ⟨e, he, hxe⟩
    rcases List.mem_cons.mp hc with rfl | hc1
    · rcases List.mem_cons.mp hc' with rfl | hc2
      · rfl
      · exact absurd rfl (hdisj x hx x (hflat _ hc2 hx'))
    · rcases List.mem_cons.mp hc' with rfl | hc2
      · exact absurd rfl (hdisj x hx' x (hflat _ hc1 hx))
      · exact ih hds hc1 hc2

/-- **soundness of the partition checker**: non-empty, pairwise disjoint sets that together contain every node exactly
    once, two nodes of one set are related, and related nodes share a set -/
theorem C10_checkPartitionBy_sound (nodes : List Nat) (rel : Nat → Nat → Bool) (comps : List (List Nat))
    (h : checkPartitionBy nodes rel comps = none) :
    (∀ c ∈ comps, c ≠ []) ∧ (comps.flatMap id).Nodup ∧ (∀ x, x ∈ comps.flatMap id ↔ x ∈ nodes) ∧
    (∀ c ∈ comps, ∀ x ∈ c, ∀ y ∈ c, rel x y = true) ∧
    (∀ x ∈ nodes, ∀ y ∈ nodes, rel x y = true → ∀ c ∈ comps, x ∈ c → y ∈ c) := by
  unfold checkPartitionBy at h
  simp only at h
  split at h
  · cases h
  next h1 =>
  split at h
  · cases h
  next h2 =>
  split at h
  · cases h
  next h3 =>
  split at h
  · cases h
  next h4 =>
  split at h
  · cases h
  next h5 =>
  simp only [bne_iff_ne, ne_eq, Decidable.not_not] at h2 h3
  have hnd : (comps.flatMap id).Nodup := (length_dedup_eq_iff' _).mp h2.symm
  have hperm : (comps.flatMap id).Perm nodes := perm_of_sortNat_eq h3
  simp only [List.any_eq_true, not_exists, not_and, Bool.not_eq_true', Bool.not_eq_false,
    Bool.and_eq_true, bne_iff_ne, ne_eq, Decidable.not_not, List.isEmpty_iff] at h1 h4 h5
  have hfind : ∀ z ∈ nodes, ∃ d, comps.find? (·.contains z) = some d ∧ d ∈ comps ∧ z ∈ d := by
    intro z hz
    have hz' : z ∈ comps.flatMap id := hperm.mem_iff.mpr hz
    obtain ⟨e, he, hze⟩ := List.mem_flatMap.mp hz'
    cases hf : comps.find? (·.contains z) with
    | none =>
      have := List.find?_eq_none.mp hf e he
      simp only [id] at hze
      simp [hze] at this
    | some d =>
      refine ⟨d, rfl, List.mem_of_find?_eq_some hf, ?_⟩
      have := List.find?_some hf
      simpa using this
  refine ⟨?_, hnd, fun x => hperm.mem_iff, ?_, ?_⟩
  · intro c hc hce
    exact h1 c hc hce
  · intro c hc x hx y hy
    have := h4 c hc x hx y hy
    simpa using this
  · intro x hx y hy hrel c hc hxc
    obtain ⟨d, hfd, hd, hxd⟩ := hfind x hx
    obtain ⟨e, hfe, he, hye⟩ := hfind y hy
    have h := h5 x hx y hy hrel
    rw [hfd, hfe] at h
    simp only [Option.map_some, Option.some.injEq] at h
    have hde : d.Perm e := perm_of_sortNat_eq h
    have hcd : c = d := flat_nodup_unique comps hnd hc hd hxc hxd
    rw [hcd]
    exact hde.mem_iff.mpr hye

/-- soundness of the equal-size checker: k parts, every node in exactly one, each of size at most n/k + 1 -/
theorem C10_checkEqualSize_sound (nodes : List Nat) (k : Nat) (parts : List (List Nat))
    (h : checkEqualSize nodes k parts = none) :
    parts.length = k ∧ (parts.flatMap id).Perm nodes ∧ ∀ p ∈ parts, p.length ≤ nodes.length / k + 1 := by
  unfold checkEqualSize at h
  simp only at h
  split at h
  · cases h
  next h1 =>
  split at h
  · cases h
  next h2 =>
  split at h
  · cases h
  next h3 =>
  simp only [bne_iff_ne, ne_eq, Decidable.not_not] at h1 h2
  refine ⟨h1, perm_of_sortNat_eq h2, ?_⟩
  intro p hp
  simp only [List.any_eq_true, not_exists, not_and, decide_eq_true_eq] at h3
  have := h3 p hp
  omega

/-- soundness of the BFS checker: the start node first, no repeats, exactly the given reachable set -/
theorem C10_checkBfs_sound (reach : List Nat) (x : Nat) (out : List Nat) (h : checkBfs reach x out = none) :
    out.head? = some x ∧ out.Nodup ∧ out.Perm reach := by
  unfold checkBfs at h
  split at h
  · cases h
  next h1 =>
  split at h
  · cases h
  next h2 =>
  split at h
  · cases h
  next h3 =>
  simp only [bne_iff_ne, ne_eq, Decidable.not_not] at h1 h2 h3
  exact ⟨h1, (length_dedup_eq_iff' out).mp h2.symm, perm_of_sortNat_eq h3⟩

/-- the arithmetic behind `partition_max_size = n / k + 1`: k parts of that size always have room for all n nodes,
    and k - 1 full parts never hold them all unless ... the last part can never fill up before every node is placed -/
theorem C10_equal_size_arith (n k : Nat) (hk : 0 < k) : n < k * (n / k + 1) := by
  have h1 := Nat.div_add_mod n k
  have h2 := Nat.mod_lt n hk
  rw [Nat.mul_succ]
  omega

/-- reachability along a neighbour function -/
inductive ReachR (nb : Nat → List Nat) : Nat → Nat → Prop
  | refl (x : Nat) : ReachR nb x x
  | step {x y z : Nat} : ReachR nb x y → z ∈ nb y → ReachR nb x z

/-! ### the BFS loop: a pure description of one level, and its invariant -/

/-- one step of the per-level fold of `bfsLevels`, without the `Outcome` wrapper -/
private def stepP (nbl : Nat → List Nat) (st : List Nat × List Nat × List Nat) (v : Nat) :
    List Nat × List Nat × List Nat :=
  if st.1.contains v then st else (sinsert st.1 v, st.2.1 ++ [v], sunion st.2.2 (dedup (nbl v)))

/-- the neighbour names the model reads for `v` -/
private def nblOf (s : Store) (v : Nat) : List Nat :=
  match s.getSuccessorsOrNeighbors v with
  | .ok l => l.map (·.name)
  | _ => []

/-- the per-level fold step of `bfsLevels` (copied verbatim) -/
private def bfsStep (s : Store) :
    Outcome (List Nat × List Nat × List Nat) → Nat → Outcome (List Nat × List Nat × List Nat) :=
  fun (acc : Outcome (List Nat × List Nat × List Nat)) v => do
        let (seen, ret, next) ← acc
        if seen.contains v then .ok (seen, ret, next)
        else do
          let nb ← s.getSuccessorsOrNeighbors v
          .ok (sinsert seen v, ret ++ [v], sunion next (dedup (nb.map (·.name))))

private theorem bfsLevels_succ (s : Store) (fuel : Nat) (level seen ret : List Nat) :
    s.bfsLevels (fuel + 1) level seen ret =
      if level.isEmpty then .ok ret
      else match level.foldl (bfsStep s) (.ok (seen, ret, [])) with
        | .ok (seen, ret, next) => s.bfsLevels fuel next seen ret
        | .err k => .err k
        | .panic site => .panic site := by
  rw [Store.bfsLevels]
  rfl

private theorem bfsStep_ok (s : Store) (st : List Nat × List Nat × List Nat) (v : Nat) (l : List Node)
    (hl : s.getSuccessorsOrNeighbors v = .ok l) :
    bfsStep s (.ok st) v = .ok (stepP (nblOf s) st v) := by
  obtain ⟨seen, ret, next⟩ := st
  show (if seen.contains v then Outcome.ok (seen, ret, next)
        else (s.getSuccessorsOrNeighbors v).bind fun nb =>
          .ok (sinsert seen v, ret ++ [v], sunion next (dedup (nb.map (·.name))))) = _
  unfold stepP nblOf
  rw [hl]
  by_cases hc : seen.contains v = true
  · simp only [hc, if_true]
  · simp only [hc, Outcome.bind]
    rfl

private theorem bfsFold_ok (s : Store) (level : List Nat)
    (hl : ∀ v ∈ level, ∃ l, s.getSuccessorsOrNeighbors v = .ok l)
    (st : List Nat × List Nat × List Nat) :
    level.foldl (bfsStep s) (.ok st) = .ok (level.foldl (stepP (nblOf s)) st) := by
  induction level generalizing st with
  | nil => rfl
  | cons v vs ih =>
    obtain ⟨l, hv⟩ := hl v (List.mem_cons_self)
    rw [List.foldl_cons, List.foldl_cons, bfsStep_ok s st v l hv]
    exact ih (fun w hw => hl w (List.mem_cons_of_mem _ hw)) _

/-- **the invariant of one BFS level** -/
private theorem level_inv (nb nbl : Nat → List Nat) (x : Nat)
    (hnbl : ∀ v, ReachR nb x v → ∀ z, z ∈ nbl v ↔ z ∈ nb v) (level : List Nat) :
    ∀ (seen ret next : List Nat),
      ret.Nodup → (∀ y, y ∈ seen ↔ y ∈ ret) → (∀ y ∈ ret, ReachR nb x y) →
      (∀ y ∈ next, ReachR nb x y) → (∀ v ∈ level, ReachR nb x v) →
      ∃ seen' ret' next', level.foldl (stepP nbl) (seen, ret, next) = (seen', ret', next') ∧
        ret'.Nodup ∧ (∀ y, y ∈ seen' ↔ y ∈ ret') ∧ (∀ y ∈ ret', ReachR nb x y) ∧
        (∀ y ∈ next', ReachR nb x y) ∧
        (∃ ext, ret' = ret ++ ext ∧ ∀ v ∈ ext, v ∈ level) ∧ (∀ v ∈ level, v ∈ ret') ∧
        (∀ y ∈ next, y ∈ next') ∧
        (∀ y ∈ ret', y ∈ ret ∨ ∀ z ∈ nb y, z ∈ next') ∧
        ((ret' = ret ∧ next' = next) ∨ ret.length < ret'.length) := by
  induction level with
  | nil =>
    intro seen ret next hnd hsr hret hnext _
    exact ⟨seen, ret, next, rfl, hnd, hsr, hret, hnext, ⟨[], by simp, by simp⟩, by simp,
      fun y hy => hy, fun y hy => Or.inl hy, Or.inl ⟨rfl, rfl⟩⟩
  | cons v vs ih =>
    intro seen ret next hnd hsr hret hnext hlevel
    have hv : ReachR nb x v := hlevel v List.mem_cons_self
    have hvs : ∀ w ∈ vs, ReachR nb x w := fun w hw => hlevel w (List.mem_cons_of_mem _ hw)
    rw [List.foldl_cons]
    by_cases hc : seen.contains v = true
    · have hst : stepP nbl (seen, ret, next) v = (seen, ret, next) := by
        unfold stepP; simp only [hc, if_true]
      rw [hst]
      obtain ⟨seen', ret', next', hf, h1, h2, h3, h4, ⟨ext, hext, hextm⟩, h6, h7, h8, h9⟩ :=
        ih seen ret next hnd hsr hret hnext hvs
      refine ⟨seen', ret', next', hf, h1, h2, h3, h4,
        ⟨ext, hext, fun w hw => List.mem_cons_of_mem _ (hextm w hw)⟩, ?_, h7, h8, h9⟩
      intro w hw
      rcases List.mem_cons.mp hw with rfl | hw
      · have : w ∈ ret := (hsr w).mp (by simpa using hc)
        rw [hext]; exact List.mem_append_left _ this
      · exact h6 w hw
    · have hvseen : v ∉ seen := by simpa using hc
      have hvret : v ∉ ret := fun h => hvseen ((hsr v).mpr h)
      have hst : stepP nbl (seen, ret, next) v =
          (sinsert seen v, ret ++ [v], sunion next (dedup (nbl v))) := by
        unfold stepP; simp only [hc]; rfl
      rw [hst]
      have hnd1 : (ret ++ [v]).Nodup := by
        rw [List.nodup_append]
        refine ⟨hnd, by simp, ?_⟩
        intro a ha b hb
        rw [List.mem_singleton] at hb
        subst hb
        intro hab; subst hab; exact hvret ha
      have hsr1 : ∀ y, y ∈ sinsert seen v ↔ y ∈ ret ++ [v] := by
        intro y
        rw [mem_sinsert', List.mem_append, List.mem_singleton, hsr y]
      have hret1 : ∀ y ∈ ret ++ [v], ReachR nb x y := by
        intro y hy
        rcases List.mem_append.mp hy with hy | hy
        · exact hret y hy
        · rw [List.mem_singleton] at hy; subst hy; exact hv
      have hnext1mem : ∀ y, y ∈ sunion next (dedup (nbl v)) ↔ y ∈ next ∨ y ∈ nb v := by
        intro y
        rw [mem_sunion', mem_dedup', hnbl v hv y]
      have hnext1 : ∀ y ∈ sunion next (dedup (nbl v)), ReachR nb x y := by
        intro y hy
        rcases (hnext1mem y).mp hy with hy | hy
        · exact hnext y hy
        · exact ReachR.step hv hy
      obtain ⟨seen', ret', next', hf, h1, h2, h3, h4, ⟨ext, hext, hextm⟩, h6, h7, h8, h9⟩ :=
        ih _ _ _ hnd1 hsr1 hret1 hnext1 hvs
      have hvret' : v ∈ ret' := by rw [hext]; simp
      refine ⟨seen', ret', next', hf, h1, h2, h3, h4, ⟨v :: ext, by rw [hext]; simp, ?_⟩, ?_, ?_, ?_, ?_⟩
      · intro w hw
        rcases List.mem_cons.mp hw with rfl | hw
        · exact List.mem_cons_self
        · exact List.mem_cons_of_mem _ (hextm w hw)
      · intro w hw
        rcases List.mem_cons.mp hw with rfl | hw
        · exact hvret'
        · exact h6 w hw
      · intro y hy
        exact h7 y ((hnext1mem y).mpr (Or.inl hy))
      · intro y hy
        rcases h8 y hy with h | h
        · rcases List.mem_append.mp h with h | h
          · exact Or.inl h
          · rw [List.mem_singleton] at h; subst h
            exact Or.inr fun z hz => h7 z ((hnext1mem z).mpr (Or.inr hz))
        · exact Or.inr h
      · right
        have : (ret ++ [v]).length ≤ ret'.length := by
          rcases h9 with ⟨h, _⟩ | h
          · rw [h]; exact Nat.le_refl _
          · exact Nat.le_of_lt h
        rw [List.length_append, List.length_singleton] at this
        omega

/-- when every node of the pending level is already listed, the list is the answer -/
private theorem bfs_final (nb : Nat → List Nat) (x : Nat) (level ret : List Nat)
    (hnd : ret.Nodup) (hret : ∀ y ∈ ret, ReachR nb x y)
    (hclos : ∀ y ∈ ret, ∀ z ∈ nb y, z ∈ ret ∨ z ∈ level)
    (hhead : (ret = [] ∧ level = [x]) ∨ ret.head? = some x)
    (hdone : ∀ y ∈ level, y ∈ ret) :
    ret.head? = some x ∧ ret.Nodup ∧ ∀ y, y ∈ ret ↔ ReachR nb x y := by
  have hh : ret.head? = some x := by
    rcases hhead with ⟨h1, h2⟩ | h
    · have : x ∈ ret := hdone x (by rw [h2]; exact List.mem_singleton.mpr rfl)
      rw [h1] at this; cases this
    · exact h
  have hxret : x ∈ ret := List.mem_of_head? hh
  refine ⟨hh, hnd, fun y => ⟨hret y, ?_⟩⟩
  intro hy
  induction hy with
  | refl => exact hxret
  | step _ hz ih =>
    rcases hclos _ ih _ hz with h | h
    · exact h
    · exact hdone _ h

private theorem bfs_outer (s : Store) (nb : Nat → List Nat) (x : Nat)
    (hok : ∀ v, ReachR nb x v → ∃ l, s.getSuccessorsOrNeighbors v = .ok l)
    (hnbl : ∀ v, ReachR nb x v → ∀ z, z ∈ nblOf s v ↔ z ∈ nb v)
    (hnames : ∀ v, ReachR nb x v → v ∈ s.getAllNodeNames) :
    ∀ (fuel : Nat) (level seen ret out : List Nat),
      ret.Nodup → (∀ y, y ∈ seen ↔ y ∈ ret) → (∀ y ∈ ret, ReachR nb x y) →
      (∀ y ∈ level, ReachR nb x y) →
      (∀ y ∈ ret, ∀ z ∈ nb y, z ∈ ret ∨ z ∈ level) →
      ((ret = [] ∧ level = [x]) ∨ ret.head? = some x) →
      ((∀ y ∈ level, y ∈ ret) ∨ s.getAllNodeNames.length < ret.length + fuel) →
      s.bfsLevels fuel level seen ret = .ok out →
      out.head? = some x ∧ out.Nodup ∧ ∀ y, y ∈ out ↔ ReachR nb x y := by
  intro fuel
  induction fuel with
  | zero =>
    intro level seen ret out hnd hsr hret hlevel hclos hhead hfuel h
    rw [Store.bfsLevels] at h
    cases h
    have hlen : ret.length ≤ s.getAllNodeNames.length :=
      (hnd.subperm (fun y hy => hnames y (hret y hy))).length_le
    rcases hfuel with hdone | hlt
    · exact bfs_final nb x level ret hnd hret hclos hhead hdone
    · omega
  | succ fuel ih =>
    intro level seen ret out hnd hsr hret hlevel hclos hhead hfuel h
    rw [bfsLevels_succ] at h
    by_cases hemp : level.isEmpty = true
    · rw [if_pos hemp] at h
      cases h
      have hl : level = [] := List.isEmpty_iff.mp hemp
      exact bfs_final nb x level ret hnd hret hclos hhead (by rw [hl]; intro y hy; cases hy)
    · rw [if_neg hemp, bfsFold_ok s level (fun v hv => hok v (hlevel v hv))] at h
      obtain ⟨seen', ret', next', hf, h1, h2, h3, h4, ⟨ext, hext, hextm⟩, h6, _, h8, h9⟩ :=
        level_inv nb (nblOf s) x hnbl level seen ret [] hnd hsr hret (by intro y hy; cases hy) hlevel
      rw [hf] at h
      have hsub : ∀ y ∈ ret, y ∈ ret' := fun y hy => by rw [hext]; exact List.mem_append_left _ hy
      refine ih next' seen' ret' out h1 h2 h3 h4 ?_ ?_ ?_ h
      · intro y hy z hz
        rcases h8 y hy with hyr | hnew
        · rcases hclos y hyr z hz with hz' | hz'
          · exact Or.inl (hsub z hz')
          · exact Or.inl (h6 z hz')
        · exact Or.inr (hnew z hz)
      · right
        rcases hhead with ⟨hr, hl⟩ | hh
        · subst hr
          rw [List.nil_append] at hext
          subst hext
          have hxr : x ∈ ret' := h6 x (by rw [hl]; exact List.mem_singleton.mpr rfl)
          cases ret' with
          | nil => cases hxr
          | cons a t =>
            have : a ∈ level := hextm a List.mem_cons_self
            rw [hl, List.mem_singleton] at this
            rw [this]; rfl
        · cases ret with
          | nil => cases hh
          | cons a t =>
            rw [hext]
            exact hh
      · rcases h9 with ⟨_, hn⟩ | hlt
        · left; rw [hn]; intro y hy; cases hy
        · right
          rcases hfuel with hdone | hf'
          · exfalso
            cases ext with
            | nil => rw [hext, List.append_nil] at hlt; omega
            | cons a t =>
              have ha : a ∈ ret := hdone a (hextm a List.mem_cons_self)
              rw [hext, List.nodup_append] at h1
              exact h1.2.2 a ha a List.mem_cons_self rfl
          · omega

/-- **the model's `breadth_first_search` is correct on every graph**: it lists the start node first and then every
    reachable node exactly once.  `nb` is the neighbour function `get_successors_or_neighbors` computes (C02 relates it
    to the edge list); `names` are the node names. -/
theorem C10_bfs_correct (s : Store) (nb : Nat → List Nat) (x : Nat) (out : List Nat)
    (hnd : s.getAllNodeNames.Nodup) (hx : x ∈ s.getAllNodeNames)
    (hnb : ∀ y ∈ s.getAllNodeNames, ∃ l, s.getSuccessorsOrNeighbors y = .ok l ∧
              (∀ z, z ∈ l.map (·.name) ↔ z ∈ nb y) ∧ (∀ z ∈ nb y, z ∈ s.getAllNodeNames))
    (h : s.breadthFirstSearch x = .ok out) :
    out.head? = some x ∧ out.Nodup ∧ ∀ y, y ∈ out ↔ ReachR nb x y := by
  have _ := hnd  -- not needed: the length bound uses only that the output is duplicate-free
  have hnames : ∀ v, ReachR nb x v → v ∈ s.getAllNodeNames := by
    intro v hv
    induction hv with
    | refl => exact hx
    | step _ hz ih =>
      obtain ⟨_, _, _, h3⟩ := hnb _ ih
      exact h3 _ hz
  have hok : ∀ v, ReachR nb x v → ∃ l, s.getSuccessorsOrNeighbors v = .ok l := by
    intro v hv
    obtain ⟨l, hl, _⟩ := hnb v (hnames v hv)
    exact ⟨l, hl⟩
  have hnbl : ∀ v, ReachR nb x v → ∀ z, z ∈ nblOf s v ↔ z ∈ nb v := by
    intro v hv z
    obtain ⟨l, hl, h2, _⟩ := hnb v (hnames v hv)
    unfold nblOf
    rw [hl]
    exact h2 z
  unfold Store.breadthFirstSearch at h
  refine bfs_outer s nb x hok hnbl hnames (s.numNodes + 2) [x] [] [] out List.nodup_nil
    (fun y => Iff.rfl) (by intro y hy; cases hy) ?_ (by intro y hy; cases hy)
    (Or.inl ⟨rfl, rfl⟩) ?_ h
  · intro y hy
    rw [List.mem_singleton] at hy
    subst hy
    exact ReachR.refl _
  · right
    simp only [Store.getAllNodeNames, Store.numNodes, List.length_map, List.length_nil]
    omega

/-! ### the search since the F24 repair: every level visited in name order -/

private theorem mem_isort' {α} (le : α → α → Bool) (y : α) (l : List α) : y ∈ isort le l ↔ y ∈ l := by
  induction l with
  | nil => simp [isort]
  | cons a t ih =>
    have hins : ∀ (m : List α), y ∈ insertSorted le a m ↔ y = a ∨ y ∈ m := by
      intro m
      induction m with
      | nil => simp [insertSorted]
      | cons b u ihu =>
        unfold insertSorted
        split
        · simp
        · simp only [List.mem_cons, ihu]; tauto
    show y ∈ insertSorted le a (isort le t) ↔ y ∈ a :: t
    rw [hins, ih, List.mem_cons]

private theorem mem_sortNat' (y : Nat) (l : List Nat) : y ∈ sortNat l ↔ y ∈ l := mem_isort' _ y l

private theorem bfsLevelsOrdered_succ (s : Store) (fuel : Nat) (level seen ret : List Nat) :
    s.bfsLevelsOrdered (fuel + 1) level seen ret =
      if level.isEmpty then .ok ret
      else match (sortNat level).foldl (bfsStep s) (.ok (seen, ret, [])) with
        | .ok (seen, ret, next) => s.bfsLevelsOrdered fuel next seen ret
        | .err k => .err k
        | .panic site => .panic site := by
  rw [Store.bfsLevelsOrdered]
  rfl

private theorem bfs_outer_ordered (s : Store) (nb : Nat → List Nat) (x : Nat)
    (hok : ∀ v, ReachR nb x v → ∃ l, s.getSuccessorsOrNeighbors v = .ok l)
    (hnbl : ∀ v, ReachR nb x v → ∀ z, z ∈ nblOf s v ↔ z ∈ nb v)
    (hnames : ∀ v, ReachR nb x v → v ∈ s.getAllNodeNames) :
    ∀ (fuel : Nat) (level seen ret out : List Nat),
      ret.Nodup → (∀ y, y ∈ seen ↔ y ∈ ret) → (∀ y ∈ ret, ReachR nb x y) →
      (∀ y ∈ level, ReachR nb x y) →
      (∀ y ∈ ret, ∀ z ∈ nb y, z ∈ ret ∨ z ∈ level) →
      ((ret = [] ∧ level = [x]) ∨ ret.head? = some x) →
      ((∀ y ∈ level, y ∈ ret) ∨ s.getAllNodeNames.length < ret.length + fuel) →
      s.bfsLevelsOrdered fuel level seen ret = .ok out →
      out.head? = some x ∧ out.Nodup ∧ ∀ y, y ∈ out ↔ ReachR nb x y := by
  intro fuel
  induction fuel with
  | zero =>
    intro level seen ret out hnd hsr hret hlevel hclos hhead hfuel h
    rw [Store.bfsLevelsOrdered] at h
    cases h
    have hlen : ret.length ≤ s.getAllNodeNames.length :=
      (hnd.subperm (fun y hy => hnames y (hret y hy))).length_le
    rcases hfuel with hdone | hlt
    · exact bfs_final nb x level ret hnd hret hclos hhead hdone
    · omega
  | succ fuel ih =>
    intro level seen ret out hnd hsr hret hlevel hclos hhead hfuel h
    rw [bfsLevelsOrdered_succ] at h
    by_cases hemp : level.isEmpty = true
    · rw [if_pos hemp] at h
      cases h
      have hl : level = [] := List.isEmpty_iff.mp hemp
      exact bfs_final nb x level ret hnd hret hclos hhead (by rw [hl]; intro y hy; cases hy)
    · rw [if_neg hemp, bfsFold_ok s (sortNat level) (fun v hv => hok v (hlevel v ((mem_sortNat' v level).1 hv)))] at h
      obtain ⟨seen', ret', next', hf, h1, h2, h3, h4, ⟨ext, hext, hextm⟩, h6, _, h8, h9⟩ :=
        level_inv nb (nblOf s) x hnbl (sortNat level) seen ret [] hnd hsr hret (by intro y hy; cases hy)
          (fun y hy => hlevel y ((mem_sortNat' y level).1 hy))
      rw [hf] at h
      have hsub : ∀ y ∈ ret, y ∈ ret' := fun y hy => by rw [hext]; exact List.mem_append_left _ hy
      refine ih next' seen' ret' out h1 h2 h3 h4 ?_ ?_ ?_ h
      · intro y hy z hz
        rcases h8 y hy with hyr | hnew
        · rcases hclos y hyr z hz with hz' | hz'
          · exact Or.inl (hsub z hz')
          · exact Or.inl (h6 z ((mem_sortNat' z level).2 hz'))
        · exact Or.inr (hnew z hz)
      · right
        rcases hhead with ⟨hr, hl⟩ | hh
        · subst hr
          rw [List.nil_append] at hext
          subst hext
          have hxr : x ∈ ret' := h6 x ((mem_sortNat' x level).2 (by rw [hl]; exact List.mem_singleton.mpr rfl))
          cases ret' with
          | nil => cases hxr
          | cons a t =>
            have : a ∈ level := (mem_sortNat' a level).1 (hextm a List.mem_cons_self)
            rw [hl, List.mem_singleton] at this
            rw [this]; rfl
        · cases ret with
          | nil => cases hh
          | cons a t =>
            rw [hext]
            exact hh
      · rcases h9 with ⟨_, hn⟩ | hlt
        · left; rw [hn]; intro y hy; cases hy
        · right
          rcases hfuel with hdone | hf'
          · exfalso
            cases ext with
            | nil => rw [hext, List.append_nil] at hlt; omega
            | cons a t =>
              have ha : a ∈ ret := hdone a ((mem_sortNat' a level).1 (hextm a List.mem_cons_self))
              rw [hext, List.nodup_append] at h1
              exact h1.2.2 a ha a List.mem_cons_self rfl
          · omega

/-- **the ordered search (the code since the F24 repair: `this_level.sort()`) is correct on every graph** - start node first, every
    reachable node exactly once - and, being a function of the store and the start node alone, returns the same list on every call.  `nb` is the neighbour function `get_successors_or_neighbors` computes (C02 relates it
    to the edge list); `names` are the node names. -/
theorem C10_bfs_ordered_correct (s : Store) (nb : Nat → List Nat) (x : Nat) (out : List Nat)
    (hnd : s.getAllNodeNames.Nodup) (hx : x ∈ s.getAllNodeNames)
    (hnb : ∀ y ∈ s.getAllNodeNames, ∃ l, s.getSuccessorsOrNeighbors y = .ok l ∧
              (∀ z, z ∈ l.map (·.name) ↔ z ∈ nb y) ∧ (∀ z ∈ nb y, z ∈ s.getAllNodeNames))
    (h : s.breadthFirstSearchOrdered x = .ok out) :
    out.head? = some x ∧ out.Nodup ∧ ∀ y, y ∈ out ↔ ReachR nb x y := by
  have _ := hnd  -- not needed: the length bound uses only that the output is duplicate-free
  have hnames : ∀ v, ReachR nb x v → v ∈ s.getAllNodeNames := by
    intro v hv
    induction hv with
    | refl => exact hx
    | step _ hz ih =>
      obtain ⟨_, _, _, h3⟩ := hnb _ ih
      exact h3 _ hz
  have hok : ∀ v, ReachR nb x v → ∃ l, s.getSuccessorsOrNeighbors v = .ok l := by
    intro v hv
    obtain ⟨l, hl, _⟩ := hnb v (hnames v hv)
    exact ⟨l, hl⟩
  have hnbl : ∀ v, ReachR nb x v → ∀ z, z ∈ nblOf s v ↔ z ∈ nb v := by
    intro v hv z
    obtain ⟨l, hl, h2, _⟩ := hnb v (hnames v hv)
    unfold nblOf
    rw [hl]
    exact h2 z
  unfold Store.breadthFirstSearchOrdered at h
  refine bfs_outer_ordered s nb x hok hnbl hnames (s.numNodes + 2) [x] [] [] out List.nodup_nil
    (fun y => Iff.rfl) (by intro y hy; cases hy) ?_ (by intro y hy; cases hy)
    (Or.inl ⟨rfl, rfl⟩) ?_ h
  · intro y hy
    rw [List.mem_singleton] at hy
    subst hy
    exact ReachR.refl _
  · right
    simp only [Store.getAllNodeNames, Store.numNodes, List.length_map, List.length_nil]
    omega

/-- The full statement for `strongly_connected_components` as first written (kept visible). Its content is proved, under the
    coupling invariant, as `C10_model_strong_components` (Props/C10Model.lean), phrased with `ReachR` instead of the Boolean
    checker. -/
def C10_scc_full_statement : Prop :=
  ∀ (s : Store), s.specs.directed = true →
    ∀ comps, s.stronglyConnectedComponents = .ok comps →
      checkPartitionBy s.getAllNodeNames
        (fun p q => (reachSet (fun y => (alookup s.succ y).getD []) s.numNodes p).contains q &&
                    (reachSet (fun y => (alookup s.succ y).getD []) s.numNodes q).contains p) comps = none

/-- non-vacuity of the partition checker -/
example : checkPartitionBy [1, 2, 3] (fun a b => (a == b) || (a != 3 && b != 3)) [[2, 1], [3]] = none := by
  decide

end Graphrs
