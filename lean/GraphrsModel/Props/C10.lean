import GraphrsModel.ObsComp
namespace Graphrs
/-- placeholder while the framework is brought up: replaced by the property theorems -/
theorem C10_reachFix_zero (succ : Nat → List Nat) (l : List Nat) : reachFix succ 0 l = l := rfl
end Graphrs
