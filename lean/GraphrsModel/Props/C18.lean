/-
  C18 — eigenvector centrality returns a unit-norm approximate dominant eigenvector.

  The iteration of src/algorithms/centrality/eigenvector.rs is  x ↦ normalise(x + Aᵀx) = normalise(M x)  with
  M = I + Aᵀ, A the non-negative (weighted or 0/1) adjacency matrix.  It stops with Ok(x_k) only when
  ‖x_k − x_{k−1}‖₁ < n·tol.  Over the reals (IEEE rounding is not modelled) this file proves what C18 states about
  such a vector: non-negative, Euclidean norm 1, and one further step moves it by at most 2·‖M‖_F·n·tol - the
  tolerance-derived bound that the Lean checker `checkEigen` (Spec/Centrality.lean) evaluates on the
  implementation's output on every run.
-/
import Mathlib.Analysis.Real.Sqrt
import Mathlib.Algebra.Order.Chebyshev
import Mathlib.Analysis.InnerProductSpace.Basic
import Mathlib.Analysis.InnerProductSpace.PiL2
import Mathlib.Algebra.Order.BigOperators.Ring.Finset
import Mathlib.Tactic
namespace Graphrs.Eigen

open Finset BigOperators

variable {n : ℕ}

/-- Euclidean norm of a vector given by its components -/
noncomputable def norm2 (x : Fin n → ℝ) : ℝ := Real.sqrt (∑ i, x i ^ 2)
/-- L1 norm -/
def norm1 (x : Fin n → ℝ) : ℝ := ∑ i, |x i|
/-- Frobenius norm of a matrix -/
noncomputable def frob (M : Fin n → Fin n → ℝ) : ℝ := Real.sqrt (∑ i, ∑ j, M i j ^ 2)
def mulVec (M : Fin n → Fin n → ℝ) (x : Fin n → ℝ) : Fin n → ℝ := fun i => ∑ j, M i j * x j
/-- one step of the power iteration: x ↦ M x / ‖M x‖ (as in the code, a zero norm is replaced by 1) -/
noncomputable def step (M : Fin n → Fin n → ℝ) (x : Fin n → ℝ) : Fin n → ℝ :=
  fun i => mulVec M x i / (if norm2 (mulVec M x) = 0 then 1 else norm2 (mulVec M x))

/-- M = I + Aᵀ for a non-negative A: entries ≥ 0, diagonal ≥ 1 -/
def IsIterationMatrix (M : Fin n → Fin n → ℝ) : Prop := (∀ i j, 0 ≤ M i j) ∧ ∀ i, 1 ≤ M i i

/-! ### helper lemmas about `norm2` -/

theorem norm2_nonneg (x : Fin n → ℝ) : 0 ≤ norm2 x := Real.sqrt_nonneg _

theorem frob_nonneg (M : Fin n → Fin n → ℝ) : 0 ≤ frob M := Real.sqrt_nonneg _

/-- `norm2` is the norm of `EuclideanSpace ℝ (Fin n)` -/
theorem norm2_eq_norm (x : Fin n → ℝ) : norm2 x = ‖(WithLp.toLp 2 x : EuclideanSpace ℝ (Fin n))‖ := by
  rw [EuclideanSpace.norm_eq]
  simp [norm2, sq_abs]

theorem norm2_add_le (u v : Fin n → ℝ) : norm2 (fun i => u i + v i) ≤ norm2 u + norm2 v := by
  have h : (fun i => u i + v i) = u + v := rfl
  rw [h, norm2_eq_norm, norm2_eq_norm, norm2_eq_norm, WithLp.toLp_add]
  exact norm_add_le _ _

theorem abs_norm2_sub_le (u v : Fin n → ℝ) : |norm2 u - norm2 v| ≤ norm2 (fun i => u i - v i) := by
  have h : (fun i => u i - v i) = u - v := rfl
  rw [h, norm2_eq_norm, norm2_eq_norm, norm2_eq_norm, WithLp.toLp_sub]
  exact abs_norm_sub_norm_le _ _

theorem norm2_smul (c : ℝ) (v : Fin n → ℝ) : norm2 (fun i => c * v i) = |c| * norm2 v := by
  unfold norm2
  have h : ∑ i, (c * v i) ^ 2 = c ^ 2 * ∑ i, v i ^ 2 := by
    rw [Finset.mul_sum]; exact Finset.sum_congr rfl (fun i _ => by ring)
  rw [h, Real.sqrt_mul (sq_nonneg c), Real.sqrt_sq_eq_abs]

theorem le_mulVec (M : Fin n → Fin n → ℝ) (hM : IsIterationMatrix M) (x : Fin n → ℝ) (hx : ∀ i, 0 ≤ x i) (i : Fin n) :
    x i ≤ mulVec M x i := by
  unfold mulVec
  have h1 : x i ≤ M i i * x i := by nlinarith [hM.2 i, hx i]
  have h2 : M i i * x i ≤ ∑ j, M i j * x j :=
    Finset.single_le_sum (f := fun j => M i j * x j) (fun j _ => mul_nonneg (hM.1 i j) (hx j)) (Finset.mem_univ i)
  linarith

theorem mulVec_nonneg (M : Fin n → Fin n → ℝ) (hM : IsIterationMatrix M) (x : Fin n → ℝ) (hx : ∀ i, 0 ≤ x i) (i : Fin n) :
    0 ≤ mulVec M x i :=
  Finset.sum_nonneg (fun j _ => mul_nonneg (hM.1 i j) (hx j))

/-- entries stay non-negative -/
theorem C18_step_nonneg (M : Fin n → Fin n → ℝ) (hM : IsIterationMatrix M) (x : Fin n → ℝ) (hx : ∀ i, 0 ≤ x i) :
    ∀ i, 0 ≤ step M x i := by
  intro i
  unfold step
  apply div_nonneg (mulVec_nonneg M hM x hx i)
  split
  · exact zero_le_one
  · exact norm2_nonneg _

/-- for a non-negative vector, M x dominates x componentwise, hence in norm -/
theorem C18_norm_nondecreasing (M : Fin n → Fin n → ℝ) (hM : IsIterationMatrix M) (x : Fin n → ℝ) (hx : ∀ i, 0 ≤ x i) :
    norm2 x ≤ norm2 (mulVec M x) := by
  unfold norm2
  apply Real.sqrt_le_sqrt
  apply Finset.sum_le_sum
  intro i _
  exact pow_le_pow_left₀ (hx i) (le_mulVec M hM x hx i) 2

theorem step_eq (M : Fin n → Fin n → ℝ) (hM : IsIterationMatrix M) (x : Fin n → ℝ) (hx : ∀ i, 0 ≤ x i)
    (hx0 : 0 < norm2 x) : step M x = fun i => (1 / norm2 (mulVec M x)) * mulVec M x i := by
  have hb : 0 < norm2 (mulVec M x) := lt_of_lt_of_le hx0 (C18_norm_nondecreasing M hM x hx)
  funext i
  unfold step
  rw [if_neg hb.ne']
  ring

/-- **unit norm**: the result of a step from a non-negative non-zero vector has Euclidean norm 1 -/
theorem C18_step_unit_norm (M : Fin n → Fin n → ℝ) (hM : IsIterationMatrix M) (x : Fin n → ℝ) (hx : ∀ i, 0 ≤ x i)
    (hx0 : 0 < norm2 x) : norm2 (step M x) = 1 := by
  have hb : 0 < norm2 (mulVec M x) := lt_of_lt_of_le hx0 (C18_norm_nondecreasing M hM x hx)
  rw [step_eq M hM x hx hx0, norm2_smul, abs_of_pos (by positivity)]
  field_simp

/-- ‖M v‖ ≤ ‖M‖_F ‖v‖ (Cauchy-Schwarz) -/
theorem C18_frob_bound (M : Fin n → Fin n → ℝ) (v : Fin n → ℝ) : norm2 (mulVec M v) ≤ frob M * norm2 v := by
  unfold norm2 frob mulVec
  rw [← Real.sqrt_mul (Finset.sum_nonneg (fun i _ => Finset.sum_nonneg (fun j _ => sq_nonneg _)))]
  apply Real.sqrt_le_sqrt
  rw [Finset.sum_mul]
  apply Finset.sum_le_sum
  intro i _
  exact Finset.sum_mul_sq_le_sq_mul_sq Finset.univ (fun j => M i j) v

/-- the L2 norm is at most the L1 norm -/
theorem C18_norm2_le_norm1 (v : Fin n → ℝ) : norm2 v ≤ norm1 v := by
  unfold norm2 norm1
  rw [Real.sqrt_le_iff]
  refine ⟨Finset.sum_nonneg (fun i _ => abs_nonneg _), ?_⟩
  rw [sq, Finset.sum_mul]
  apply Finset.sum_le_sum
  intro i _
  rw [← sq_abs, sq]
  apply mul_le_mul_of_nonneg_left _ (abs_nonneg _)
  exact Finset.single_le_sum (f := fun j => |v j|) (fun j _ => abs_nonneg _) (Finset.mem_univ i)

theorem mulVec_sub (M : Fin n → Fin n → ℝ) (y x : Fin n → ℝ) :
    (fun i => mulVec M y i - mulVec M x i) = mulVec M (fun j => y j - x j) := by
  funext i
  unfold mulVec
  rw [← Finset.sum_sub_distrib]
  exact Finset.sum_congr rfl (fun j _ => by ring)

/-- ‖a/‖a‖ − b/‖b‖‖ ≤ 2‖a − b‖/‖a‖ -/
theorem normalise_sub_le (a b : Fin n → ℝ) (ha : 0 < norm2 a) (hb : 0 < norm2 b) :
    norm2 (fun i => (1 / norm2 a) * a i - (1 / norm2 b) * b i)
      ≤ 2 * norm2 (fun i => a i - b i) / norm2 a := by
  have hsplit : (fun i => (1 / norm2 a) * a i - (1 / norm2 b) * b i)
      = fun i => (1 / norm2 a) * (a i - b i) + (1 / norm2 a - 1 / norm2 b) * b i := by
    funext i; ring
  rw [hsplit]
  refine le_trans (norm2_add_le _ _) ?_
  rw [norm2_smul, norm2_smul, abs_of_pos (by positivity : 0 < 1 / norm2 a)]
  have h1 : |1 / norm2 a - 1 / norm2 b| * norm2 b = |norm2 b - norm2 a| / norm2 a := by
    have : 1 / norm2 a - 1 / norm2 b = (norm2 b - norm2 a) / (norm2 a * norm2 b) := by
      field_simp
    rw [this, abs_div, abs_of_pos (mul_pos ha hb)]
    field_simp
  rw [h1]
  have h2 : |norm2 b - norm2 a| ≤ norm2 (fun i => a i - b i) := by
    rw [abs_sub_comm]; exact abs_norm2_sub_le a b
  have h3 : |norm2 b - norm2 a| / norm2 a ≤ norm2 (fun i => a i - b i) / norm2 a :=
    div_le_div_of_nonneg_right h2 ha.le
  have h4 : 1 / norm2 a * norm2 (fun i => a i - b i) = norm2 (fun i => a i - b i) / norm2 a := by ring
  rw [h4]
  have h5 : 2 * norm2 (fun i => a i - b i) / norm2 a
      = norm2 (fun i => a i - b i) / norm2 a + norm2 (fun i => a i - b i) / norm2 a := by ring
  rw [h5]
  linarith

/-- **the tolerance-derived bound**: if y = step M x was accepted because ‖y − x‖₁ < n·tol (x, y non-negative, x non-zero),
    then one further step moves y by less than 2·‖M‖_F·n·tol in the Euclidean norm -/
theorem C18_next_step_bound (M : Fin n → Fin n → ℝ) (hM : IsIterationMatrix M) (x : Fin n → ℝ) (hx : ∀ i, 0 ≤ x i)
    (hx0 : 0 < norm2 x) (tol : ℝ) (hconv : norm1 (fun i => step M x i - x i) < n * tol) :
    norm2 (fun i => step M (step M x) i - step M x i) ≤ 2 * frob M * (n * tol) := by
  have hy : ∀ i, 0 ≤ step M x i := C18_step_nonneg M hM x hx
  have hy1 : norm2 (step M x) = 1 := C18_step_unit_norm M hM x hx hx0
  have hy0 : 0 < norm2 (step M x) := by rw [hy1]; exact one_pos
  have hb : 0 < norm2 (mulVec M x) := lt_of_lt_of_le hx0 (C18_norm_nondecreasing M hM x hx)
  have ha1 : 1 ≤ norm2 (mulVec M (step M x)) := by
    have := C18_norm_nondecreasing M hM (step M x) hy
    rwa [hy1] at this
  have ha : 0 < norm2 (mulVec M (step M x)) := lt_of_lt_of_le one_pos ha1
  -- T(y) − y = a/‖a‖ − b/‖b‖
  have hTy : step M (step M x) = fun i => (1 / norm2 (mulVec M (step M x))) * mulVec M (step M x) i :=
    step_eq M hM (step M x) hy hy0
  have hyb : ∀ i, step M x i = (1 / norm2 (mulVec M x)) * mulVec M x i := fun i =>
    congrFun (step_eq M hM x hx hx0) i
  have hrew : (fun i => step M (step M x) i - step M x i)
      = fun i => (1 / norm2 (mulVec M (step M x))) * mulVec M (step M x) i
          - (1 / norm2 (mulVec M x)) * mulVec M x i := by
    funext i
    rw [← hyb i, hTy]
  rw [hrew]
  refine le_trans (normalise_sub_le _ _ ha hb) ?_
  have hd : norm2 (fun i => mulVec M (step M x) i - mulVec M x i) ≤ frob M * (n * tol) := by
    rw [mulVec_sub]
    refine le_trans (C18_frob_bound M _) ?_
    apply mul_le_mul_of_nonneg_left _ (frob_nonneg M)
    exact le_trans (C18_norm2_le_norm1 _) hconv.le
  have hdn : 0 ≤ norm2 (fun i => mulVec M (step M x) i - mulVec M x i) := norm2_nonneg _
  calc 2 * norm2 (fun i => mulVec M (step M x) i - mulVec M x i) / norm2 (mulVec M (step M x))
      ≤ 2 * norm2 (fun i => mulVec M (step M x) i - mulVec M x i) / 1 :=
        div_le_div_of_nonneg_left (by positivity) one_pos ha1
    _ ≤ 2 * frob M * (n * tol) := by rw [div_one]; linarith

end Graphrs.Eigen
