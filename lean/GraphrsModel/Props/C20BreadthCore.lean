/-
  C20 breadth, part 1: components, breadth-first search, derived graphs, generators, GraphML reader, sizes / density /
  remaining degree maps, closeness (both modes), mutations.  Every theorem has the form
  `s.wf = true → (model call).isPanic = false`, for every argument (absent names, wrong graph kind, ...), except
  `breadth_first_search`, which has no error channel in the crate (`-> Vec<T>`): names that exist.
-/
import GraphrsModel.Props.C20BreadthBase
import GraphrsModel.Props.C20Model
import GraphrsModel.Props.C16Store
import GraphrsModel.Lemmas.C10Comp
import GraphrsModel.Model.GraphML
import GraphrsModel.ObsGen
namespace Graphrs
open C20B

/-! ## guards (`ensure.rs`) and `get_node_index` : no panic site at all -/

theorem C20_model_ensure_no_panic (s : Store) :
    s.ensureDirected.isPanic = false ∧ s.ensureUndirected.isPanic = false ∧ s.ensureNotMulti.isPanic = false ∧
    s.ensureWeighted.isPanic = false := by
  refine ⟨?_, ?_, ?_, ?_⟩
  · unfold Store.ensureDirected; split <;> rfl
  · unfold Store.ensureUndirected; split <;> rfl
  · unfold Store.ensureNotMulti; split <;> rfl
  · unfold Store.ensureWeighted; split <;> rfl

theorem C20_model_getNodeIndex_no_panic (s : Store) (x : Nat) : (s.getNodeIndex x).isPanic = false := by
  unfold Store.getNodeIndex; split <;> rfl

/-! ## breadth-first search and components -/

private theorem gson (s : Store) (h : s.wf = true) :
    ∀ v ∈ s.getAllNodeNames, ∃ l, s.getSuccessorsOrNeighbors v = .ok l ∧ ∀ z ∈ l.map (·.name), z ∈ s.getAllNodeNames :=
  fun v hv => succOrNbrs s h v hv

/-- `breadth_first_search` (no error channel in the crate): a value for every name that exists -/
theorem C20_model_bfs_no_panic (s : Store) (h : s.wf = true) (x : Nat) (hx : s.hasNode x = true) :
    (s.breadthFirstSearch x).isPanic = false :=
  np_of_ok (C10M.bfs_total s (gson s h) x ((hasNode_iff s h x).1 hx))

/-- `connected_components`: WrongMethod on a directed graph, a value otherwise -/
theorem C20_model_connected_components_no_panic (s : Store) (h : s.wf = true) :
    s.connectedComponents.isPanic = false := by
  cases hd : s.specs.directed
  · exact np_of_eq_ok (C10M.connectedComponents_eq s hd (fun v hv => C10M.bfs_total s (gson s h) v hv))
  · exact np_of_eq_err ((C20_wrong_kind_channel s 0 []).2.1 hd).1

theorem C20_model_number_of_connected_components_no_panic (s : Store) (h : s.wf = true) :
    s.numberOfConnectedComponents.isPanic = false := by
  unfold Store.numberOfConnectedComponents
  exact np_bind (C20_model_connected_components_no_panic s h) (fun _ _ => rfl)

/-- `node_connected_component`: WrongMethod on a directed graph, NodeNotFound for an absent name, a value otherwise -/
theorem C20_model_node_connected_component_no_panic (s : Store) (h : s.wf = true) (x : Nat) :
    (s.nodeConnectedComponent x).isPanic = false := by
  unfold Store.nodeConnectedComponent
  refine np_bind (C20_model_ensure_no_panic s).2.1 (fun _ _ => ?_)
  cases hx : s.hasNode x
  · rfl
  · simp only [Bool.not_true, Bool.false_eq_true, if_false]
    exact np_bind (C20_model_bfs_no_panic s h x hx) (fun _ _ => rfl)

/-- `weakly_connected_components`: WrongMethod on an undirected graph, a value otherwise -/
theorem C20_model_weak_components_no_panic (s : Store) (h : s.wf = true) :
    s.weaklyConnectedComponents.isPanic = false := by
  have _ := h
  cases hd : s.specs.directed
  · exact np_of_eq_err ((C20_wrong_kind_channel s 0 []).1 hd).2.2.2.2.2.2.2.2.2.1
  · exact np_of_eq_ok (C10M.weaklyConnectedComponents_eq s hd)

/-! ## derived graphs: a value (which is again well-formed, hence usable) or WrongMethod -/

theorem C20_model_subgraph_no_panic (s : Store) (h : s.wf = true) (names : List Nat) :
    (s.getSubgraph names).isPanic = false ∧ ∀ t, s.getSubgraph names = .ok t → t.wf = true := by
  obtain ⟨t, h1, h2, _⟩ := Core_subgraph s h names
  exact ⟨np_of_eq_ok h1, fun t' ht' => by rw [h1] at ht'; cases ht'; exact h2⟩

theorem C20_model_reverse_no_panic (s : Store) (h : s.wf = true) :
    s.reverse.isPanic = false ∧ ∀ t, s.reverse = .ok t → t.wf = true := by
  cases hd : s.specs.directed
  · have e := (C15_wrong_kind s).1 hd
    exact ⟨np_of_eq_err e, fun t ht => by rw [e] at ht; cases ht⟩
  · obtain ⟨t, h1, h2, _⟩ := Core_reverse s h hd
    exact ⟨np_of_eq_ok h1, fun t' ht' => by rw [h1] at ht'; cases ht'; exact h2⟩

theorem C20_model_set_all_edge_weights_no_panic (s : Store) (h : s.wf = true) (w : W) :
    (s.setAllEdgeWeights w).isPanic = false ∧ ∀ t, s.setAllEdgeWeights w = .ok t → t.wf = true := by
  obtain ⟨t, h1, h2, _⟩ := Core_setWeights s h w
  exact ⟨np_of_eq_ok h1, fun t' ht' => by rw [h1] at ht'; cases ht'; exact h2⟩

theorem C20_model_to_single_edges_no_panic (s : Store) (h : s.wf = true) :
    s.toSingleEdges.isPanic = false ∧ ∀ t, s.toSingleEdges = .ok t → t.wf = true := by
  cases hm : s.specs.multi
  · have e := (C15_wrong_kind s).2 hm
    exact ⟨np_of_eq_err e, fun t ht => by rw [e] at ht; cases ht⟩
  · obtain ⟨t, h1, h2, _⟩ := Core_toSingle s h hm
    exact ⟨np_of_eq_ok h1, fun t' ht' => by rw [h1] at ht'; cases ht'; exact h2⟩

/-! ## construction: `new_from_nodes_and_edges` has no panic site; the mutations never set the `poisoned` flag -/

theorem C20_model_new_from_no_panic (sp : Specs) (ns : List Node) (es : List Edge) :
    (Store.newFrom sp ns es).isPanic = false := by
  unfold Store.newFrom
  split <;> rfl

/-- inside mutations the panic sites are the `poisoned` flag: never set by any call on a well-formed store -/
theorem C20_model_mutations_no_panic (s : Store) (h : s.wf = true) (op : Op) :
    (s.step op).1.poisoned = none ∧ (s.step op).1.wf = true := by
  have hw := Core_step_wf s op h
  refine ⟨?_, hw⟩
  have hp := (NP.wf_parts' hw).1.not_poisoned
  simpa using hp

/-! ## generators -/

/-- `complete_graph(n, directed)`: the `unwrap` of `new_from_nodes_and_edges` is never reached -/
theorem C20_model_complete_graph_no_panic (n : Nat) (directed : Bool) :
    (completeGraph n directed).isPanic = false ∧ ∀ t, completeGraph n directed = .ok t → t.wf = true := by
  obtain ⟨t, h1, h2, _⟩ := newFrom_sim Core_rest_preserved (completeSpecs directed)
    ((List.range n).map fun i => (⟨i, none⟩ : Node))
    ((if directed then perms2 n else combos2 n).map fun p => Edge.tuple p.1 p.2) _ (C16_complete_abs n directed)
  have e : completeGraph n directed = .ok t := by
    unfold completeGraph
    rw [h1]; rfl
  exact ⟨np_of_eq_ok e, fun t' ht' => by rw [e] at ht'; cases ht'; exact h2⟩

/-- `fast_gnp_random_graph`: for EVERY `n` and EVERY skip sequence (negative skips included) no panic site exists -/
theorem C20_model_fast_gnp_no_panic (n : Int) (directed : Bool) (skips : List Int) :
    (fastGnp n directed skips).isPanic = false := by
  unfold fastGnp
  generalize (if directed = true then gnpDirected n (skips.length + 1) skips 0 (-1) []
    else gnpUndirected n (skips.length + 1) skips 1 (-1) []) = edges
  cases edges with
  | none => rfl
  | some es =>
    simp only
    split <;> rfl

/-- `karate_club_graph` over the table regenerated from the source: `new_from_nodes_and_edges`, no panic site -/
theorem C20_model_karate_no_panic : karateGraph.isPanic = false :=
  C20_model_new_from_no_panic _ _ _

/-! ## GraphML reader (on the event list) -/

theorem C20_model_read_graphml_no_panic (sp : Specs) (evs : List Xml.Event) :
    (Xml.readEvents sp evs).isPanic = false := by
  unfold Xml.readEvents
  split
  · rfl
  · exact C20_model_new_from_no_panic _ _ _

/-! ## the remaining degree maps -/

private theorem mem_names_of_mem' {s : Store} {n : Node} (h : n ∈ s.nodesVec) : n.name ∈ s.names :=
  List.mem_map.mpr ⟨n, h, rfl⟩

theorem C20_model_weighted_in_out_degree_maps_no_panic (s : Store) (h : s.wf = true) :
    s.getWeightedInDegreeForAllNodes.isPanic = false ∧ s.getWeightedOutDegreeForAllNodes.isPanic = false := by
  obtain ⟨hn, he, hadj, hvec⟩ := NP.wf_parts' h
  constructor
  · unfold Store.getWeightedInDegreeForAllNodes
    split
    · rfl
    · rename_i hd
      simp only [Bool.not_eq_true', Bool.not_eq_false] at hd
      refine np_of_ok (NP.forAllNodes_ok s _ s.getNodeWeightedInDegree ?_)
      intro n hnm
      obtain ⟨l, hl⟩ := NP.getInEdgesForNode_ok hn he hadj (mem_names_of_mem' hnm) hd
      simp [Store.getNodeWeightedInDegree, hl]
  · unfold Store.getWeightedOutDegreeForAllNodes
    split
    · rfl
    · rename_i hd
      simp only [Bool.not_eq_true', Bool.not_eq_false] at hd
      refine np_of_ok (NP.forAllNodes_ok s _ s.getNodeWeightedOutDegree ?_)
      intro n hnm
      obtain ⟨l, hl⟩ := NP.getOutEdgesForNode_ok hn he hadj (mem_names_of_mem' hnm) hd
      simp [Store.getNodeWeightedOutDegree, hl]

/-! ## closeness, both modes -/

/-- `closeness_centrality`, hop-count and weighted mode: the `reverse().unwrap()` and `get_node_by_index().unwrap()`
    sites are never reached (generalises `C06_closeness_unweighted_ok` / `C20_model_closeness_no_panic`) -/
theorem C20_model_closeness_any_no_panic (s : Store) (h : s.wf = true) (weighted wfFlag : Bool) :
    (s.closeness weighted wfFlag).isPanic = false := by
  rw [C06C.closeness_eq]
  have hrun : ∀ g : Store, g.wf = true → ∃ m, C06C.closenessOn g weighted wfFlag = .ok m := by
    intro g hg
    refine ⟨_, C06C.fold_ok g.getNodeByIndex
      (fun i => nodeCentrality (C06C.spOf g weighted i) g.numberOfNodes wfFlag) _
      (by intro acc i nd h; simp [bind, Outcome.bind, Outcome.ofOption, h]) (List.range g.numberOfNodes) [] ?_⟩
    intro i hi
    rw [List.mem_range] at hi
    rw [C02_getNodeByIndex g hg i]
    exact ⟨g.nodesVec[i], List.getElem?_eq_getElem hi⟩
  by_cases hd : s.specs.directed = true
  · obtain ⟨t, hrev, ht, _, _⟩ := Core_reverse s h hd
    rw [if_pos hd, hrev]
    exact np_of_ok (hrun t ht)
  · rw [if_neg hd]
    exact np_of_ok (hrun s h)

end Graphrs
