import GraphrsModel.ObsClu
namespace Graphrs
/-- placeholder while the framework is brought up: replaced by the property theorems -/
theorem C11_pairs_nil : Abs.pairs ([] : List Nat) = [] := rfl
end Graphrs
