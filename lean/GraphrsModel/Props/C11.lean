/-
  C11 — clustering, triangle and transitivity values equal their definitions.

  Spec/Cluster.lean holds the definitions the implementation's values are compared with on every run
  (`trianglesAt`, `clusteringAt`, `transitivitySpec`, `generalizedDegreeAt`, `squareAt`, `fagioloAt`, ...).
  Here: the structural facts the property states about them - self-loops never count, every coefficient lies in
  [0, 1] - and the counting identity that ties the code's way of counting (per neighbour, ordered) to the
  definition (per unordered pair of neighbours).
-/
import GraphrsModel.ObsClu
import Mathlib.Algebra.Order.Field.Rat
import Mathlib.Tactic.Linarith
import Mathlib.Tactic.Positivity
import Mathlib.Tactic.NormNum
import Mathlib.Tactic.Ring
namespace Graphrs
open Abs

/-! ### helpers: `sinsert` / `dedup` / `sumNat` -/
namespace C11aux

theorem mem_sinsert {α} [DecidableEq α] (s : List α) (x y : α) :
    y ∈ sinsert s x ↔ y ∈ s ∨ y = x := by
  unfold sinsert
  by_cases h : x ∈ s
  · rw [if_pos h]
    constructor
    · exact Or.inl
    · rintro (h' | rfl)
      · exact h'
      · exact h
  · rw [if_neg h]; simp

theorem nodup_sinsert {α} [DecidableEq α] (s : List α) (x : α) (hs : s.Nodup) :
    (sinsert s x).Nodup := by
  unfold sinsert
  by_cases h : x ∈ s
  · rw [if_pos h]; exact hs
  · rw [if_neg h]
    rw [List.nodup_append]
    refine ⟨hs, by simp, ?_⟩
    intro a ha b hb
    rw [List.mem_singleton] at hb
    subst hb
    intro hab
    subst hab
    exact h ha

theorem mem_foldl_sinsert {α} [DecidableEq α] (l acc : List α) (y : α) :
    y ∈ l.foldl sinsert acc ↔ y ∈ acc ∨ y ∈ l := by
  induction l generalizing acc with
  | nil => simp
  | cons x xs ih =>
    rw [List.foldl_cons, ih, mem_sinsert, List.mem_cons]
    constructor
    · rintro ((h | h) | h)
      · exact Or.inl h
      · exact Or.inr (Or.inl h)
      · exact Or.inr (Or.inr h)
    · rintro (h | h | h)
      · exact Or.inl (Or.inl h)
      · exact Or.inl (Or.inr h)
      · exact Or.inr h

theorem nodup_foldl_sinsert {α} [DecidableEq α] (l acc : List α) (hacc : acc.Nodup) :
    (l.foldl sinsert acc).Nodup := by
  induction l generalizing acc with
  | nil => exact hacc
  | cons x xs ih => exact ih _ (nodup_sinsert acc x hacc)

theorem mem_dedup {α} [DecidableEq α] (l : List α) (y : α) : y ∈ dedup l ↔ y ∈ l := by
  unfold dedup
  rw [mem_foldl_sinsert]
  simp

theorem nodup_dedup {α} [DecidableEq α] (l : List α) : (dedup l).Nodup :=
  nodup_foldl_sinsert l [] List.nodup_nil

theorem foldl_add_eq (l : List Nat) (a : Nat) :
    l.foldl (· + ·) a = a + l.foldl (· + ·) 0 := by
  induction l generalizing a with
  | nil => simp
  | cons x xs ih =>
    rw [List.foldl_cons, List.foldl_cons, ih (a + x), ih (0 + x)]
    omega

theorem sumNat_nil : sumNat [] = 0 := rfl

theorem sumNat_cons (x : Nat) (xs : List Nat) : sumNat (x :: xs) = x + sumNat xs := by
  unfold sumNat
  rw [List.foldl_cons, foldl_add_eq]
  omega

theorem sumNat_map_add {α} (l : List α) (f g : α → Nat) :
    sumNat (l.map fun x => f x + g x) = sumNat (l.map f) + sumNat (l.map g) := by
  induction l with
  | nil => rfl
  | cons x xs ih => simp only [List.map_cons, sumNat_cons, ih]; omega

theorem sumNat_map_le {α} (l : List α) (f g : α → Nat) (h : ∀ x ∈ l, f x ≤ g x) :
    sumNat (l.map f) ≤ sumNat (l.map g) := by
  induction l with
  | nil => exact Nat.le_refl _
  | cons x xs ih =>
    simp only [List.map_cons, sumNat_cons]
    have h1 := h x (List.mem_cons_self)
    have h2 := ih (fun y hy => h y (List.mem_cons_of_mem _ hy))
    omega

theorem sumNat_map_const_one {α} (l : List α) : sumNat (l.map fun _ => 1) = l.length := by
  induction l with
  | nil => rfl
  | cons x xs ih => simp only [List.map_cons, sumNat_cons, ih, List.length_cons]; omega

theorem sumNat_map_id (l : List Nat) : sumNat (l.map fun x => x) = sumNat l := by
  simp

/-! ### the pair-counting lemma -/

theorem two_mul_pairs_length {α} (l : List α) : 2 * (Abs.pairs l).length = l.length * (l.length - 1) := by
  induction l with
  | nil => rfl
  | cons x xs ih =>
    simp only [Abs.pairs, List.length_append, List.length_map, List.length_cons, Nat.add_sub_cancel]
    rw [Nat.mul_add, ih]
    cases h : xs.length with
    | zero => simp
    | succ n => simp only [Nat.add_sub_cancel]; ring

/-- adding `x` in front of the filtered list adds one for every `w` related to `x` -/
theorem sum_filter_cons {α} (r : α → α → Bool) (x : α) (ys xs : List α) :
    sumNat (xs.map fun w => ((x :: ys).filter (r w)).length)
      = (xs.filter fun w => r w x).length + sumNat (xs.map fun w => (ys.filter (r w)).length) := by
  induction xs with
  | nil => rfl
  | cons w ws ih =>
    simp only [List.map_cons, sumNat_cons, ih]
    by_cases h : r w x = true
    · simp [h]; omega
    · simp [h]; omega

theorem count_identity {α} (r : α → α → Bool) (hirr : ∀ x, r x x = false)
    (hsymm : ∀ x y, r x y = r y x) (l : List α) :
    sumNat (l.map fun w => (l.filter (r w)).length)
      = 2 * ((Abs.pairs l).filter fun p => r p.1 p.2).length := by
  induction l with
  | nil => rfl
  | cons x xs ih =>
    rw [List.map_cons, sumNat_cons, sum_filter_cons, ih]
    have h1 : ((x :: xs).filter (r x)).length = (xs.filter (r x)).length := by
      simp [hirr]
    have h2 : (xs.filter fun w => r w x) = xs.filter (r x) := by
      congr 1; funext w; exact hsymm w x
    have h3 : ((xs.map fun y => (x, y)).filter fun p => r p.1 p.2).length = (xs.filter (r x)).length := by
      rw [List.filter_map, List.length_map]; rfl
    simp only [Abs.pairs, List.filter_append, List.length_append, h1, h2, h3]
    omega

/-! ### histogram -/

theorem sum_indicator {d : List Nat} (hd : d.Nodup) (f : Nat → Nat) (y : Nat) (hy : y ∈ d) :
    sumNat (d.map fun k => if y = k then f k else 0) = f y := by
  induction d with
  | nil => cases hy
  | cons k ks ih =>
    rw [List.nodup_cons] at hd
    simp only [List.map_cons, sumNat_cons]
    by_cases h : y = k
    · subst h
      have : sumNat (ks.map fun k => if y = k then f k else 0) = 0 := by
        have hz : (ks.map fun k => if y = k then f k else 0) = ks.map fun _ => 0 := by
          apply List.map_congr_left
          intro k hk
          have : y ≠ k := fun e => hd.1 (e ▸ hk)
          simp [this]
        rw [hz]
        clear ih hy hd hz
        induction ks with
        | nil => rfl
        | cons a as ih => simp only [List.map_cons, sumNat_cons, ih]
      simp [this]
    · have hy' : y ∈ ks := by
        rcases List.mem_cons.mp hy with h' | h'
        · exact absurd h' h
        · exact h'
      simp [h, ih hd.2 hy']

theorem histogram {d : List Nat} (hd : d.Nodup) (f : Nat → Nat) (c : List Nat) (hc : ∀ x ∈ c, x ∈ d) :
    sumNat (d.map fun k => f k * (c.filter (· == k)).length) = sumNat (c.map f) := by
  induction c with
  | nil =>
    simp only [List.filter_nil, List.length_nil, Nat.mul_zero, List.map_nil]
    clear hc hd
    induction d with
    | nil => rfl
    | cons a as ih => simp only [List.map_cons, sumNat_cons, ih]; omega
  | cons y ys ih =>
    have hy : y ∈ d := hc y List.mem_cons_self
    have ih' := ih (fun x hx => hc x (List.mem_cons_of_mem _ hx))
    have hfun : (fun k => f k * ((y :: ys).filter (· == k)).length)
        = fun k => (if y = k then f k else 0) + f k * (ys.filter (· == k)).length := by
      funext k
      by_cases h : y = k
      · simp [h, Nat.mul_add]; omega
      · simp [h]
    rw [hfun, sumNat_map_add, ih', sum_indicator hd f y hy, List.map_cons, sumNat_cons]

end C11aux
open C11aux

/-! ### neighbourhoods -/

theorem C11_mem_bothOf (a : Abs) (u v : Nat) :
    u ∈ a.bothOf v ↔ (∃ e ∈ a.edges, e.u = v ∧ e.v = u) ∨ (∃ e ∈ a.edges, e.v = v ∧ e.u = u) := by
  simp [Abs.bothOf, Abs.succOf, Abs.predOf, mem_dedup, List.mem_append, List.mem_map, List.mem_filter, and_assoc]

theorem C11_mem_N (a : Abs) (u v : Nat) : u ∈ a.N v ↔ u ∈ a.bothOf v ∧ u ≠ v := by
  simp [Abs.N, List.mem_filter]

/-- self-loops never count: a node is never its own neighbour -/
theorem C11_N_irrefl (a : Abs) (v : Nat) : v ∉ a.N v := by
  rw [C11_mem_N]; simp

theorem C11_N_nodup (a : Abs) (v : Nat) : (a.N v).Nodup := by
  unfold Abs.N Abs.bothOf
  exact (nodup_dedup _).filter _

/-- neighbourhood is symmetric (edges are read in both directions) -/
theorem C11_N_symm (a : Abs) (u v : Nat) : u ∈ a.N v ↔ v ∈ a.N u := by
  rw [C11_mem_N, C11_mem_N, C11_mem_bothOf, C11_mem_bothOf]
  constructor
  · rintro ⟨h | h, hne⟩
    · obtain ⟨e, he, h1, h2⟩ := h
      exact ⟨Or.inr ⟨e, he, h2, h1⟩, fun h => hne h.symm⟩
    · obtain ⟨e, he, h1, h2⟩ := h
      exact ⟨Or.inl ⟨e, he, h2, h1⟩, fun h => hne h.symm⟩
  · rintro ⟨h | h, hne⟩
    · obtain ⟨e, he, h1, h2⟩ := h
      exact ⟨Or.inr ⟨e, he, h2, h1⟩, fun h => hne h.symm⟩
    · obtain ⟨e, he, h1, h2⟩ := h
      exact ⟨Or.inl ⟨e, he, h2, h1⟩, fun h => hne h.symm⟩

theorem C11_adjacent_irrefl (a : Abs) (w : Nat) : a.adjacent w w = false := by
  simp [Abs.adjacent]

theorem C11_adjacent_symm (a : Abs) (u w : Nat) : a.adjacent u w = a.adjacent w u := by
  rw [Bool.eq_iff_iff]
  simp only [Abs.adjacent, Bool.and_eq_true, bne_iff_ne, List.contains_iff_mem, ne_eq]
  rw [C11_N_symm a w u]
  constructor
  · rintro ⟨h1, h2⟩; exact ⟨fun h => h1 h.symm, h2⟩
  · rintro ⟨h1, h2⟩; exact ⟨fun h => h1 h.symm, h2⟩

theorem C11_pairs_length {α} (l : List α) : (Abs.pairs l).length = l.length * (l.length - 1) / 2 := by
  rw [← two_mul_pairs_length]; omega

/-- the number of triangles through v is at most the number of neighbour pairs -/
theorem C11_triangles_le_pairs (a : Abs) (v : Nat) :
    a.trianglesAt v ≤ (a.N v).length * ((a.N v).length - 1) / 2 := by
  rw [← C11_pairs_length]
  exact List.length_filter_le _ _

private theorem unit_of_le (t p : Nat) (h : t ≤ p) : 0 ≤ (t : Rat) / (p : Rat) ∧ (t : Rat) / (p : Rat) ≤ 1 := by
  have h0 : (0 : Rat) ≤ (t : Rat) := Nat.cast_nonneg t
  have hp : (0 : Rat) ≤ (p : Rat) := Nat.cast_nonneg p
  have hle : (t : Rat) ≤ (p : Rat) := Nat.cast_le.mpr h
  exact ⟨div_nonneg h0 hp, div_le_one_of_le₀ hle hp⟩

/-- **every clustering coefficient lies in [0, 1]** -/
theorem C11_clustering_unit_interval (a : Abs) (v : Nat) : 0 ≤ a.clusteringAt v ∧ a.clusteringAt v ≤ 1 := by
  unfold Abs.clusteringAt
  simp only
  split
  · exact ⟨le_refl _, zero_le_one⟩
  · exact unit_of_le _ _ (C11_triangles_le_pairs a v)

/-- **the code's count equals the definition**: summing, over the neighbours w of v, the number of neighbours of v adjacent to w
    counts every triangle through v twice (once per orientation) -/
theorem C11_triangle_count_identity (a : Abs) (v : Nat) :
    sumNat ((a.N v).map fun w => ((a.N v).filter fun k => a.adjacent w k).length) = 2 * a.trianglesAt v := by
  unfold Abs.trianglesAt
  exact count_identity (fun w k => a.adjacent w k) (C11_adjacent_irrefl a) (C11_adjacent_symm a) (a.N v)

/-- the generalized degree histogram accounts for every edge at v, and its weighted sum is twice the triangle count -/
theorem C11_generalized_degree_sums (a : Abs) (v : Nat) :
    sumNat ((a.generalizedDegreeAt v).map (·.2)) = (a.N v).length ∧
    sumNat ((a.generalizedDegreeAt v).map fun kv => kv.1 * kv.2) = 2 * a.trianglesAt v := by
  rw [← C11_triangle_count_identity]
  unfold Abs.generalizedDegreeAt
  simp only [List.map_map]
  generalize hc : ((a.N v).map fun w => ((a.N v).filter fun k => a.adjacent w k).length) = c
  have hmem : ∀ x ∈ c, x ∈ dedup c := fun x hx => (mem_dedup c x).mpr hx
  constructor
  · have h := histogram (nodup_dedup c) (fun _ => 1) c hmem
    rw [sumNat_map_const_one] at h
    have hlen : c.length = (a.N v).length := by rw [← hc, List.length_map]
    rw [← hlen, ← h]
    congr 1
    apply List.map_congr_left
    intro k _
    simp
  · have h := histogram (nodup_dedup c) (fun k => k) c hmem
    rw [sumNat_map_id] at h
    rw [← h]
    rfl

/-- transitivity lies in [0, 1] -/
theorem C11_transitivity_unit_interval (a : Abs) : 0 ≤ a.transitivitySpec ∧ a.transitivitySpec ≤ 1 := by
  unfold Abs.transitivitySpec
  simp only
  split
  · exact ⟨le_refl _, zero_le_one⟩
  · exact unit_of_le _ _ (sumNat_map_le _ _ _ (fun v _ => C11_triangles_le_pairs a v))

/-- non-vacuity: a triangle with a pendant node and a self-loop -/
example :
    let a : Abs := { nodes := [⟨1, none⟩, ⟨2, none⟩, ⟨3, none⟩, ⟨4, none⟩],
                     edges := [⟨1, 2, none, none⟩, ⟨2, 3, none, none⟩, ⟨1, 3, none, none⟩, ⟨3, 4, none, none⟩, ⟨3, 3, none, none⟩] }
    a.trianglesAt 3 = 1 ∧ a.clusteringAt 3 = 1 / 3 ∧ a.trianglesAt 4 = 0 := by
  intro a
  have hT : a.trianglesAt 3 = 1 := by decide
  have hN : (a.N 3).length = 3 := by decide
  refine ⟨hT, ?_, by decide⟩
  unfold Abs.clusteringAt
  simp only [hT, hN]
  norm_num

end Graphrs
