/-
  C08 — shortest-path options restrict the answer but never change it.

  Every answer - whatever the target / cutoff / first_only / with_paths combination, and whichever of
  single_source / multi_source / all_pairs produced it - is run through the same checker
  (`checkSingleSource`, proved sound in Props/C04.lean).  Because shortest distances are unique, two accepted
  answers for the same source agree wherever both report a node; the remaining clauses of C08 are facts about
  walks: symmetry on undirected graphs and the triangle inequality.
-/
import GraphrsModel.Props.C04
import GraphrsModel.ObsSP
namespace Graphrs

/-- shortest distances are unique -/
theorem C08_isDist_unique (arcs : Arcs) (s t : Nat) (d d' : Int) (h : IsDist arcs s t d) (h' : IsDist arcs s t d') : d = d' := by
  have h1 := h.2 d' h'.1
  have h2 := h'.2 d h.1
  omega

/-- **a restricted answer is a restriction of the unrestricted one**: if an answer to a query with options (target, cutoff, first_only,
    with_paths) and the answer to the plain query from the same source are both accepted, every node the restricted answer reports
    is reported by the plain answer with the same distance -/
theorem C08_restricted_agrees (nodes : List Nat) (arcs : Arcs) (q q0 : SPQuery)
    (ans ans0 : List (Nat × Int × List (List Nat)))
    (hsrc : q.source = q0.source) (h0t : q0.target = none) (h0c : q0.cutoff2 = none)
    (h : checkSingleSource nodes arcs q ans = none) (h0 : checkSingleSource nodes arcs q0 ans0 = none) :
    ∀ r ∈ ans, ∃ r0 ∈ ans0, r0.1 = r.1 ∧ r0.2.1 = r.2.1 := by
  intro r hr
  have hs := (C04_check_sound_dist nodes arcs q ans h).1 r hr
  have hs0 := C04_check_sound_dist nodes arcs q0 ans0 h0
  have hd : IsDist arcs q0.source r.1 r.2.1 := hsrc ▸ hs.1
  have hm := hs0.2.1 h0t r.1 r.2.1 hd (by rw [h0c]; trivial)
  rw [List.mem_map] at hm
  obtain ⟨r0, hr0, e⟩ := hm
  refine ⟨r0, hr0, e, ?_⟩
  have hd0 := (hs0.1 r0 hr0).1
  rw [e] at hd0
  exact C08_isDist_unique arcs _ _ _ _ hd0 hd

/-- with a cutoff and no target, exactly the nodes at distance ≤ cutoff are reported -/
theorem C08_cutoff_exact (nodes : List Nat) (arcs : Arcs) (q : SPQuery) (c : Int)
    (ans : List (Nat × Int × List (List Nat)))
    (ht : q.target = none) (hc : q.cutoff2 = some c) (h : checkSingleSource nodes arcs q ans = none) (t : Nat) :
    t ∈ ans.map (·.1) ↔ ∃ x, IsDist arcs q.source t x ∧ 2 * x ≤ c := by
  have hs := C04_check_sound_dist nodes arcs q ans h
  constructor
  · intro hm
    rw [List.mem_map] at hm
    obtain ⟨r, hr, e⟩ := hm
    have := hs.1 r hr
    rw [hc] at this
    subst e
    exact ⟨r.2.1, this.1, this.2⟩
  · rintro ⟨x, hd, hx⟩
    exact hs.2.1 ht t x hd (by rw [hc]; exact hx)

/-- walks compose -/
theorem C08_walk_trans (arcs : Arcs) (s t u : Nat) (a b : Int) (h1 : Walk arcs s t a) (h2 : Walk arcs t u b) :
    Walk arcs s u (a + b) := by
  induction h2 with
  | nil => simpa using h1
  | snoc hw ha ih =>
    rename_i u v c w
    have := Walk.snoc ih ha
    have e : a + (c + w) = a + c + w := by omega
    rw [e]; exact this

/-- **triangle inequality** for shortest distances -/
theorem C08_triangle (arcs : Arcs) (s t u : Nat) (a b c : Int)
    (h1 : IsDist arcs s t a) (h2 : IsDist arcs t u b) (h3 : IsDist arcs s u c) : c ≤ a + b := by
  exact h3.2 _ (C08_walk_trans arcs s t u a b h1.1 h2.1)

/-- arcs of an undirected graph come in both directions -/
def SymmetricArcs (arcs : Arcs) : Prop := ∀ u v c, (u, v, c) ∈ arcs → (v, u, c) ∈ arcs

theorem C08_walk_reverse (arcs : Arcs) (hsym : SymmetricArcs arcs) (s t : Nat) (c : Int) (h : Walk arcs s t c) :
    Walk arcs t s c := by
  induction h with
  | nil => exact Walk.nil _
  | snoc hw ha ih => exact Walk.cons' (hsym _ _ _ ha) ih

/-- **on undirected graphs distances are symmetric** -/
theorem C08_symmetric (arcs : Arcs) (hsym : SymmetricArcs arcs) (s t : Nat) (d : Int) :
    IsDist arcs s t d ↔ IsDist arcs t s d := by
  constructor
  · intro h
    exact ⟨C08_walk_reverse arcs hsym _ _ _ h.1, fun c hw => h.2 c (C08_walk_reverse arcs hsym _ _ _ hw)⟩
  · intro h
    exact ⟨C08_walk_reverse arcs hsym _ _ _ h.1, fun c hw => h.2 c (C08_walk_reverse arcs hsym _ _ _ hw)⟩

/-- the arcs read off an undirected abstract graph are symmetric -/
theorem C08_undirected_arcs_symmetric (a : Abs) (weighted : Bool) : SymmetricArcs (a.arcs false weighted) := by
  intro u v c h
  unfold Abs.arcs at h ⊢
  rw [List.mem_flatMap] at h ⊢
  obtain ⟨e, he, hm⟩ := h
  refine ⟨e, he, ?_⟩
  cases hw : (if weighted = true then e.w else some 1) with
  | none => simp [hw] at hm
  | some c' =>
    simp only [hw, Bool.false_eq_true, if_false, List.mem_cons, Prod.mk.injEq, List.not_mem_nil, or_false] at hm ⊢
    rcases hm with ⟨a, b, d⟩ | ⟨a, b, d⟩
    · right; exact ⟨b, a, d⟩
    · left; exact ⟨b, a, d⟩

/-- `contains_path_through_node`: some returned path has x strictly inside -/
theorem C08_through_iff (i : SPInfo) (x : Nat) :
    i.through x = true ↔ ∃ p ∈ i.paths, p.length > 2 ∧ x ∈ (p.drop 1).dropLast := by
  unfold SPInfo.through
  simp [List.any_eq_true]

end Graphrs
