/-
  C03 — algorithms traverse exactly the stored edges, with their current weights.

  The traversal lists `successors_vec` / `predecessors_vec` are what the shortest-path,
  centrality and partitioning algorithms iterate over.  This file re-establishes the clause
  `vecOk` of the coupling invariant after every mutation and reads it out in the words of the
  property: v is a traversal neighbour of u iff an edge u -> v (u - v when undirected) is stored,
  and the weight used for the pair is the minimum weight among the stored edges between them -
  under every duplicate-edge policy (keep-first leaves the entry, keep-last overwrites it,
  multi-edge keeps the minimum).
-/
import GraphrsModel.Lemmas.C03Final
namespace Graphrs
open C03

/-! The proofs go through a Prop-level invariant `C03.Pre` (see `Lemmas/C03Pre.lean`): it follows from
    `Store.wf` (`C03.pre_of_wf`), is preserved by `add_node` (`C03.pre_addNode`), its traversal part
    `C03.PreV` is re-established by `add_edge` (`C03.preV_addEdge`) and gives back the Bool clause
    `vecOk` (`C03.vecOk_of_preV`).  The post-state hypotheses `h1 h2 h3` are not needed. -/

private theorem sameKey_eq_key (dir : Bool) (a b x y : Nat) (h : dir = true ∨ a ≤ b) :
    ((a == x && b == y) || (!dir && a == y && b == x)) = decide ((a, b) = nameKey dir x y) := by
  rw [Bool.eq_iff_iff]
  cases dir
  · have hab : a ≤ b := by
      rcases h with h | h
      · cases h
      · exact h
    unfold nameKey
    by_cases hxy : x > y
    · simp [hxy]; omega
    · simp [hxy]; omega
  · simp [nameKey]

private theorem exists_entry_iff (row : List Adj) (j : Nat) :
    (∃ w, (j, w) ∈ row) ↔ (Abs.minW (wts row j)).isSome = true := by
  rw [minW_isSome]
  have := wts_ne_nil_iff row j
  simp only [Bool.not_eq_true', List.isEmpty_eq_false_iff]
  rw [this]
  constructor
  · rintro ⟨w, hw⟩; exact ⟨(j, w), hw, rfl⟩
  · rintro ⟨a, ha, rfl⟩; exact ⟨a.2, ha⟩

set_option linter.unusedVariables false in
theorem C03_addNode_vecOk (s : Store) (n : Node) (h : s.wf = true)
    (h1 : (s.addNode n).nodesOk = true) (h2 : (s.addNode n).edgesOk = true) (h3 : (s.addNode n).adjOk = true) :
    (s.addNode n).vecOk = true :=
  vecOk_of_pre _ (pre_addNode s n (pre_of_wf s h))

set_option linter.unusedVariables false in
theorem C03_addEdge_vecOk (s : Store) (e : Edge) (h : s.wf = true)
    (h1 : (s.addEdge e).1.nodesOk = true) (h2 : (s.addEdge e).1.edgesOk = true) (h3 : (s.addEdge e).1.adjOk = true) :
    (s.addEdge e).1.vecOk = true :=
  vecOk_of_preV _ (preV_addEdge s e (pre_of_wf s h))

/-- the weights of the stored edges between two nodes, as read from `get_all_edges()` alone -/
theorem C03_weightsBetween_abs (s : Store) (h : s.wf = true) (x y : Nat) :
    s.weightsBetween x y = (s.abs.between s.specs.directed x y).map (·.w) := by
  simp only [Store.wf, Bool.and_eq_true] at h
  have eP := edgesOk_read s h.1.1.2
  unfold Store.weightsBetween Abs.between Store.abs
  simp only
  congr 1
  have hf : s.allEdges.filter (fun e => Abs.sameKey s.specs.directed e x y) =
      s.allEdges.filter (fun e => decide ((e.u, e.v) = nameKey s.specs.directed x y)) := by
    apply List.filter_congr
    intro e he
    obtain ⟨kv, hkv, hekv⟩ := (mem_allEdges s e).1 he
    have hkey := eP.key kv hkv e hekv
    have hcan := eP.canon kv hkv
    rw [← hkey] at hcan
    exact sameKey_eq_key _ _ _ _ _ hcan
  rw [hf]
  unfold Store.allEdges
  exact (filter_flatMap_key (fun e : Edge => (e.u, e.v)) s.edges eP.nd eP.key _).symm

/-- **successor lists**: `j` is listed under `i` iff an edge from the i-th to the j-th node is stored
    (either orientation when undirected), and the minimum listed weight is the minimum stored weight -/
theorem C03_successors_match_store (s : Store) (h : s.wf = true) (i j x y : Nat)
    (hx : s.names[i]? = some x) (hy : s.names[j]? = some y) :
    ((∃ w, (j, w) ∈ (s.succVec[i]?).getD []) ↔ s.hasEdge x y = true) ∧
    ((∃ w, (j, w) ∈ (s.succVec[i]?).getD []) →
      Abs.minW ((((s.succVec[i]?).getD []).filter (·.1 == j)).map (·.2)) =
        Abs.minW ((s.abs.between s.specs.directed x y).map (·.w))) := by
  have hp := pre_of_wf s h
  have hwb := C03_weightsBetween_abs s h x y
  simp only [Store.wf, Bool.and_eq_true] at h
  have eP := edgesOk_read s h.1.1.2
  have hv := hp.vS.val i j x y hx hy
  have hs : (fS s.edges s.specs.directed x y).isSome = s.hasEdge x y := by
    rw [hasEdge_iff s eP, fS_isSome _ _ _ _ eP.ne]
  refine ⟨?_, fun _ => ?_⟩
  · rw [exists_entry_iff, ← hs, ← hv]; rfl
  · show rowMin s.succVec i j = _
    rw [hv, ← hwb]; rfl

/-- **predecessor lists** (directed graphs; empty on undirected ones) -/
theorem C03_predecessors_match_store (s : Store) (h : s.wf = true) (i j x y : Nat)
    (hx : s.names[i]? = some x) (hy : s.names[j]? = some y) :
    ((∃ w, (j, w) ∈ (s.predVec[i]?).getD []) ↔ (s.specs.directed = true ∧ s.hasEdge y x = true)) ∧
    ((∃ w, (j, w) ∈ (s.predVec[i]?).getD []) →
      Abs.minW ((((s.predVec[i]?).getD []).filter (·.1 == j)).map (·.2)) =
        Abs.minW ((s.abs.between s.specs.directed y x).map (·.w))) := by
  have hp := pre_of_wf s h
  have hwb := C03_weightsBetween_abs s h y x
  simp only [Store.wf, Bool.and_eq_true] at h
  have eP := edgesOk_read s h.1.1.2
  have hv := hp.vP.val i j x y hx hy
  have hs : (fP s.edges s.specs.directed x y).isSome = (s.specs.directed && s.hasEdge y x) := by
    rw [fP_isSome, hasEdge_iff s eP, fS_isSome _ _ _ _ eP.ne]
  have hiff : (∃ w, (j, w) ∈ (s.predVec[i]?).getD []) ↔
      (s.specs.directed = true ∧ s.hasEdge y x = true) := by
    rw [exists_entry_iff, ← Bool.and_eq_true, ← hs, ← hv]; rfl
  refine ⟨hiff, fun hex => ?_⟩
  have hd := (hiff.1 hex).1
  show rowMin s.predVec i j = _
  rw [hv, ← hwb]
  unfold fP
  rw [if_pos hd]; rfl

/-- every listed index is a node position -/
theorem C03_indexes_in_range (s : Store) (h : s.wf = true) (i : Nat) (a : Adj)
    (ha : a ∈ (s.succVec[i]?).getD [] ∨ a ∈ (s.predVec[i]?).getD []) : a.1 < s.nodesVec.length := by
  have hp := pre_of_wf s h
  rw [← names_length]
  rcases ha with ha | ha
  · cases hr : s.succVec[i]? with
    | none => rw [hr] at ha; simp at ha
    | some row => rw [hr] at ha; exact hp.vS.bnd i row hr a ha
  · cases hr : s.predVec[i]? with
    | none => rw [hr] at ha; simp at ha
    | some row => rw [hr] at ha; exact hp.vP.bnd i row hr a ha

/-- the defect repaired by the traversal-weight fix, replayed in the model: under keep-last a heavier
    duplicate replaces the stored edge and the traversal weight follows (it used to stay at 1) -/
example :
    let sp : Specs := ⟨true, false, false, .keepLast, .create, .error⟩
    let s := (Store.run sp [Op.addEdge ⟨1, 2, some 1, none⟩, Op.addEdge ⟨1, 2, some 5, none⟩]).1
    s.allEdges.map (·.w) = [some 5] ∧ s.succVec = [[(1, some 5)], []] := by
  decide

/-- and under keep-first a lighter duplicate is ignored by both the store and the traversal list -/
example :
    let sp : Specs := ⟨true, false, false, .keepFirst, .create, .error⟩
    let s := (Store.run sp [Op.addEdge ⟨1, 2, some 5, none⟩, Op.addEdge ⟨1, 2, some 1, none⟩]).1
    s.allEdges.map (·.w) = [some 5] ∧ s.succVec = [[(1, some 5)], []] := by
  decide

end Graphrs
