import GraphrsModel.Obs
namespace Graphrs
/-- placeholder while the framework is brought up: replaced by the property theorems -/
theorem C03_run_nil (sp : Specs) : (Abs.run sp []).2 = [] := rfl
end Graphrs
