/-
  C10 (model level) — on every store satisfying the coupling invariant the models of `connected_components`,
  `number_of_connected_components`, `node_connected_component`, `weakly_connected_components` and
  `strongly_connected_components` return *the* partition of the nodes by the right reachability relation.

  Proof structure: Lemmas/C10Base.lean (facts from `wf`, `ReachR` lemmas, the generic "fold over the names, skip seen
  ones" partition lemma), Lemmas/C10Comp.lean (totality of the BFS model, the component folds as pure folds, the plain BFS
  of weak_connectivity.rs), Lemmas/C10SccInv.lean (the invariant of the iterative preorder / low-link algorithm over
  abstract state components, preserved by visit / push / pop-non-root / pop-root), Lemmas/C10SccRun.lean (the concrete
  `sccStep` / `sccRun` against that invariant: no panic, fuel measure `2·unvisited + |queue|` ≤ 2n+1 ≤ 4n+4).
-/
import GraphrsModel.Props.Core
import GraphrsModel.Props.C10
import GraphrsModel.Lemmas.C10Comp
import GraphrsModel.Lemmas.C10SccRun
namespace Graphrs

/-- the neighbour function of the abstract graph used by BFS: successors on a directed graph, neighbours otherwise -/
def Store.nbAbs (s : Store) (x : Nat) : List Nat := if s.specs.directed then s.abs.succ true x else s.abs.nbrs false x

open C02 C10M

/-! ### the neighbour function the BFS model reads, from C02 -/

private theorem nbAbs_closed (s : Store) (h : s.wf = true) {y z : Nat} (hz : z ∈ s.nbAbs y) :
    y ∈ s.getAllNodeNames ∧ z ∈ s.getAllNodeNames := by
  unfold Store.nbAbs at hz
  cases hd : s.specs.directed
  · rw [hd] at hz
    simp only [Bool.false_eq_true, if_false] at hz
    unfold Abs.nbrs at hz
    rw [mem_dedup, List.mem_append] at hz
    rcases hz with hz | hz
    · exact succ_names s h (by rw [hd]; exact hz)
    · simp [Abs.pred] at hz
  · rw [hd] at hz
    simp only [if_true] at hz
    exact succ_names s h (by rw [hd]; exact hz)

private theorem gson_ok (s : Store) (h : s.wf = true) (y : Nat) (hy : y ∈ s.getAllNodeNames) :
    ∃ l, s.getSuccessorsOrNeighbors y = .ok l ∧ (∀ z, z ∈ l.map (·.name) ↔ z ∈ s.nbAbs y) ∧
      (∀ z ∈ s.nbAbs y, z ∈ s.getAllNodeNames) := by
  have hy' : s.hasNode y = true := (hasNode_names s h y).2 hy
  have hcl : ∀ z ∈ s.nbAbs y, z ∈ s.getAllNodeNames := fun z hz => (nbAbs_closed s h hz).2
  cases hd : s.specs.directed
  · obtain ⟨l, hl, hm, _⟩ := C02_neighborNodes s h y hy'
    refine ⟨l, ?_, ?_, hcl⟩
    · simp [Store.getSuccessorsOrNeighbors, hd, hl, Outcome.unwrap]
    · intro z
      rw [hm z, hd]
      simp [Store.nbAbs, hd]
  · obtain ⟨l, hl, hm, _⟩ := C02_successorNodes s h hd y hy'
    refine ⟨l, ?_, ?_, hcl⟩
    · simp [Store.getSuccessorsOrNeighbors, hd, hl, Outcome.unwrap]
    · intro z
      rw [hm z]
      simp [Store.nbAbs, hd]

private theorem gson_ok' (s : Store) (h : s.wf = true) :
    ∀ v ∈ s.getAllNodeNames, ∃ l, s.getSuccessorsOrNeighbors v = .ok l ∧ ∀ z ∈ l.map (·.name), z ∈ s.getAllNodeNames := by
  intro v hv
  obtain ⟨l, hl, hm, hc⟩ := gson_ok s h v hv
  exact ⟨l, hl, fun z hz => hc z ((hm z).1 hz)⟩

private theorem bfs_total' (s : Store) (h : s.wf = true) :
    ∀ v ∈ s.getAllNodeNames, ∃ out, s.breadthFirstSearch v = .ok out :=
  fun v hv => bfs_total s (gson_ok' s h) v hv

/-- `breadth_first_search` of the model on a well-formed store: C10_bfs_correct instantiated with C02 -/
theorem C10_model_bfs (s : Store) (h : s.wf = true) (x : Nat) (hx : s.hasNode x = true) (out : List Nat)
    (hb : s.breadthFirstSearch x = .ok out) :
    out.head? = some x ∧ out.Nodup ∧ ∀ y, y ∈ out ↔ ReachR s.nbAbs x y := by
  refine C10_bfs_correct s s.nbAbs x out (names_nodup s h) ((hasNode_names s h x).1 hx) ?_ hb
  intro y hy
  exact gson_ok s h y hy

/-- on an undirected graph the neighbour relation is symmetric -/
private theorem nbAbs_symm (s : Store) (hd : s.specs.directed = false) (x y : Nat) (hy : y ∈ s.nbAbs x) : x ∈ s.nbAbs y := by
  have key : ∀ a b, b ∈ s.nbAbs a ↔ s.hasEdge a b = true := by
    intro a b
    unfold Store.nbAbs
    rw [hd]
    simp only [Bool.false_eq_true, if_false]
    unfold Abs.nbrs
    rw [mem_dedup, List.mem_append, ← hd, mem_abs_succ, mem_abs_pred, hd]
    simp
  rw [key] at hy ⊢
  rw [hasEdge_iff] at hy ⊢
  obtain ⟨e, he, hj⟩ := hy
  refine ⟨e, he, ?_⟩
  rw [hd] at hj ⊢
  simp only [joins, Bool.not_false, Bool.true_and, Bool.or_eq_true, Bool.and_eq_true, beq_iff_eq] at hj ⊢
  rcases hj with ⟨a, b⟩ | ⟨a, b⟩
  · exact Or.inr ⟨a, b⟩
  · exact Or.inl ⟨a, b⟩

/-- the components fold on an undirected well-formed store -/
private theorem cc_partition (s : Store) (h : s.wf = true) (hd : s.specs.directed = false) :
    ∃ comps, s.connectedComponents = .ok comps ∧
    (∀ c ∈ comps, c ≠ []) ∧ (comps.flatMap id).Nodup ∧ (∀ x, x ∈ comps.flatMap id ↔ x ∈ s.getAllNodeNames) ∧
    (∀ c ∈ comps, ∀ x ∈ c, ∀ y, y ∈ c ↔ ReachR s.nbAbs x y) := by
  refine ⟨_, connectedComponents_eq s hd (bfs_total' s h), ?_⟩
  refine compFold_partition s.getAllNodeNames (ReachR s.nbAbs) (fun v => dedup (bfsOf s v))
    (fun x => ReachR.refl x) (fun x y hxy => ReachR.symm_of (nbAbs_symm s hd) hxy)
    (fun x y z => ReachR.trans) ?_ ?_ _ rfl
  · intro x hx y hxy
    exact ReachR.closed (P := fun v => v ∈ s.getAllNodeNames) (fun a b _ hb => (nbAbs_closed s h hb).2) hx hxy
  · intro v hv
    obtain ⟨out, hout⟩ := bfs_total' s h v hv
    obtain ⟨_, hnd, hm⟩ := C10_model_bfs s h v ((hasNode_names s h v).2 hv) out hout
    simp only [bfsOf_eq s v out hout]
    exact ⟨nodup_dedup _, fun y => by rw [mem_dedup]; exact hm y⟩

/-- **connected_components** (undirected): non-empty, pairwise disjoint, covering every node once; two nodes share a set iff connected -/
theorem C10_model_connected_components (s : Store) (h : s.wf = true) (hd : s.specs.directed = false) (comps : List (List Nat))
    (hc : s.connectedComponents = .ok comps) :
    (∀ c ∈ comps, c ≠ []) ∧ (comps.flatMap id).Nodup ∧ (∀ x, x ∈ comps.flatMap id ↔ x ∈ s.getAllNodeNames) ∧
    (∀ c ∈ comps, ∀ x ∈ c, ∀ y, y ∈ c ↔ ReachR s.nbAbs x y) := by
  obtain ⟨comps', hc', hp⟩ := cc_partition s h hd
  rw [hc] at hc'
  cases hc'
  exact hp

theorem C10_model_number_and_node_component (s : Store) (h : s.wf = true) (hd : s.specs.directed = false) (x : Nat) (hx : s.hasNode x = true) :
    (∃ comps, s.connectedComponents = .ok comps ∧ s.numberOfConnectedComponents = .ok comps.length) ∧
    (∃ c, s.nodeConnectedComponent x = .ok c ∧ c.Nodup ∧ ∀ y, y ∈ c ↔ ReachR s.nbAbs x y) := by
  constructor
  · obtain ⟨comps, hc, _⟩ := cc_partition s h hd
    refine ⟨comps, hc, ?_⟩
    simp [Store.numberOfConnectedComponents, hc, bind, Outcome.bind]
  · obtain ⟨out, hout⟩ := bfs_total' s h x ((hasNode_names s h x).1 hx)
    obtain ⟨_, hnd, hm⟩ := C10_model_bfs s h x hx out hout
    refine ⟨dedup out, ?_, nodup_dedup _, fun y => by rw [mem_dedup]; exact hm y⟩
    simp [Store.nodeConnectedComponent, Store.ensureUndirected, hd, hx, hout, bind, Outcome.bind]

/-- **weakly_connected_components** (directed): the partition by connectivity ignoring direction -/
theorem C10_model_weak_components (s : Store) (h : s.wf = true) (hd : s.specs.directed = true) (comps : List (List Nat))
    (hc : s.weaklyConnectedComponents = .ok comps) :
    (∀ c ∈ comps, c ≠ []) ∧ (comps.flatMap id).Nodup ∧ (∀ x, x ∈ comps.flatMap id ↔ x ∈ s.getAllNodeNames) ∧
    (∀ c ∈ comps, ∀ x ∈ c, ∀ y, y ∈ c ↔ ReachR (fun z => s.abs.succ true z ++ s.abs.pred true z) x y) := by
  rw [weaklyConnectedComponents_eq s hd] at hc
  cases hc
  have hnb : ∀ v z, z ∈ wnb s v ↔ z ∈ (fun z => s.abs.succ true z ++ s.abs.pred true z) v := by
    intro v z
    have := C02_maps s h v z
    rw [hd] at this
    simp only [wnb, List.mem_append, this.1, this.2]
  have hsymm : ∀ x y, y ∈ (fun z => s.abs.succ true z ++ s.abs.pred true z) x →
      x ∈ (fun z => s.abs.succ true z ++ s.abs.pred true z) y := by
    intro x y hy
    have e1 : ∀ a b, b ∈ s.abs.succ true a ↔ s.hasEdge a b = true := by
      intro a b
      have := mem_abs_succ s a b
      rw [hd] at this
      exact this
    have e2 : ∀ a b, b ∈ s.abs.pred true a ↔ s.hasEdge b a = true := by
      intro a b
      have := mem_abs_pred s a b
      rw [hd] at this
      rw [this]; simp
    simp only [List.mem_append, e1, e2] at hy ⊢
    exact hy.symm
  have hcl : ∀ a b, a ∈ s.getAllNodeNames → b ∈ (fun z => s.abs.succ true z ++ s.abs.pred true z) a →
      b ∈ s.getAllNodeNames := by
    intro a b _ hb
    simp only [List.mem_append] at hb
    rcases hb with hb | hb
    · exact (succ_names s h (by rw [hd]; exact hb)).2
    · exact (pred_names s h (by rw [hd]; exact hb)).2
  refine compFold_partition s.getAllNodeNames _ _
    (fun x => ReachR.refl x) (fun x y hxy => ReachR.symm_of hsymm hxy)
    (fun x y z => ReachR.trans) ?_ ?_ _ rfl
  · intro x hx y hxy
    exact ReachR.closed (P := fun v => v ∈ s.getAllNodeNames) hcl hx hxy
  · intro v hv
    refine ⟨nodup_dedup _, fun y => ?_⟩
    rw [mem_dedup]
    exact plainBfs_correct s _ v hnb
      (fun w hw => ReachR.closed (P := fun v => v ∈ s.getAllNodeNames) hcl hv hw) y

/-! ### strong components: the model against the invariant of Lemmas/C10SccInv.lean / C10SccRun.lean -/

/-- the successor function the strong-components model reads -/
private def sccNb (s : Store) : Nat → List Nat := fun v => (alookup s.succ v).getD []

private theorem sccNb_closed (s : Store) (h : s.wf = true) :
    ∀ x ∈ s.getAllNodeNames, ∀ w ∈ sccNb s x, w ∈ s.getAllNodeNames := by
  intro x _ w hw
  exact (succ_names s h ((C02_maps s h x w).1.1 hw)).2

/-- the shape of the model: a fold of runs over the node names -/
private theorem scc_shape (s : Store) (hd : s.specs.directed = true) :
    ∃ G : Option Store.SccState → Nat → Option Store.SccState,
      (∀ st src, G (some st) src =
        if st.sccFound.contains src then some st else Store.sccRun (sccNb s) (4 * s.numNodes + 4) st [src]) ∧
      s.stronglyConnectedComponents =
        (match s.getAllNodeNames.foldl G (some {}) with
         | some st => .ok st.components
         | none => .panic "strongly_connected_components: unwrap") := by
  refine ⟨fun acc src => match acc with
      | none => none
      | some st => if st.sccFound.contains src then some st else Store.sccRun (sccNb s) (4 * s.numNodes + 4) st [src],
    fun _ _ => rfl, ?_⟩
  unfold Store.stronglyConnectedComponents Store.ensureDirected
  rw [hd]
  rfl

/-- on a well-formed directed store the model ends in a state satisfying the invariant, with every node found -/
private theorem scc_final (s : Store) (h : s.wf = true) (hd : s.specs.directed = true) :
    ∃ st, s.stronglyConnectedComponents = .ok st.components ∧
      Scc.CInv s.getAllNodeNames (sccNb s) st [] ∧ ∀ x ∈ s.getAllNodeNames, x ∈ st.sccFound := by
  obtain ⟨G, hG, heq⟩ := scc_shape s hd
  have hfuel : 2 * s.getAllNodeNames.length + 1 ≤ 4 * s.numNodes + 4 := by
    simp only [Store.getAllNodeNames, Store.numNodes, List.length_map]
    omega
  obtain ⟨st, hf, hinv, _, hfound⟩ := Scc.sources_ok (sccNb_closed s h) (4 * s.numNodes + 4) hfuel G hG
    s.getAllNodeNames (fun x hx => hx) {} (Scc.CInv.init _ _)
  refine ⟨st, ?_, hinv, hfound⟩
  rw [heq, hf]

/-- **strongly_connected_components** (directed): the partition by mutual reachability - for every iteration order the model uses -/
theorem C10_model_strong_components (s : Store) (h : s.wf = true) (hd : s.specs.directed = true) (comps : List (List Nat))
    (hc : s.stronglyConnectedComponents = .ok comps) :
    (∀ c ∈ comps, c ≠ []) ∧ (comps.flatMap id).Nodup ∧ (∀ x, x ∈ comps.flatMap id ↔ x ∈ s.getAllNodeNames) ∧
    (∀ c ∈ comps, ∀ x ∈ c, ∀ y, y ∈ c ↔ (ReachR (s.abs.succ true) x y ∧ ReachR (s.abs.succ true) y x)) := by
  obtain ⟨st, heq, hinv, hfound⟩ := scc_final s h hd
  rw [hc] at heq
  cases heq
  have hnb : ∀ x y, y ∈ sccNb s x ↔ y ∈ s.abs.succ true x := by
    intro x y
    have := (C02_maps s h x y).1
    rw [hd] at this
    exact this
  have hreach : ∀ x y, ReachR (sccNb s) x y ↔ ReachR (s.abs.succ true) x y := fun x y =>
    ⟨ReachR.mono (fun a b hb => (hnb a b).1 hb), ReachR.mono (fun a b hb => (hnb a b).2 hb)⟩
  refine ⟨hinv.a.compsNe, hinv.a.compsNodup, ?_, ?_⟩
  · intro x
    rw [← hinv.a.compsF x]
    exact ⟨fun hx => hinv.a.visV x (hinv.a.fVis x hx), hfound x⟩
  · intro c hcm x hx y
    rw [hinv.a.compsClass c hcm x hx y]
    unfold Scc.SC
    rw [hreach, hreach]

/-- the strong-components model never reaches a panic site (every `unwrap` on preorder / lowlink succeeds) -/
theorem C10_model_strong_no_panic (s : Store) (h : s.wf = true) : s.stronglyConnectedComponents.isPanic = false := by
  cases hd : s.specs.directed
  · unfold Store.stronglyConnectedComponents Store.ensureDirected
    rw [hd]
    rfl
  · obtain ⟨st, heq, _⟩ := scc_final s h hd
    rw [heq]
    rfl

/-- non-vacuity: a directed store satisfying the invariant, with its strong and weak components -/
example :
    let s := (Store.run ⟨true, false, true, .error, .create, .error⟩
      [Op.addEdgeTuple 1 2, Op.addEdgeTuple 2 1, Op.addEdgeTuple 2 3, Op.addEdgeTuple 3 4, Op.addEdgeTuple 4 3,
       Op.addEdgeTuple 5 1]).1
    s.wf = true ∧ s.stronglyConnectedComponents.toOption = some [[3, 4], [1, 2], [5]] ∧
    s.weaklyConnectedComponents.toOption = some [[1, 2, 5, 3, 4]] := by
  decide +kernel


/-- non-vacuity for `C10_bfs_ordered_correct`, and the difference the F24 repair makes: on the same store the ordered search
    visits each level in name order, while the search that takes a level in the order it was collected (the code before
    the repair, with this insertion order standing for one particular hash order) returns another list of the same nodes -/
example :
    let s := (Store.run ⟨false, false, false, .error, .create, .error⟩
      [Op.addEdgeTuple 1 9, Op.addEdgeTuple 1 4, Op.addEdgeTuple 1 7, Op.addEdgeTuple 4 2, Op.addEdgeTuple 9 3]).1
    s.wf = true ∧ (s.breadthFirstSearchOrdered 1).toOption = some [1, 4, 7, 9, 2, 3] ∧
    (s.breadthFirstSearch 1).toOption = some [1, 9, 4, 7, 3, 2] := by
  decide +kernel

end Graphrs
