/-
  Source tie for C10 (translator `tools/formulas.py`): the capacity `number_of_nodes / num_partitions + 1` of
  `bfs_equal_size_partitions` and its two "part is full" tests, re-read from src/algorithms/components/weak_connectivity.rs
  on every run (`Generated/FormulasC10.lean`), are the ones the model uses (`C10_model_equal_size` bounds every part by
  exactly this capacity).
-/
import GraphrsModel.Generated.FormulasC10
import GraphrsModel.Model.Components
namespace Graphrs

/-- the model's capacity is the source's (usize division = ℕ division; `k = 0` is the division by zero the model reports) -/
theorem C10_src_capacity (s : Store) (k : Nat) :
    s.bfsEqualSizePartitions k =
      (if k == 0 then .panic "bfs_equal_size_partitions: division by zero"
       else
        let n := s.numberOfNodes
        match Store.eqOuter s n (Src.C10.partMaxSize n k) (n + 1) ⟨List.replicate k [], List.replicate n false, 0, [], 0⟩ with
        | none => .panic "bfs_equal_size_partitions: index / unwrap"
        | some st =>
          st.parts.foldl (fun acc part => do
            let out ← acc
            let names ← part.foldl (fun a i => do
              let l ← a
              let nd ← Outcome.ofOption "bfs_equal_size_partitions: get_node_by_index().unwrap()" (s.getNodeByIndex i)
              .ok (l ++ [nd.name])) (.ok [])
            .ok (out ++ [names])) (.ok [])) := rfl

/-- the inner test `partitions[partition].len() == partition_max_size` -/
theorem C10_src_full_inner (p : List Nat) (maxSize : Nat) :
    (p.length == maxSize) = Src.C10.partFullInner p.length maxSize := by
  unfold Src.C10.partFullInner
  rw [Bool.eq_iff_iff]; simp

/-- the outer test, which the model reads through `Option.map` (an out-of-range part index is never full) -/
theorem C10_src_full_outer (parts : List (List Nat)) (part maxSize : Nat) :
    ((parts[part]?.map List.length) == some maxSize) =
      (match parts[part]? with | none => false | some p => Src.C10.partFullOuter p.length maxSize) := by
  unfold Src.C10.partFullOuter
  cases parts[part]? with
  | none => rfl
  | some p => rw [Bool.eq_iff_iff]; simp

end Graphrs
