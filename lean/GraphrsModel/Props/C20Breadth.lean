/-
  C20 breadth — no model of a public function panics on a well-formed store.

  In the executable models every `unwrap`, slice index and `usize` subtraction of the Rust code is an explicit
  `Outcome.panic site`.  Props/C20.lean and Props/C20Model.lean prove "no panic on any well-formed store" for the read API
  of query.rs, `bfs_equal_size_partitions`, betweenness, closeness (hop count), strong components, Louvain,
  single_source (non-negative weights) and modularity.  This file (with its parts C20BreadthBase / Core / Cluster / Eigen /
  Paths) closes the list: EVERY remaining model function that models a `pub fn` of the crate
  (tools/pubfns_covered.txt) has a theorem

      theorem C20_model_<name>_no_panic (s : Store) (h : s.wf = true) (args...) : (s.<fn> args).isPanic = false

  with no hypothesis besides `s.wf = true` - absent names, the wrong graph kind, empty subsets, every `k`, NaN and
  negative weights are all covered - and, for the functions that have no error channel in the crate
  (`-> Vec<T>` / `-> HashMap<..>`), "names that exist" (as the quantifier of C20 says).

  HISTORY - the finding of this file, now repaired.  The first version of this file found (and reproduced on the crate) that
  on the directed graph 1 -5-> 2, 1 -6-> 3, 3 -(-10)-> 2 (well-formed, reachable, all names exist) `single_source(weighted)`
  returned Err(ContradictoryPaths) through its Result while `all_pairs(.., with_paths = true)`, `multi_source` and
  `get_all_shortest_paths_involving` PANICKED (they `unwrap`ped that Err).  The crate was repaired (`fix:` commit: the
  per-source iterators yield Results, `all_pairs` / `multi_source` propagate the first error with `?`), the model mirrors
  the repaired code, and the statement now holds at full strength: `C20_model_shortest_paths_no_panic_full` is a THEOREM
  (no hypothesis on weights), and `C20_negative_weights_repaired` evaluates the repaired functions on that very store
  (`.err .ContradictoryPaths`, `.err .ContradictoryPaths`, `.ok []`).

  function of the crate (model function)                      theorem                                             hypotheses beyond wf
  ----------------------------------------------------------  --------------------------------------------------  --------------------
  query.rs
    get_edge, get_edges                                       C20_pair_queries_no_panic (C20.lean)                -
    get_edges_for_node, get_in/out_edges_for_node             C20_node_edge_lists_no_panic (C20.lean)             -
    get_edges_for_nodes, get_in/out_edges_for_nodes           C20_node_set_queries_no_panic (C20.lean)            -
    get_successor/predecessor/neighbor_nodes (+ *_node_names) C20_adjacency_queries_no_panic (C20.lean)           -
    get_successors_or_neighbors (-> Vec)                      C20_succ_or_nbrs_no_panic (C20.lean)                name exists
    breadth_first_search (-> Vec)                             C20_model_bfs_no_panic                              name exists
    get_node_index                                            C20_model_getNodeIndex_no_panic                     - (not even wf)
    get_node, get_node_by_index, has_node(s), get_all_*,      total by type (Option / Bool / List / Nat: the model
    edges_have_weight, number_of_*, size, get_*_map             has no `Outcome`, hence no panic site)
  degree.rs
    get_node_*degree (Option)                                 total by type; values: C09_model_degree, C20_absent_name_channel
    get_(in_/out_)degree_for_all_nodes, weighted degree map   C20_degree_maps_no_panic (C20.lean)                  -
    get_weighted_in/out_degree_for_all_nodes                  C20_model_weighted_in_out_degree_maps_no_panic      -
  density.rs get_density, centrality/degree.rs                total by type (Option Rat) / C20_degree_maps_no_panic
  matrix.rs get_sparse_adjacency_matrix (triplets)            C20_degree_maps_no_panic (C20.lean)                 -
  ensure.rs ensure_*                                          C20_model_ensure_no_panic                           - (not even wf)
  convert.rs / subgraph.rs
    get_subgraph                                              C20_model_subgraph_no_panic (+ result wf)           -
    reverse                                                   C20_model_reverse_no_panic (+ result wf)            -
    set_all_edge_weights                                      C20_model_set_all_edge_weights_no_panic (+ wf)      -
    to_single_edges                                           C20_model_to_single_edges_no_panic (+ result wf)    -
  creation.rs
    add_node(s), add_edge(s), add_edge_tuple(s)               C20_model_mutations_no_panic (`poisoned` never set) -
    new_from_nodes_and_edges                                  C20_model_new_from_no_panic                         - (not even wf)
  components
    connected_components                                      C20_model_connected_components_no_panic             -
    number_of_connected_components                            C20_model_number_of_connected_components_no_panic   -
    node_connected_component                                  C20_model_node_connected_component_no_panic         -
    weakly_connected_components                               C20_model_weak_components_no_panic                  -
    strongly_connected_components                             C20_model_strong_components_no_panic (C20Model)     -
    bfs_equal_size_partitions                                 C20_equal_size_no_panic (C20.lean)                  k ≥ 1
  cluster
    triangles                                                 C20_model_triangles_no_panic                        -
    generalized_degree                                        C20_model_generalized_degree_no_panic (C11GenDeg)   -
    transitivity                                              C20_model_transitivity_no_panic                     -
    clustering (unweighted)                                   C20_model_clustering_unweighted_no_panic            -
    clustering (weighted), every scalar / Float               C20_model_clustering_weighted_no_panic / _float_    -
    average_clustering                                        `averageOfG` is total by type (over the coefficients above)
    square_clustering (-> HashMap), both graph kinds          C20_model_square_clustering_no_panic                names exist
    helpers in private modules (not reachable from outside the crate):
      get_neighbors_of_nodes                                  C20_model_neighbors_of_nodes_no_panic               names exist
      get_adjacent_nodes_without                              C20_model_adjacent_nodes_without_no_panic           directed, name exists
                                                              (panics on an undirected graph: `example` in Cluster part)
      get_triangles_and_degrees                               C20_model_triangles_and_degrees_no_panic            undirected, names exist
      get_directed_triangles_and_degrees                      C20_model_directed_triangles_and_degrees_no_panic   directed, names exist
      get_weighted_triangles_and_degrees                      C20_model_weighted_triangles_and_degrees_no_panic   names exist
      get_directed_weighted_triangles_and_degrees             C20_model_all_directed_triangles_no_panic           directed, lists of nodes
      get_normalized_edge_weight                              total by type
  centrality
    betweenness_centrality                                    C20_model_betweenness_no_panic (C20Model)           -
    closeness_centrality, both modes                          C20_model_closeness_any_no_panic                    -
    degree_centrality                                         C20_degree_maps_no_panic (C20.lean)                 -
    eigenvector_centrality, every scalar / Float              C20_model_eigenvector_no_panic / _float_            -
  community
    louvain_partitions / louvain_communities                  C20_model_louvain_no_panic (C20Model)               -
    modularity                                                C20_model_modularity_no_panic (C20Model)            communities duplicate-free (HashSet)
    is_partition                                              total by type (Bool)
  shortest_path/dijkstra.rs
    single_source                                             C20_model_single_source_any_no_panic                -  (any weights, any target)
    multi_source                                              C20_model_multi_source_no_panic                     -  (any weights, absent names)
    all_pairs                                                 C20_model_all_pairs_no_panic                        -  (any weights, absent target)
    get_all_shortest_paths_involving (-> Vec)                 C20_model_paths_involving_no_panic                  -  (any name, present or absent)
      ... all three, at full strength                         C20_model_shortest_paths_no_panic_full              -
      ... absent source / target: the error kinds             C20_model_shortest_paths_absent_channel             -
      ... the store of the former finding                     C20_negative_weights_repaired                       (closed fact)
      ... values (not ContradictoryPaths) for weights ≥ 0     C20B.singleSource_ok, C20B.idxArcs_nonneg_of_wf     Store.costsOk
    contains_path_through_node                                total by type (Bool)
  generators
    complete_graph                                            C20_model_complete_graph_no_panic (+ result wf)     - (every n, both kinds)
    fast_gnp_random_graph                                     C20_model_fast_gnp_no_panic                         - (every n, every skip sequence)
    karate_club_graph                                         C20_model_karate_no_panic                           -
  readwrite/graphml.rs
    read_graphml_string / _file (on the event list)           C20_model_read_graphml_no_panic                     - (every event list)
    write_graphml_string / _file                              `writeEvents` is total by type
  edge.rs, node.rs, graph_specs.rs, adjacent_node.rs          constructors: total by type
-/
import GraphrsModel.Props.C20BreadthCore
import GraphrsModel.Props.C20BreadthCluster
import GraphrsModel.Props.C20BreadthEigen
import GraphrsModel.Props.C20BreadthPaths
namespace Graphrs
open LouvainFull

/-- **C20 breadth, collected**: on every well-formed store - of any of the 8 kinds, the empty graph included - and for
    EVERY argument (names present or absent, any subset, any weights, any iteration count, any scalar), none of the models
    of the public functions that return a `Result` reaches a panic site - the shortest-path functions included, whatever
    the weights.  (Functions without an error channel, on names that exist: `C20_breadth_summary_names`.) -/
theorem C20_breadth_summary (s : Store) (h : s.wf = true) (x y : Nat) (S : List Nat) (names : Option (List Nat)) (w : W)
    (weighted flag : Bool) (target : Option Nat) (cutoff2 : Option Int) (firstOnly withPaths : Bool) (maxIter : Nat)
    (tol : Float) (res thr : Rat) (perms : List (List Nat)) (sources : List Nat) :
    -- query / degree / matrix (C20.lean)
    (s.getEdge x y).isPanic = false ∧ (s.getEdges x y).isPanic = false ∧
    (s.getEdgesForNode x).isPanic = false ∧ (s.getInEdgesForNode x).isPanic = false ∧ (s.getOutEdgesForNode x).isPanic = false ∧
    (s.getEdgesForNodes S).isPanic = false ∧ (s.getInEdgesForNodes S).isPanic = false ∧ (s.getOutEdgesForNodes S).isPanic = false ∧
    (s.getSuccessorNodes x).isPanic = false ∧ (s.getPredecessorNodes x).isPanic = false ∧ (s.getNeighborNodes x).isPanic = false ∧
    s.getDegreeForAllNodes.isPanic = false ∧ s.getInDegreeForAllNodes.isPanic = false ∧ s.getOutDegreeForAllNodes.isPanic = false ∧
    s.getWeightedDegreeForAllNodes.isPanic = false ∧ s.getWeightedInDegreeForAllNodes.isPanic = false ∧
    s.getWeightedOutDegreeForAllNodes.isPanic = false ∧ s.getAdjacencyTriplets.isPanic = false ∧
    -- derived graphs
    (s.getSubgraph S).isPanic = false ∧ s.reverse.isPanic = false ∧ (s.setAllEdgeWeights w).isPanic = false ∧
    s.toSingleEdges.isPanic = false ∧
    -- components
    s.connectedComponents.isPanic = false ∧ s.numberOfConnectedComponents.isPanic = false ∧
    (s.nodeConnectedComponent x).isPanic = false ∧ s.weaklyConnectedComponents.isPanic = false ∧
    s.stronglyConnectedComponents.isPanic = false ∧
    -- cluster
    (s.triangles names).isPanic = false ∧ (s.generalizedDegree names).isPanic = false ∧ s.transitivity.isPanic = false ∧
    (s.clusteringUnweighted names).isPanic = false ∧ (s.clusteringWeighted names).isPanic = false ∧
    -- centrality
    s.degreeCentrality.isPanic = false ∧ (s.betweenness weighted flag).isPanic = false ∧
    (s.closeness weighted flag).isPanic = false ∧ (s.eigenvector weighted maxIter tol).isPanic = false ∧
    -- community
    (louvainPartitions s weighted res thr perms).isPanic = false ∧
    -- shortest paths
    (s.singleSource weighted x target cutoff2 firstOnly withPaths).isPanic = false ∧
    (s.multiSource weighted sources target cutoff2 firstOnly withPaths).isPanic = false ∧
    (s.allPairs weighted target cutoff2 firstOnly withPaths).isPanic = false ∧
    (s.pathsInvolving x weighted).isPanic = false := by
  obtain ⟨a1, a2⟩ := C20_pair_queries_no_panic s h x y
  obtain ⟨b1, b2, b3⟩ := C20_node_edge_lists_no_panic s h x
  obtain ⟨c1, c2, c3⟩ := C20_node_set_queries_no_panic s S
  obtain ⟨d1, d2, d3⟩ := C20_adjacency_queries_no_panic s h x
  obtain ⟨e1, e2, e3, e4, e5, e6⟩ := C20_degree_maps_no_panic s h
  obtain ⟨f1, f2⟩ := C20_model_weighted_in_out_degree_maps_no_panic s h
  exact ⟨a1, a2, b1, b2, b3, c1, c2, c3, d1, d2, d3, e1, e2, e3, e4, f1, f2, e6,
    (C20_model_subgraph_no_panic s h S).1, (C20_model_reverse_no_panic s h).1,
    (C20_model_set_all_edge_weights_no_panic s h w).1, (C20_model_to_single_edges_no_panic s h).1,
    C20_model_connected_components_no_panic s h, C20_model_number_of_connected_components_no_panic s h,
    C20_model_node_connected_component_no_panic s h x, C20_model_weak_components_no_panic s h,
    C20_model_strong_components_no_panic s h,
    C20_model_triangles_no_panic s h names, C20_model_generalized_degree_no_panic s h names,
    C20_model_transitivity_no_panic s h, C20_model_clustering_unweighted_no_panic s h names,
    C20_model_clustering_weighted_float_no_panic s h names,
    e5, C20_model_betweenness_no_panic s h weighted flag, C20_model_closeness_any_no_panic s h weighted flag,
    C20_model_eigenvector_float_no_panic s h weighted maxIter tol,
    C20_model_louvain_no_panic s h weighted res thr perms,
    C20_model_single_source_any_no_panic s h weighted x target cutoff2 firstOnly withPaths,
    C20_model_multi_source_no_panic s h weighted sources target cutoff2 firstOnly withPaths,
    C20_model_all_pairs_no_panic s h weighted target cutoff2 firstOnly withPaths,
    C20_model_paths_involving_no_panic s h x weighted⟩

/-- the functions without an error channel in the crate (`-> Vec<T>`, `-> HashMap<T, f64>`), on names that exist, and
    `bfs_equal_size_partitions` for `k ≥ 1` -/
theorem C20_breadth_summary_names (s : Store) (h : s.wf = true) (x : Nat) (hx : s.hasNode x = true) (S : List Nat)
    (hS : ∀ y ∈ S, s.hasNode y = true) (k : Nat) (hk : 0 < k) :
    (s.getSuccessorsOrNeighbors x).isPanic = false ∧ (s.breadthFirstSearch x).isPanic = false ∧
    (s.squareClustering none).isPanic = false ∧ (s.squareClustering (some S)).isPanic = false ∧
    (s.bfsEqualSizePartitions k).isPanic = false :=
  ⟨C20_succ_or_nbrs_no_panic s h x hx, C20_model_bfs_no_panic s h x hx,
   C20_model_square_clustering_no_panic s h none (fun l hl => by cases hl),
   C20_model_square_clustering_no_panic s h (some S) (fun l hl => by cases hl; exact hS),
   C20_equal_size_no_panic s h k hk⟩

/-- `multi_source`, `all_pairs`, `get_all_shortest_paths_involving`: no hypothesis besides `wf` - both modes, any weights
    (negative and NaN included), absent sources / targets / names included -/
theorem C20_breadth_summary_paths (s : Store) (h : s.wf = true) (weighted : Bool)
    (sources : List Nat) (x : Nat) (target : Option Nat) (cutoff2 : Option Int) (firstOnly withPaths : Bool) :
    (s.multiSource weighted sources target cutoff2 firstOnly withPaths).isPanic = false ∧
    (s.allPairs weighted target cutoff2 firstOnly withPaths).isPanic = false ∧
    (s.pathsInvolving x weighted).isPanic = false :=
  C20_model_shortest_paths_no_panic_full s h weighted sources x target cutoff2 firstOnly withPaths

/-- generators, construction and the GraphML reader: no store is given, nothing is assumed -/
theorem C20_breadth_summary_constructors (n : Nat) (m : Int) (directed : Bool) (skips : List Int) (sp : Specs)
    (ns : List Node) (es : List Edge) (evs : List Xml.Event) :
    (completeGraph n directed).isPanic = false ∧ (fastGnp m directed skips).isPanic = false ∧
    karateGraph.isPanic = false ∧ (Store.newFrom sp ns es).isPanic = false ∧ (Xml.readEvents sp evs).isPanic = false :=
  ⟨(C20_model_complete_graph_no_panic n directed).1, C20_model_fast_gnp_no_panic m directed skips,
   C20_model_karate_no_panic, C20_model_new_from_no_panic sp ns es, C20_model_read_graphml_no_panic sp evs⟩

/-- in particular on the empty graph of EVERY GraphSpecs record -/
theorem C20_breadth_empty_graph (sp : Specs) (x : Nat) (S : List Nat) (names : Option (List Nat))
    (weighted : Bool) (target : Option Nat) (cutoff2 : Option Int) (firstOnly withPaths : Bool) (maxIter : Nat)
    (tol : Float) :
    ((Store.new sp).triangles names).isPanic = false ∧ (Store.new sp).transitivity.isPanic = false ∧
    ((Store.new sp).clusteringUnweighted names).isPanic = false ∧ ((Store.new sp).clusteringWeighted names).isPanic = false ∧
    (Store.new sp).connectedComponents.isPanic = false ∧ (Store.new sp).weaklyConnectedComponents.isPanic = false ∧
    ((Store.new sp).eigenvector weighted maxIter tol).isPanic = false ∧
    ((Store.new sp).allPairs weighted target cutoff2 firstOnly withPaths).isPanic = false ∧
    ((Store.new sp).multiSource weighted S target cutoff2 firstOnly withPaths).isPanic = false ∧
    ((Store.new sp).pathsInvolving x weighted).isPanic = false := by
  have h := C01_new_wf sp
  have hp := C20_breadth_summary_paths (Store.new sp) h weighted S x target cutoff2 firstOnly withPaths
  exact ⟨C20_model_triangles_no_panic _ h names, C20_model_transitivity_no_panic _ h,
    C20_model_clustering_unweighted_no_panic _ h names, C20_model_clustering_weighted_float_no_panic _ h names,
    C20_model_connected_components_no_panic _ h, C20_model_weak_components_no_panic _ h,
    C20_model_eigenvector_float_no_panic _ h weighted maxIter tol, hp.2.1, hp.1, hp.2.2⟩

/-- non-vacuity: a directed multigraph with parallel arcs, a self-loop, a NEGATIVE and a NaN weight and an isolated node,
    and an undirected graph with a self-loop, satisfy the only hypothesis (`wf`); the second one also satisfies `costsOk`
    (the hypothesis of the value-level lemmas `C20B.singleSource_ok` / `C20B.idxArcs_nonneg_of_wf`) -/
example :
    (Store.run ⟨true, true, true, .keepFirst, .create, .drop⟩
      [Op.addEdge ⟨1, 2, some 2, none⟩, Op.addEdge ⟨1, 2, some (-3), none⟩, Op.addEdge ⟨2, 2, none, none⟩,
       Op.addNode ⟨7, none⟩]).1.wf = true ∧
    (Store.run ⟨false, false, true, .keepFirst, .create, .drop⟩
      [Op.addEdge ⟨3, 1, some 2, none⟩, Op.addEdge ⟨3, 3, some 0, none⟩, Op.addNode ⟨7, none⟩]).1.wf = true ∧
    (∀ e ∈ (Store.run ⟨false, false, true, .keepFirst, .create, .drop⟩
      [Op.addEdge ⟨3, 1, some 2, none⟩, Op.addEdge ⟨3, 3, some 0, none⟩, Op.addNode ⟨7, none⟩]).1.allEdges,
        ∃ c, e.w = some c ∧ 0 ≤ c) := by
  refine ⟨by decide +kernel, by decide +kernel, ?_⟩
  decide

end Graphrs
