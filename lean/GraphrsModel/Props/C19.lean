/-
  C19 — the GraphML reader never panics: any input yields Ok(valid graph) or Err.

  The model (`Xml.readLoop` / `Xml.readEvents`, Model/GraphML.lean) is the reader loop of
  src/readwrite/graphml.rs over quick-xml's event stream, with every `?` / error return explicit.
  It is a total function by structural recursion on the event list (termination), its outcome is
  never a panic, and an `Ok` result is built from exactly the node and edge elements the document
  declares, in document order, with the declared directedness.
-/
import GraphrsModel.ObsXml
namespace Graphrs
open Xml

/-- the events up to (not including) the first `Eof` -/
def untilEof : List Event → List Event
  | [] => []
  | .eof :: _ => []
  | ev :: rest => ev :: untilEof rest

/-! ### helper lemmas -/

theorem Store.newFrom_not_panic (sp : Specs) (ns : List Node) (es : List Edge) :
    (Store.newFrom sp ns es).isPanic = false := by
  unfold Store.newFrom
  split <;> rfl

/-- the step function of the `docNodes` fold -/
private def fN : Option (List Nat) → Event → Option (List Nat) := fun acc ev => do
    let l ← acc
    match ev with
    | .start n a | .empty n a => if n == sNode then (do let a ← a; let i ← attrGet a sId; pure (l ++ [i])) else pure l
    | _ => pure l

/-- the step function of the `docEdges` fold -/
private def fE : Option (List (Nat × Nat)) → Event → Option (List (Nat × Nat)) := fun acc ev => do
    let l ← acc
    match ev with
    | .start n a | .empty n a =>
      if n == sEdge then (do let a ← a; let u ← attrGet a sSource; let v ← attrGet a sTarget; pure (l ++ [(u, v)])) else pure l
    | _ => pure l

/-- the step function of the `docDirected` fold -/
private def fD : Bool → Event → Bool := fun d ev =>
    match ev with
    | .start n (some a) | .empty n (some a) =>
      if n == sGraph then (if attrGet a sEdgeDefault == some sUndirected then false
                           else if attrGet a sEdgeDefault == some sDirected then true else d) else d
    | _ => d

private theorem docNodes_eq (evs : List Event) : docNodes evs = evs.foldl fN (some []) := rfl
private theorem docEdges_eq (evs : List Event) : docEdges evs = evs.foldl fE (some []) := rfl
private theorem docDirected_eq (evs : List Event) : docDirected evs = evs.foldl fD true := rfl

theorem Xml.setLastWeight_append (l : List Edge) (e : Edge) (w : W) :
    setLastWeight (l ++ [e]) w = l ++ [{ e with w := w }] := by
  simp [setLastWeight]

theorem Xml.setLastWeight_ends (l : List Edge) (w : W) :
    (setLastWeight l w).map (fun e => (e.u, e.v)) = l.map (fun e => (e.u, e.v)) := by
  rcases List.eq_nil_or_concat l with h | ⟨l', e, h⟩
  · subst h; rfl
  · subst h
    rw [List.concat_eq_append, setLastWeight_append]
    simp

private abbrev ends (l : List Edge) : List (Nat × Nat) := l.map fun e => (e.u, e.v)
private abbrev names (l : List Node) : List Nat := l.map (·.name)

/-- `Eof` is the only event on which the loop breaks -/
private theorem readStep_none (st0 : RState) (ev : Event) (h : readStep st0 ev = .ok none) : ev = .eof := by
  unfold readStep at h
  cases ev <;> simp only [] at h
  all_goals (try rfl)
  all_goals (exfalso; revert h; repeat' split)
  all_goals (first | simp | skip)

private theorem addNode_ok (st st' : RState) (attrs : Attrs) (h : addNode st attrs = .ok st') :
    ∃ a i, attrs = some a ∧ attrGet a sId = some i ∧ st' = { st with nodes := st.nodes ++ [⟨i, none⟩] } := by
  cases attrs with
  | none => cases h
  | some a =>
    simp only [addNode] at h
    split at h
    · cases h
    · next i hi => exact ⟨a, i, rfl, hi, by cases h; rfl⟩

private theorem addEdge_ok (st st' : RState) (attrs : Attrs) (h : addEdge st attrs = .ok st') :
    ∃ a u v, attrs = some a ∧ attrGet a sSource = some u ∧ attrGet a sTarget = some v ∧
      st' = { st with edges := st.edges ++ [⟨u, v, none, none⟩] } := by
  cases attrs with
  | none => cases h
  | some a =>
    simp only [addEdge] at h
    split at h
    · next u v hu hv => exact ⟨a, u, v, rfl, hu, hv, by cases h; rfl⟩
    · cases h

private theorem keyElem_ok (st st' : RState) (attrs : Attrs) (h : keyElem st attrs = .ok st') :
    ∃ a k, attrs = some a ∧ st' = { st with weightKey := k } := by
  unfold keyElem at h
  split at h
  · cases h
  · next a =>
    split at h
    · split at h
      · next i _ => exact ⟨a, i, rfl, by cases h; rfl⟩
      · exact ⟨a, st.weightKey, rfl, by cases h; rfl⟩
    · exact ⟨a, st.weightKey, rfl, by cases h; rfl⟩

private theorem graphElem_ok (st st' : RState) (attrs : Attrs) (h : graphElem st attrs = .ok st') :
    ∃ a, attrs = some a ∧ st' = { st with directed := fD st.directed (.start sGraph (some a)) } := by
  unfold graphElem at h
  split at h
  · cases h
  · next a =>
    split at h
    · cases h
    · next v hv =>
      refine ⟨a, rfl, ?_⟩
      by_cases h1 : v = sDirected
      · subst h1; simp [sDirected] at h ⊢; simp [fD, hv, sDirected, sUndirected, ← h]
      · by_cases h2 : v = sUndirected
        · subst h2; simp [sDirected, sUndirected] at h ⊢; simp [fD, hv, sUndirected, ← h]
        · simp [h1, h2] at h

private theorem cont_some (r : Except ErrKind RState) (st' : RState)
    (h : (match r with | .ok s => (Except.ok (some s) : Except ErrKind (Option RState)) | .error e => .error e) = .ok (some st')) :
    r = .ok st' := by
  cases r <;> simp_all

/-- one iteration of the reader loop adds exactly what the event declares -/
private theorem readStep_some (st0 st' : RState) (ev : Event) (h : readStep st0 ev = .ok (some st')) :
    ev ≠ .eof ∧
    fN (some (names st0.nodes)) ev = some (names st'.nodes) ∧
    fE (some (ends st0.edges)) ev = some (ends st'.edges) ∧
    st'.directed = fD st0.directed ev := by
  unfold readStep at h
  cases ev with
  | eof => simp at h
  | error => simp at h
  | other => simp at h; subst h; simp [fN, fE, fD]
  | endTag n => simp at h; subst h; simp [fN, fE, fD]
  | text v =>
    simp only [] at h
    refine ⟨by simp, ?_⟩
    split at h
    · split at h
      · split at h
        · cases h
        · simp at h; subst h; simp [fN, fE, fD, setLastWeight_ends]
      · simp at h; subst h; simp [fN, fE, fD]
    · simp at h; subst h; simp [fN, fE, fD]
  | empty name attrs =>
    simp only [] at h
    refine ⟨by simp, ?_⟩
    split at h
    · next hn =>
      obtain ⟨a, i, rfl, hi, rfl⟩ := addNode_ok _ _ _ (cont_some _ _ h)
      simp at hn; subst hn
      simp [fN, fE, fD, hi, sNode, sEdge, sGraph]
    · next hn =>
      split at h
      · next he =>
        obtain ⟨a, u, v, rfl, hu, hv, rfl⟩ := addEdge_ok _ _ _ (cont_some _ _ h)
        simp at he; subst he
        simp [fN, fE, fD, hu, hv, sNode, sEdge, sGraph]
      · next he =>
        split at h
        · next hk =>
          obtain ⟨a, k, rfl, rfl⟩ := keyElem_ok _ _ _ (cont_some _ _ h)
          simp at hk; subst hk
          simp [fN, fE, fD, sNode, sEdge, sGraph, sKey]
        · next hk =>
          split at h
          · next hg =>
            obtain ⟨a, rfl, rfl⟩ := graphElem_ok _ _ _ (cont_some _ _ h)
            simp at hg; subst hg
            simp [fN, fE, fD, sNode, sEdge, sGraph]
          · next hg =>
            simp at h; subst h
            simp at hn he hg
            cases attrs <;> simp [fN, fE, fD, hn, he, hg]
  | start name attrs =>
    simp only [] at h
    refine ⟨by simp, ?_⟩
    split at h
    · next hg =>
      obtain ⟨a, rfl, rfl⟩ := graphElem_ok _ _ _ (cont_some _ _ h)
      simp at hg; subst hg
      simp [fN, fE, fD, sNode, sEdge, sGraph]
    · next hg =>
      split at h
      · next hn =>
        obtain ⟨a, i, rfl, hi, rfl⟩ := addNode_ok _ _ _ (cont_some _ _ h)
        simp at hn; subst hn
        simp [fN, fE, fD, hi, sNode, sEdge, sGraph]
      · next hn =>
        split at h
        · next he =>
          obtain ⟨a, u, v, rfl, hu, hv, rfl⟩ := addEdge_ok _ _ _ (cont_some _ _ h)
          simp at he; subst he
          simp [fN, fE, fD, hu, hv, sNode, sEdge, sGraph]
        · next he =>
          split at h
          · next hk =>
            obtain ⟨a, k, rfl, rfl⟩ := keyElem_ok _ _ _ (cont_some _ _ h)
            simp at hk; subst hk
            simp [fN, fE, fD, sNode, sEdge, sGraph, sKey]
          · next hk =>
            simp at hn he hg
            split at h
            · split at h
              · cases h
              · simp at h; subst h
                split <;> simp [fN, fE, fD, hn, he, hg]
            · simp at h; subst h
              cases attrs <;> simp [fN, fE, fD, hn, he, hg]

private theorem untilEof_cons (ev : Event) (rest : List Event) (h : ev ≠ .eof) :
    untilEof (ev :: rest) = ev :: untilEof rest := by
  cases ev <;> first | rfl | exact absurd rfl h

private theorem content_gen (evs : List Event) (st0 st : RState) (h : readLoop st0 evs = .ok st) :
    (untilEof evs).foldl fN (some (names st0.nodes)) = some (names st.nodes) ∧
    (untilEof evs).foldl fE (some (ends st0.edges)) = some (ends st.edges) ∧
    st.directed = (untilEof evs).foldl fD st0.directed := by
  induction evs generalizing st0 with
  | nil =>
    simp only [readLoop, Except.ok.injEq] at h
    subst h
    simp [untilEof]
  | cons ev rest ih =>
    simp only [readLoop] at h
    split at h
    · cases h
    · next hs =>
      have := readStep_none _ _ hs
      subst this
      simp only [Except.ok.injEq] at h
      subst h
      simp [untilEof]
    · next st' hs =>
      obtain ⟨hne, h1, h2, h3⟩ := readStep_some _ _ _ hs
      obtain ⟨i1, i2, i3⟩ := ih st' h
      rw [untilEof_cons _ _ hne]
      simp only [List.foldl_cons, h1, h2, ← h3]
      exact ⟨i1, i2, i3⟩

/-- **totality**: for every event list and every specs the outcome is a graph or an error -/
theorem C19_total (sp : Specs) (evs : List Event) : (readEvents sp evs).isPanic = false := by
  unfold readEvents
  split
  · rfl
  · exact Store.newFrom_not_panic _ _ _

/-- an `Ok` answer is `new_from_nodes_and_edges` of what the loop collected, under the supplied specs with the
    declared directedness -/
theorem C19_ok_is_newFrom (sp : Specs) (evs : List Event) (s : Store) (h : readEvents sp evs = .ok s) :
    ∃ st, readLoop {} evs = .ok st ∧ Store.newFrom { sp with directed := st.directed } st.nodes st.edges = .ok s := by
  unfold readEvents at h
  split at h
  · cases h
  · next st hst => exact ⟨st, hst, h⟩

/-- **content**: what the loop collects is exactly what the document declares - every node element and every edge
    element, in document order, nothing skipped, nothing invented - and the last <graph> declaration decides directedness -/
theorem C19_content (evs : List Event) (st : RState) (h : readLoop {} evs = .ok st) :
    docNodes (untilEof evs) = some (st.nodes.map (·.name)) ∧
    docEdges (untilEof evs) = some (st.edges.map fun e => (e.u, e.v)) ∧
    st.directed = docDirected (untilEof evs) := by
  rw [docNodes_eq, docEdges_eq, docDirected_eq]
  exact content_gen evs {} st h

/-- malformed node / edge / graph elements are errors, never silently accepted -/
theorem C19_malformed_is_error (evs : List Event) (h : docNodes (untilEof evs) = none ∨ docEdges (untilEof evs) = none) :
    ∃ k, readLoop {} evs = .error k := by
  cases hr : readLoop {} evs with
  | error k => exact ⟨k, rfl⟩
  | ok st =>
    obtain ⟨h1, h2, _⟩ := C19_content evs st hr
    rcases h with h | h
    · rw [h] at h1; cases h1
    · rw [h] at h2; cases h2

/-- non-vacuity: an element directly after a weight <data> start tag is not skipped (the defect repaired in the reader) -/
example :
    (match readLoop {} [.start sGraph (some [(sEdgeDefault, sUndirected)]), .start sEdge (some [(sSource, 100), (sTarget, 101)]),
        .start sData (some [(sKey, sWeight)]), .empty sNode (some [(sId, 102)]), .text (some (some 5)), .endTag sData, .endTag sEdge, .eof] with
     | .ok st => st.nodes.map (·.name) = [102] ∧ st.edges.map (·.w) = [none] ∧ st.directed = false
     | .error _ => False) := by
  refine (?_ : (match (Except.ok ⟨false, [⟨102, none⟩], [⟨100, 101, none, none⟩], sEdge, sWeight, false⟩ : Except ErrKind RState) with
     | .ok st => st.nodes.map (·.name) = [102] ∧ st.edges.map (·.w) = [none] ∧ st.directed = false
     | .error _ => False))
  decide

end Graphrs
