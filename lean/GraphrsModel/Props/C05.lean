/-
  C05 — betweenness centrality equals its definition.

  The implementation's values are compared on every run with `bcSpec` (Spec/Centrality.lean): the definition by
  enumeration of all shortest paths.  Proved here: the shape of the specification (one entry per node, values ≥ 0,
  endpoints never count, the scaling rule incl. n ≤ 2 and the halving on undirected graphs) and the scaling /
  bookkeeping facts of the model of the code (`bcScale`, `accumulate`).  The identification of the Brandes
  accumulation with the definition for all graphs is NOT proved (stated below); it is decided per run by the
  definition-level comparison on explored graphs.
-/
import GraphrsModel.ObsCen
import Mathlib.Algebra.Order.Field.Rat
import Mathlib.Tactic.Positivity
import Mathlib.Tactic.Linarith
namespace Graphrs

private theorem foldl_inv {α β} (P : α → Prop) (f : α → β → α) (hf : ∀ a b, P a → P (f a b))
    (l : List β) (a : α) (ha : P a) : P (l.foldl f a) := by
  induction l generalizing a with
  | nil => simpa using ha
  | cons b l ih => simp only [List.foldl_cons]; exact ih _ (hf a b ha)

private theorem foldl_add_nonneg (l : List Rat) (hl : ∀ x ∈ l, 0 ≤ x) (a : Rat) (ha : 0 ≤ a) :
    0 ≤ l.foldl (· + ·) a := by
  induction l generalizing a with
  | nil => simpa using ha
  | cons b l ih =>
    simp only [List.foldl_cons]
    exact ih (fun x hx => hl x (List.mem_cons_of_mem _ hx)) _ (add_nonneg ha (hl b (List.mem_cons_self ..)))

private theorem sumRat_nonneg (l : List Rat) (hl : ∀ x ∈ l, 0 ≤ x) : 0 ≤ sumRat l :=
  foldl_add_nonneg l hl 0 (le_refl 0)

private theorem foldl_add_zero (l : List Rat) (hl : ∀ x ∈ l, x = 0) : l.foldl (· + ·) (0 : Rat) = 0 := by
  induction l with
  | nil => rfl
  | cons b l ih =>
    simp only [List.foldl_cons]
    rw [hl b (List.mem_cons_self ..), add_zero]
    exact ih (fun x hx => hl x (List.mem_cons_of_mem _ hx))

/-- every path produced by `tightPaths` starts at the source -/
theorem tightPaths_head (arcs : Arcs) (d : List (Nat × Int)) (s : Nat) :
    ∀ (fuel t : Nat) (p : List Nat), p ∈ Arcs.tightPaths arcs d s fuel t → p.head? = some s := by
  intro fuel
  induction fuel with
  | zero =>
    intro t p hp
    unfold Arcs.tightPaths at hp
    split at hp
    · simp at hp; subst hp; rfl
    · simp at hp
  | succ fuel ih =>
    intro t p hp
    unfold Arcs.tightPaths at hp
    split at hp
    · simp at hp; subst hp; rfl
    · split at hp
      · simp at hp
      · simp only [List.mem_flatMap, List.mem_map] at hp
        obtain ⟨y, _, p', hp', e⟩ := hp
        have := ih y p' hp'
        subst e
        cases p' with
        | nil => simp at this
        | cons a l => simpa using this

/-- `get_scale`, all cases -/
theorem C05_scale_rule (n : Nat) (normalized directed : Bool) :
    bcScale n normalized directed =
      (if normalized then (if n ≤ 2 then none else some (1 / (((n : Rat) - 1) * ((n : Rat) - 2))))
       else if directed then none else some (1 / 2)) := by
  rfl

/-- the accumulation keeps one slot per node -/
theorem C05_accumulate_length (bc : List Rat) (r : SSR) : (accumulate bc r).length = bc.length := by
  unfold accumulate
  apply foldl_inv (fun (acc : List Rat × List Rat) => acc.1.length = bc.length)
  · rintro ⟨b, dl⟩ w h
    simp only at h ⊢
    split
    · rw [List.length_set]; exact h
    · exact h
  · rfl

set_option linter.unusedVariables false in
/-- the source of a stage never receives credit from that stage (`hnd` is not needed) -/
theorem C05_accumulate_source_untouched (bc : List Rat) (r : SSR) (hnd : r.S.Nodup) :
    (accumulate bc r)[r.source]? = bc[r.source]? := by
  unfold accumulate
  apply foldl_inv (fun (acc : List Rat × List Rat) => acc.1[r.source]? = bc[r.source]?)
  · rintro ⟨b, dl⟩ w h
    simp only at h ⊢
    split
    · rename_i hne
      rw [List.getElem?_set_ne (by simpa using hne)]; exact h
    · exact h
  · rfl

/-- the definition has exactly one entry per node -/
theorem C05_bcSpec_keys (nodes : List Nat) (arcs : Arcs) (directed normalized : Bool) :
    (bcSpec nodes arcs directed normalized).map (·.1) = nodes := by
  unfold bcSpec
  simp only [List.map_map]
  conv => rhs; rw [← List.map_id nodes]
  apply List.map_congr_left
  intro u _
  rfl

/-- every value of the definition is non-negative -/
theorem C05_bcSpec_nonneg (nodes : List Nat) (arcs : Arcs) (directed normalized : Bool) :
    ∀ kv ∈ bcSpec nodes arcs directed normalized, 0 ≤ kv.2 := by
  intro kv hkv
  unfold bcSpec at hkv
  simp only [List.mem_map] at hkv
  obtain ⟨v, _, rfl⟩ := hkv
  simp only
  apply mul_nonneg
  · apply sumRat_nonneg
    intro x hx
    rw [List.mem_map] at hx
    obtain ⟨ps, _, rfl⟩ := hx
    split
    · exact le_refl 0
    · split
      · exact le_refl 0
      · positivity
  · split
    · split
      · exact zero_le_one
      · rename_i hn
        have h2 : (3 : Rat) ≤ (nodes.length : Rat) := by
          have : 3 ≤ nodes.length := by omega
          exact_mod_cast this
        apply div_nonneg zero_le_one
        apply mul_nonneg <;> linarith
    · split
      · exact zero_le_one
      · positivity

/-- for n ≤ 2 every value is 0 (so the scale is irrelevant) when the nodes are distinct:
    a path with an interior node needs three distinct ... stated for the empty and the one-node graph -/
theorem C05_bcSpec_tiny (arcs : Arcs) (directed normalized : Bool) (x : Nat) :
    bcSpec [] arcs directed normalized = [] ∧ bcSpec [x] arcs directed normalized = [(x, 0)] := by
  refine ⟨rfl, ?_⟩
  unfold bcSpec
  simp only [List.map_cons, List.map_nil, List.cons.injEq, Prod.mk.injEq, true_and, and_true]
  rw [show ∀ (a b : Rat), a = 0 → a * b = 0 from fun a b h => by rw [h, zero_mul]]
  apply foldl_add_zero
  · intro y hy
    simp only [List.flatMap_cons, List.flatMap_nil, List.append_nil, List.map_map, List.mem_map] at hy
    obtain ⟨kv, _, rfl⟩ := hy
    simp only [Function.comp]
    split
    · rfl
    · rename_i p ps heq
      have hh := tightPaths_head arcs _ x _ _ p (by rw [heq]; exact List.mem_cons_self ..)
      simp [hh]

/-- The full statement of C05 at model level, as first written (kept visible). Quantified over *arbitrary* `Store` records it
    is false (`C05_model_eq_spec_unweighted_counterexample` in Props/C05Full.lean: a record with a duplicated traversal entry);
    for every store reachable through the mutation API - every GraphSpecs record, every history - it is proved:
    `C05_full_statement_reachable` (Props/C05Full.lean). -/
def C05_full_statement : Prop :=
  ∀ (s : Store) (weighted normalized : Bool),
    (weighted = true → ∀ e ∈ s.allEdges, ∃ w, e.w = some w ∧ 0 < w) →
    ∀ out, s.betweenness weighted normalized = .ok out →
      ∀ kv ∈ out, alookup (bcSpec s.getAllNodeNames (s.abs.arcs s.specs.directed weighted) s.specs.directed normalized) kv.1 = some kv.2

/-- non-vacuity: the path 1 - 2 - 3 (undirected): node 2 lies on the only shortest path between 1 and 3 -/
example : bcSpec [1, 2, 3] [(1, 2, 1), (2, 1, 1), (2, 3, 1), (3, 2, 1)] false false = [(1, 0), (2, 1), (3, 0)] := by
  decide +kernel

end Graphrs
