import GraphrsModel.ObsCen
namespace Graphrs
/-- placeholder while the framework is brought up: replaced by the property theorems -/
theorem C05_bcScale_small (d : Bool) : bcScale 2 true d = none := rfl
end Graphrs
