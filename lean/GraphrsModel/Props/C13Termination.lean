/-
  C13 — Louvain: the local-moving loop of the step-level model terminates (in exact arithmetic).

  `LouvainFull.sweeps` is `while nb_moves > 0 { for u in shuffled { visit u } }` with a fuel argument; it returns
  `.ok none` when the fuel runs out.  This file proves that on every good level graph (single-edge, no negative
  weight), for every `m > 0`, every resolution `res ≥ 0` and every visiting order over the node names, the fuel
  `k^k + 1` (k = number of nodes of the level) always suffices: every accepted move makes the assignment of nodes to
  communities strictly better in the lexicographic order (potential, then smaller community ids), where the potential

      Φ(a) = Σ_c termUndirected m res L_c D_c        (resp. Σ_c termDirected m res L_c Out_c In_c)

  is the modularity-shaped sum of `Props/C13.lean` (`C13_potential_is_sum_of_terms_*` below), and there are only `k^k`
  assignments.  The tie-break component is necessary: the candidate scan visits communities in increasing id and starts
  from `(cur, 0)`, so a community with a smaller id than the current one and exactly the same gain is chosen - a move
  that leaves the potential unchanged.

  Nothing is assumed about `m` beyond `m > 0` (the code passes the total edge weight), and nothing relates the degree
  maps to the edge weights: the argument only needs the `stot*` bookkeeping to be the per-community sums of whatever
  non-negative degree maps the state carries (`LT.TInv`), which `get_degree_information` establishes.
-/
import GraphrsModel.Lemmas.LouvainTermInit
import GraphrsModel.Lemmas.LouvainNoPanic
import Mathlib.Algebra.BigOperators.Field
namespace Graphrs
open LouvainFull
namespace LT

/-! ### one pass and the loop -/

theorem pass_step {lv : Level} {n k : Nat} (hg : LF.GoodLevel lv n k) (hwf : lv.g.wf = true)
    (hmulti : lv.g.specs.multi = false) {m res : Rat} (hm : 0 < m) (hres : 0 ≤ res)
    {deg0 in0 out0 : List (Nat × Rat)}
    (hnn : ∀ x, 0 ≤ dgOf deg0 x ∧ 0 ≤ dgOf in0 x ∧ 0 ≤ dgOf out0 x)
    (order : List Nat) (st st1 : LState) (hs : LF.SInv lv k st) (ht : TInv lv k deg0 in0 out0 st)
    (hf : order.foldl (fun acc u => do let s ← acc; visit lv m res s u) (.ok st) = .ok st1) :
    TInv lv k deg0 in0 out0 st1 ∧ Q (Phi lv k m res deg0 in0 out0) k st st1 := by
  have := LF.foldl_ok_inv
    (fun a => LF.SInv lv k a ∧ TInv lv k deg0 in0 out0 a ∧ Q (Phi lv k m res deg0 in0 out0) k st a) _ ?_ order ?_
    st st1 hf ⟨hs, ht, Q.refl _ _ _⟩
  · exact ⟨this.2.1, this.2.2⟩
  · intro o x b hb
    cases o with
    | ok a => exact ⟨a, rfl⟩
    | err e => simp [bind, Outcome.bind] at hb
    | panic e => simp [bind, Outcome.bind] at hb
  · intro a x b _ hb ha
    have hb' : visit lv m res a x = .ok b := hb
    obtain ⟨h1, h2⟩ := visit_step hg hwf hmulti hm hres hnn ha.1 ha.2.1 hb'
    exact ⟨ha.1.visit hg hb', h1, ha.2.2.trans h2⟩

theorem edges_lt {lv : Level} {n k : Nat} (hg : LF.GoodLevel lv n k) (hwf : lv.g.wf = true) :
    ∀ e ∈ lv.g.allEdges, e.u < k ∧ e.v < k := by
  intro e he
  obtain ⟨h1, h2⟩ := edge_names lv.g hwf e he
  exact ⟨(hg.names_iff e.u).1 h1, (hg.names_iff e.v).1 h2⟩

theorem Phi_congr {lv : Level} {n k : Nat} (hg : LF.GoodLevel lv n k) (hwf : lv.g.wf = true) (m res : Rat)
    (deg0 in0 out0 : List (Nat × Rat)) (a b : Nat → Nat) (h : ∀ x, x < k → a x = b x) :
    Phi lv k m res deg0 in0 out0 a = Phi lv k m res deg0 in0 out0 b := by
  unfold Phi potU potD
  split
  · exact pot_congr (edges_lt hg hwf) _ _ _ _ _ h
  · exact pot_congr (edges_lt hg hwf) _ _ _ _ _ h

theorem asg_lt {lv : Level} {k : Nat} {st : LState} (hs : LF.SInv lv k st) (x : Nat) (hx : x < k) : asg st x < k := by
  obtain ⟨c, hc⟩ := hs.n2c_total x hx
  have := (hs.n2c_lt x c hc).2
  simp [asg, hc, this]

theorem sweeps_terminate_aux {lv : Level} {n k : Nat} (hg : LF.GoodLevel lv n k) (hwf : lv.g.wf = true)
    (hmulti : lv.g.specs.multi = false) {m res : Rat} (hm : 0 < m) (hres : 0 ≤ res)
    {deg0 in0 out0 : List (Nat × Rat)}
    (hnn : ∀ x, 0 ≤ dgOf deg0 x ∧ 0 ≤ dgOf in0 x ∧ 0 ≤ dgOf out0 x)
    (order : List Nat) (ho : ∀ u ∈ order, u ∈ lv.g.names) :
    ∀ (N : Nat) (st : LState), LF.SInv lv k st → LF.DegOK lv.g k st.di → TInv lv k deg0 in0 out0 st →
      mu (Phi lv k m res deg0 in0 out0) k (asg st) < N →
      ∀ fuel, N ≤ fuel → ∃ st', sweeps lv m res order fuel st = .ok (some st') := by
  intro N
  induction N with
  | zero => intro st _ _ _ h; exact absurd h (Nat.not_lt_zero _)
  | succ N ih =>
    intro st hs hdeg ht hmu fuel hfuel
    obtain ⟨f, rfl⟩ : ∃ f, fuel = f + 1 := ⟨fuel - 1, by omega⟩
    have hs0 : LF.SInv lv k { st with moves := 0 } :=
      ⟨hs.part_len, hs.inner_len, hs.n2c_total, hs.n2c_lt, hs.inner_iff, hs.inner_nodup, hs.part_iff, hs.part_nodup⟩
    have ht0 : TInv lv k deg0 in0 out0 { st with moves := 0 } :=
      ⟨ht.deg_eq, ht.in_eq, ht.out_eq, ht.stotU, ht.stotD⟩
    obtain ⟨st1, h1, hs1, hd1⟩ := LF.pass_exists hg hwf hmulti m res order ho { st with moves := 0 } hs0 hdeg
    obtain ⟨ht1, hq⟩ := pass_step hg hwf hmulti hm hres hnn order _ st1 hs0 ht0 h1
    unfold sweeps
    simp only [bind, Outcome.bind] at h1 ⊢
    rw [h1]
    by_cases hmv : st1.moves > 0
    · simp only [hmv, if_true]
      have hbetter : Better (Phi lv k m res deg0 in0 out0) k (asg st1) (asg st) := by
        rcases hq with ⟨h2, _⟩ | ⟨_, h2⟩
        · simp only at h2; omega
        · exact h2
      have hlt := mu_lt (Phi_congr hg hwf m res deg0 in0 out0) (asg_lt hs1) hbetter
      exact ih st1 hs1 hd1 ht1 (by omega) f (by omega)
    · simp only [hmv, if_false]
      exact ⟨_, rfl⟩

end LT

open _root_.Graphrs.LT

/-- **C13 (termination of the local-moving loop).**  On a good level graph `lv` with `k` nodes (well-formed,
    single-edge, no negative stored weight), for `m > 0`, `res ≥ 0`, every visiting order over the node names and every
    state `st` satisfying the structural invariant `SInv`, the shape invariant `DegOK` and the bookkeeping invariant
    `TInv` (non-negative degree maps `deg0 / in0 / out0`; `stot*` = per-community degree sums), `sweeps` returns
    `some _` for every fuel `≥ k^k + 1`. -/
theorem C13_sweeps_terminate {lv : Level} {n k : Nat} (hg : LF.GoodLevel lv n k) (hwf : lv.g.wf = true)
    (hmulti : lv.g.specs.multi = false) {m res : Rat} (hm : 0 < m) (hres : 0 ≤ res)
    {deg0 in0 out0 : List (Nat × Rat)}
    (hnn : ∀ x, 0 ≤ dgOf deg0 x ∧ 0 ≤ dgOf in0 x ∧ 0 ≤ dgOf out0 x)
    (order : List Nat) (ho : ∀ u ∈ order, u ∈ lv.g.names)
    (st : LState) (hs : LF.SInv lv k st) (hdeg : LF.DegOK lv.g k st.di) (ht : TInv lv k deg0 in0 out0 st) :
    ∀ fuel, k ^ k + 1 ≤ fuel → ∃ st', sweeps lv m res order fuel st = .ok (some st') :=
  sweeps_terminate_aux hg hwf hmulti hm hres hnn order ho (k ^ k + 1) st hs hdeg ht
    (Nat.lt_succ_of_le (mu_le _ k _))

/-! ### the initial state of `compute_one_level` -/

namespace LT

/-- the state `compute_one_level` starts from: every node in its own community -/
def initState (partition : List (List Nat)) (k : Nat) (di : DegInfo) : LState :=
  { part := partition, inner := (List.range k).map fun n => [n], node2com := (List.range k).map fun n => (n, n),
    di := di, improvement := false, moves := 0 }

theorem csum_id {k : Nat} {a : Nat → Nat} (h : ∀ x, x < k → a x = x) (p : Nat → Rat) (c : Nat) (hc : c < k) :
    csum k a p c = p c := by
  unfold csum
  have : ∀ x ∈ Finset.range k, (if a x = c then p x else 0) = (if x = c then p x else 0) := by
    intro x hx
    rw [h x (Finset.mem_range.1 hx)]
  rw [Finset.sum_congr rfl this, Finset.sum_ite_eq' (Finset.range k) c p, if_pos (Finset.mem_range.2 hc)]

theorem asg_init (partition : List (List Nat)) (k : Nat) (di : DegInfo) (x : Nat) (hx : x < k) :
    asg (initState partition k di) x = x := by
  unfold asg initState
  simp only
  rw [C09M.alookup_map_self, if_pos (List.mem_range.2 hx)]
  rfl

theorem TInv_init (lv : Level) (partition : List (List Nat)) (k : Nat) (di : DegInfo)
    (hU : lv.g.specs.directed = false → ∀ c, c < k → getR di.stot c = dgOf di.deg c)
    (hD : lv.g.specs.directed = true → ∀ c, c < k → getR di.stotIn c = dgOf di.inDeg c ∧ getR di.stotOut c = dgOf di.outDeg c) :
    TInv lv k di.deg di.inDeg di.outDeg (initState partition k di) := by
  refine ⟨rfl, rfl, rfl, ?_, ?_⟩
  · intro hd c hc
    rw [csum_id (asg_init partition k di) _ c hc]
    exact hU hd c hc
  · intro hd c hc
    rw [csum_id (asg_init partition k di) _ c hc, csum_id (asg_init partition k di) _ c hc]
    exact hD hd c hc

end LT

/-- **C13 (termination, `compute_one_level`).**  On a good level graph without negative weights, with the fuel
    `k^k + 1` the loop started from the all-singletons state always finishes, so `computeOneLevel` returns `none` only
    for the other reason it has (`risky`: two candidate gains too close for the `f64` code to be predictable), never
    because the fuel ran out. -/
theorem C13_computeOneLevel_terminates {lv : Level} {n k : Nat} (hg : LF.GoodLevel lv n k) (hwf : lv.g.wf = true)
    (hmulti : lv.g.specs.multi = false) (hw : ∀ e ∈ lv.g.allEdges, ∀ w, e.w = some w → 0 ≤ w)
    {partition : List (List Nat)} (hin : LF.InputOK lv k partition)
    {m res : Rat} (hm : 0 < m) (hres : 0 ≤ res) (perm : List Nat) :
    ∃ di, degreeInformation lv.g k = .ok di ∧
      ∀ fuel, k ^ k + 1 ≤ fuel →
        ∃ st, sweeps lv m res (perm.filterMap fun i => lv.g.getAllNodeNames[i]?) fuel (initState partition k di) = .ok (some st) ∧
          computeOneLevel lv m res partition perm fuel =
            .ok (if st.risky then none
                 else some (st.part.filter (!·.isEmpty), st.inner.filter (!·.isEmpty), st.improvement)) := by
  have hnames : ∀ x, x < k → x ∈ lv.g.names := fun x hx => (hg.names_iff x).2 hx
  obtain ⟨di, hdi, hdeg, hU, hD, hnn⟩ := degreeInformation_spec lv.g hwf k hnames hw
  refine ⟨di, hdi, ?_⟩
  intro fuel hfuel
  have ho : ∀ u ∈ perm.filterMap (fun i => lv.g.getAllNodeNames[i]?), u ∈ lv.g.names := by
    intro u hu
    rw [List.mem_filterMap] at hu
    obtain ⟨i, _, hi⟩ := hu
    exact List.mem_of_getElem? hi
  obtain ⟨st, hst⟩ := C13_sweeps_terminate hg hwf hmulti hm hres hnn _ ho (initState partition k di)
    (LF.SInv.init hin di) hdeg (TInv_init lv partition k di hU hD) fuel hfuel
  refine ⟨st, hst, ?_⟩
  unfold computeOneLevel
  simp only [bind, Outcome.bind]
  rw [LF.sortNat_eq_range hg.names_nodup hg.names_iff, hin.len, hdi]
  unfold initState at hst
  simp only [hst]
  split <;> rfl

/-- in particular: with that fuel, a `none` result means the final state was flagged `risky` -/
theorem C13_computeOneLevel_none_only_if_risky {lv : Level} {n k : Nat} (hg : LF.GoodLevel lv n k) (hwf : lv.g.wf = true)
    (hmulti : lv.g.specs.multi = false) (hw : ∀ e ∈ lv.g.allEdges, ∀ w, e.w = some w → 0 ≤ w)
    {partition : List (List Nat)} (hin : LF.InputOK lv k partition)
    {m res : Rat} (hm : 0 < m) (hres : 0 ≤ res) (perm : List Nat) (fuel : Nat) (hfuel : k ^ k + 1 ≤ fuel)
    (hnone : computeOneLevel lv m res partition perm fuel = .ok none) :
    ∃ di st, degreeInformation lv.g k = .ok di ∧
      sweeps lv m res (perm.filterMap fun i => lv.g.getAllNodeNames[i]?) fuel (initState partition k di) = .ok (some st) ∧
      st.risky = true := by
  obtain ⟨di, hdi, hall⟩ := C13_computeOneLevel_terminates hg hwf hmulti hw hin hm hres perm
  obtain ⟨st, hst, hc⟩ := hall fuel hfuel
  refine ⟨di, st, hdi, hst, ?_⟩
  rw [hnone] at hc
  by_cases hr : st.risky = true
  · exact hr
  · rw [if_neg hr] at hc; cases hc


/-! ### the potential is the modularity-shaped sum of `Props/C13.lean`, and every move improves it -/

/-- weight of the edges with both endpoints in community `c` -/
def LT.Lc (es : List Edge) (a : Nat → Nat) (c : Nat) : Rat :=
  (es.map fun e => if a e.u = c ∧ a e.v = c then ratW e.w else 0).sum

theorem LT.sum_Lc (es : List Edge) (k : Nat) (a : Nat → Nat) (h : ∀ e ∈ es, a e.u < k) :
    ∑ c ∈ Finset.range k, Lc es a c = asum es a := by
  induction es with
  | nil => simp [Lc, asum]
  | cons e es ih =>
    have hc : ∀ c, Lc (e :: es) a c = (if a e.u = c ∧ a e.v = c then ratW e.w else 0) + Lc es a c := fun c => by
      simp [Lc]
    simp only [hc, Finset.sum_add_distrib]
    rw [ih (fun e' he' => h e' (by simp [he']))]
    unfold asum
    simp only [List.map_cons, List.sum_cons]
    congr 1
    by_cases heq : a e.u = a e.v
    · rw [if_pos heq]
      have : ∀ c ∈ Finset.range k, (if a e.u = c ∧ a e.v = c then ratW e.w else 0) = (if a e.u = c then ratW e.w else 0) := by
        intro c _; rw [← heq]; simp
      rw [Finset.sum_congr rfl this, Finset.sum_ite_eq (Finset.range k) (a e.u),
        if_pos (Finset.mem_range.2 (h e (by simp)))]
    · rw [if_neg heq]
      apply Finset.sum_eq_zero
      intro c _
      rw [if_neg]
      rintro ⟨h1, h2⟩
      exact heq (h1.trans h2.symm)

/-- the undirected potential is the sum over the communities of the modularity terms of `Props/C13.lean` -/
theorem C13_potential_is_sum_of_terms_undirected (es : List Edge) (k : Nat) (m res : Rat) (d : Nat → Rat) (a : Nat → Nat)
    (h : ∀ e ∈ es, a e.u < k) :
    potU es k m res d a = ∑ c ∈ Finset.range k, Louvain.termUndirected m res (Lc es a c) (csum k a d c) := by
  unfold potU pot bsum
  rw [← sum_Lc es k a h, Finset.sum_div, Finset.mul_sum, ← Finset.sum_sub_distrib]
  apply Finset.sum_congr rfl
  intro c _
  unfold Louvain.termUndirected
  ring

theorem C13_potential_is_sum_of_terms_directed (es : List Edge) (k : Nat) (m res : Rat) (dout din : Nat → Rat) (a : Nat → Nat)
    (h : ∀ e ∈ es, a e.u < k) :
    potD es k m res dout din a
      = ∑ c ∈ Finset.range k, Louvain.termDirected m res (Lc es a c) (csum k a dout c) (csum k a din c) := by
  unfold potD pot bsum
  rw [← sum_Lc es k a h, Finset.sum_div, Finset.mul_sum, ← Finset.sum_sub_distrib]
  apply Finset.sum_congr rfl
  intro c _
  unfold Louvain.termDirected
  ring


/-- the potential of a level (`LT.Phi`, the quantity the termination proof uses) at an assignment with community ids
    `< k` is the sum over the community ids of the per-community modularity terms -/
theorem C13_Phi_is_sum_of_terms {lv : Level} {n k : Nat} (hg : LF.GoodLevel lv n k) (hwf : lv.g.wf = true) (m res : Rat)
    (deg0 in0 out0 : List (Nat × Rat)) (a : Nat → Nat) (ha : ∀ x, x < k → a x < k) :
    (lv.g.specs.directed = false → Phi lv k m res deg0 in0 out0 a
      = ∑ c ∈ Finset.range k, Louvain.termUndirected m res (Lc lv.g.allEdges a c) (csum k a (dgOf deg0) c)) ∧
    (lv.g.specs.directed = true → Phi lv k m res deg0 in0 out0 a
      = ∑ c ∈ Finset.range k, Louvain.termDirected m res (Lc lv.g.allEdges a c) (csum k a (dgOf out0) c) (csum k a (dgOf in0) c)) := by
  have h : ∀ e ∈ lv.g.allEdges, a e.u < k := fun e he => ha _ (edges_lt hg hwf e he).1
  constructor
  · intro hd
    unfold Phi
    rw [if_neg (by rw [hd]; simp)]
    exact C13_potential_is_sum_of_terms_undirected _ k m res _ a h
  · intro hd
    unfold Phi
    rw [if_pos hd]
    exact C13_potential_is_sum_of_terms_directed _ k m res _ _ a h

/-- **every accepted move is a strict improvement**: a `visit` that moves its node either strictly increases the
    potential, or leaves it unchanged and strictly decreases the sum of the community ids (a tie between the current
    community and a candidate with a smaller id) -/
theorem C13_move_strictly_improves {lv : Level} {n k : Nat} (hg : LF.GoodLevel lv n k) (hwf : lv.g.wf = true)
    (hmulti : lv.g.specs.multi = false) {m res : Rat} (hm : 0 < m) (hres : 0 ≤ res)
    {deg0 in0 out0 : List (Nat × Rat)}
    (hnn : ∀ x, 0 ≤ dgOf deg0 x ∧ 0 ≤ dgOf in0 x ∧ 0 ≤ dgOf out0 x)
    {st st' : LState} {u : Nat} (hs : LF.SInv lv k st) (ht : TInv lv k deg0 in0 out0 st)
    (hv : visit lv m res st u = .ok st') (hmv : st'.moves ≠ st.moves) :
    Phi lv k m res deg0 in0 out0 (asg st) < Phi lv k m res deg0 in0 out0 (asg st') ∨
    (Phi lv k m res deg0 in0 out0 (asg st) = Phi lv k m res deg0 in0 out0 (asg st') ∧
      idsum k (asg st') < idsum k (asg st)) := by
  obtain ⟨_, hq⟩ := visit_step hg hwf hmulti hm hres hnn hs ht hv
  rcases hq with ⟨h, _⟩ | ⟨_, h⟩
  · exact absurd h hmv
  · exact h

/-- the statement in the `∃ F` form -/
theorem C13_sweeps_terminate_exists {lv : Level} {n k : Nat} (hg : LF.GoodLevel lv n k) (hwf : lv.g.wf = true)
    (hmulti : lv.g.specs.multi = false) {m res : Rat} (hm : 0 < m) (hres : 0 ≤ res)
    {deg0 in0 out0 : List (Nat × Rat)}
    (hnn : ∀ x, 0 ≤ dgOf deg0 x ∧ 0 ≤ dgOf in0 x ∧ 0 ≤ dgOf out0 x)
    (order : List Nat) (ho : ∀ u ∈ order, u ∈ lv.g.names)
    (st : LState) (hs : LF.SInv lv k st) (hdeg : LF.DegOK lv.g k st.di) (ht : TInv lv k deg0 in0 out0 st) :
    ∃ F, ∀ fuel, F ≤ fuel → ∃ st', sweeps lv m res order fuel st = .ok (some st') :=
  ⟨k ^ k + 1, C13_sweeps_terminate hg hwf hmulti hm hres hnn order ho st hs hdeg ht⟩

/-! ### non-vacuity -/

/-- a triangle with a pendant node, weights 2, 1, 1, 1 (undirected, single-edge) as a level graph -/
def C13T.exSpecs : Specs := ⟨false, false, true, .keepLast, .create, .error⟩
def C13T.exStore : Store := (Store.run C13T.exSpecs [Op.addEdge ⟨0, 1, some 2, none⟩, Op.addEdge ⟨1, 2, some 1, none⟩, Op.addEdge ⟨0, 2, some 1, none⟩,
   Op.addEdge ⟨2, 3, some 1, none⟩]).1
def C13T.exLevel : Level := ⟨C13T.exStore, []⟩

theorem C13T.exLevel_ok : LF.GoodLevel C13T.exLevel 4 4 ∧ C13T.exLevel.g.wf = true ∧ C13T.exLevel.g.specs.multi = false ∧
    (∀ e ∈ C13T.exLevel.g.allEdges, ∀ w, e.w = some w → 0 ≤ w) ∧ LF.InputOK C13T.exLevel 4 [[0], [1], [2], [3]] ∧
    C13T.exLevel.g.allEdges.length = 4 := by
  have hn : C13T.exLevel.g.getAllNodeNames = [0, 1, 2, 3] := by decide +kernel
  have hmem : ∀ x, LF.mem C13T.exLevel x = [x] := fun x => rfl
  refine ⟨⟨?_, ?_, ?_, ?_, ?_, ?_⟩, Core_reachable_wf _ _, rfl, ?_, ⟨rfl, ?_, ?_⟩, by decide +kernel⟩
  · rw [hn]; decide
  · intro x; rw [hn]; simp only [List.mem_cons, List.not_mem_nil, or_false]; omega
  · intro x _; rw [hmem]; exact List.nodup_singleton x
  · intro x _; rw [hmem]; simp
  · intro x y z _ _ h1 h2
    rw [hmem, List.mem_singleton] at h1 h2
    omega
  · intro z
    constructor
    · intro hz; exact ⟨z, hz, by rw [hmem]; simp⟩
    · rintro ⟨x, hx, hz⟩
      rw [hmem, List.mem_singleton] at hz
      omega
  · have hall : C13T.exLevel.g.allEdges.all (fun e => e.w == some 2 || e.w == some 1) = true := by decide +kernel
    intro e he w hw
    have := List.all_eq_true.1 hall e he
    simp only [Bool.or_eq_true, beq_iff_eq] at this
    rcases this with h | h <;> rw [h] at hw <;> cases hw <;> omega
  · intro i hi
    match i, hi with
    | 0, _ => simp
    | 1, _ => simp
    | 2, _ => simp
    | 3, _ => simp
  · intro i z hi
    rw [hmem]
    match i, hi with
    | 0, _ => simp
    | 1, _ => simp
    | 2, _ => simp
    | 3, _ => simp

example : ∃ di, degreeInformation C13T.exLevel.g 4 = .ok di ∧ ∀ fuel, 4 ^ 4 + 1 ≤ fuel →
    ∃ st, sweeps C13T.exLevel 5 1 ([2, 0, 3, 1].filterMap fun i => C13T.exLevel.g.getAllNodeNames[i]?) fuel
      (initState [[0], [1], [2], [3]] 4 di) = .ok (some st) := by
  obtain ⟨hg, hwf, hmulti, hw, hin, _⟩ := C13T.exLevel_ok
  obtain ⟨di, hdi, h⟩ := C13_computeOneLevel_terminates hg hwf hmulti hw hin (m := 5) (res := 1) (by norm_num) (by norm_num)
    [2, 0, 3, 1]
  exact ⟨di, hdi, fun fuel hf => by obtain ⟨st, hst, _⟩ := h fuel hf; exact ⟨st, hst⟩⟩

/-- a directed example: 0 → 1 (2), 1 → 0 (1), 1 → 2 (1), 2 → 0 (1) -/
def C13T.exStoreD : Store := (Store.run ⟨true, false, true, .keepLast, .create, .error⟩
  [Op.addEdge ⟨0, 1, some 2, none⟩, Op.addEdge ⟨1, 0, some 1, none⟩, Op.addEdge ⟨1, 2, some 1, none⟩,
   Op.addEdge ⟨2, 0, some 1, none⟩]).1
def C13T.exLevelD : Level := ⟨C13T.exStoreD, []⟩

theorem C13T.exLevelD_ok : LF.GoodLevel C13T.exLevelD 3 3 ∧ C13T.exLevelD.g.wf = true ∧ C13T.exLevelD.g.specs.multi = false ∧
    C13T.exLevelD.g.specs.directed = true ∧
    (∀ e ∈ C13T.exLevelD.g.allEdges, ∀ w, e.w = some w → 0 ≤ w) ∧ LF.InputOK C13T.exLevelD 3 [[0], [1], [2]] ∧
    C13T.exLevelD.g.allEdges.length = 4 := by
  have hn : C13T.exLevelD.g.getAllNodeNames = [0, 1, 2] := by decide +kernel
  have hmem : ∀ x, LF.mem C13T.exLevelD x = [x] := fun x => rfl
  refine ⟨⟨?_, ?_, ?_, ?_, ?_, ?_⟩, Core_reachable_wf _ _, rfl, rfl, ?_, ⟨rfl, ?_, ?_⟩, by decide +kernel⟩
  · rw [hn]; decide
  · intro x; rw [hn]; simp only [List.mem_cons, List.not_mem_nil, or_false]; omega
  · intro x _; rw [hmem]; exact List.nodup_singleton x
  · intro x _; rw [hmem]; simp
  · intro x y z _ _ h1 h2
    rw [hmem, List.mem_singleton] at h1 h2
    omega
  · intro z
    constructor
    · intro hz; exact ⟨z, hz, by rw [hmem]; simp⟩
    · rintro ⟨x, hx, hz⟩
      rw [hmem, List.mem_singleton] at hz
      omega
  · have hall : C13T.exLevelD.g.allEdges.all (fun e => e.w == some 2 || e.w == some 1) = true := by decide +kernel
    intro e he w hw
    have := List.all_eq_true.1 hall e he
    simp only [Bool.or_eq_true, beq_iff_eq] at this
    rcases this with h | h <;> rw [h] at hw <;> cases hw <;> omega
  · intro i hi
    match i, hi with
    | 0, _ => simp
    | 1, _ => simp
    | 2, _ => simp
  · intro i z hi
    rw [hmem]
    match i, hi with
    | 0, _ => simp
    | 1, _ => simp
    | 2, _ => simp

example : ∃ di, degreeInformation C13T.exLevelD.g 3 = .ok di ∧ ∀ fuel, 3 ^ 3 + 1 ≤ fuel →
    ∃ st, sweeps C13T.exLevelD 5 1 ([1, 2, 0].filterMap fun i => C13T.exLevelD.g.getAllNodeNames[i]?) fuel
      (initState [[0], [1], [2]] 3 di) = .ok (some st) := by
  obtain ⟨hg, hwf, hmulti, _, hw, hin, _⟩ := C13T.exLevelD_ok
  obtain ⟨di, hdi, h⟩ := C13_computeOneLevel_terminates hg hwf hmulti hw hin (m := 5) (res := 1) (by norm_num) (by norm_num)
    [1, 2, 0]
  exact ⟨di, hdi, fun fuel hf => by obtain ⟨st, hst, _⟩ := h fuel hf; exact ⟨st, hst⟩⟩

end Graphrs
