/-
  C13 — Louvain: the algebraic heart.  The gain `update_best_com` compares is (a positive
  multiple of) the change in modularity caused by inserting the isolated node into the candidate
  community; hence a move that is accepted because its gain is strictly larger than the gain of
  staying strictly increases modularity.  For directed graphs this needs the weights of the
  edges in *both* directions in `wt` (the defect repaired by the predecessor-weights fix).
-/
import GraphrsModel.Model.Louvain
import Mathlib.Tactic.Ring
import Mathlib.Tactic.FieldSimp
import Mathlib.Tactic.Linarith
namespace Graphrs
open Louvain

/-- Undirected: community C (internal weight L, degree sum D) and the isolated node u (self-loop
    weight l, degree k, weight w to C).  Merging changes modularity by gain/(2m). -/
theorem C13_gain_is_delta_Q_undirected (m res L D l k w : Rat) (hm : m ≠ 0) :
    termUndirected m res (L + w + l) (D + k) - (termUndirected m res L D + termUndirected m res l k)
      = gainUndirected m res w D k / (2 * m) := by
  unfold termUndirected gainUndirected
  field_simp
  ring

/-- Directed: community C (L, out-degree sum O, in-degree sum I), isolated node u (self-loop l,
    out-degree ko, in-degree ki, weight w of the edges between u and C in both directions). -/
theorem C13_gain_is_delta_Q_directed (m res L O I l ko ki w : Rat) (hm : m ≠ 0) :
    termDirected m res (L + w + l) (O + ko) (I + ki) - (termDirected m res L O I + termDirected m res l ko ki)
      = gainDirected m res w ko ki I O / m := by
  unfold termDirected gainDirected
  field_simp
  ring

/-- Moving u from community A to community B (both taken without u) changes the modularity by
    (gain_B − gain_A)/(2m): an accepted move (gain_B > gain_A, m > 0) strictly increases it. -/
theorem C13_accepted_move_increases_undirected (m res LA DA LB DB l k wA wB : Rat) (hm : 0 < m)
    (hgain : gainUndirected m res wB DB k > gainUndirected m res wA DA k) :
    termUndirected m res LA DA + termUndirected m res (LB + wB + l) (DB + k)
      > termUndirected m res (LA + wA + l) (DA + k) + termUndirected m res LB DB := by
  have hm' : m ≠ 0 := ne_of_gt hm
  have hA := C13_gain_is_delta_Q_undirected m res LA DA l k wA hm'
  have hB := C13_gain_is_delta_Q_undirected m res LB DB l k wB hm'
  have h2m : (0 : Rat) < 2 * m := by linarith
  have hd : gainUndirected m res wA DA k / (2 * m) < gainUndirected m res wB DB k / (2 * m) :=
    div_lt_div_of_pos_right hgain h2m
  linarith

theorem C13_accepted_move_increases_directed (m res LA OA IA LB OB IB l ko ki wA wB : Rat) (hm : 0 < m)
    (hgain : gainDirected m res wB ko ki IB OB > gainDirected m res wA ko ki IA OA) :
    termDirected m res LA OA IA + termDirected m res (LB + wB + l) (OB + ko) (IB + ki)
      > termDirected m res (LA + wA + l) (OA + ko) (IA + ki) + termDirected m res LB OB IB := by
  have hm' : m ≠ 0 := ne_of_gt hm
  have hA := C13_gain_is_delta_Q_directed m res LA OA IA l ko ki wA hm'
  have hB := C13_gain_is_delta_Q_directed m res LB OB IB l ko ki wB hm'
  have hd : gainDirected m res wA ko ki IA OA / m < gainDirected m res wB ko ki IB OB / m :=
    div_lt_div_of_pos_right hgain hm
  linarith

/-- non-vacuity -/
example : gainUndirected 3 1 1 2 2 / (2 * 3) = (1 : Rat) / 9 := by
  unfold gainUndirected
  norm_num

end Graphrs
