/-
  C16, the *distribution* claim for the DIRECTED generator `fast_gnp_random_graph_directed` (model `gnpDirected`).

  Slots are the n*n positions of the n×n table in row-major order, slot (v, w) = v*n + w (`slotDir`); the diagonal
  slots — the multiples of n+1 — are not edges.  The skips are geometric, P(k) = (1-p)^k p (`geom`; PRNG and `ln` are
  outside the model and are the assumption of this file).  Proved here, for every n in 2 .. 2^31-1:

  * Part A, `C16_gnp_directed_is_redirect_process`: the model is the slot process WITH DIAGONAL REDIRECT (`redirRun`):
    from position `pos` a skip `k` lands on `pos + k`; a diagonal slot is bumped to the next slot (`redirect`); past the
    end the run stops, otherwise the slot is emitted and the run continues behind it (saturating `i64` additions included).
  * Part B, the law is a PRODUCT law (`outProb`): the slots are selected independently, a diagonal slot with probability
    0, the slot directly after a diagonal slot — the pairs (v, v+1) — with probability 1 - (1-p)^2, every other slot with
    probability p (`slotP`).
    - `C16_redirect_first_step`: `outProb` satisfies the one-step (Chapman–Kolmogorov) equation of the chain
      (`IsRedirectLaw`, a `HasSum` over the first skip) from every valid position and for every valid output;
    - `C16_redirect_law_unique`: that equation has no other solution;
    - `C16_redirect_process_law` / `C16_gnp_directed_law`: the probability that the process / the generator model outputs
      exactly `S`, written as the iterated sum over |S|+1 independent geometric skips (`skipsSum`), equals the product;
    - `C16_gnp_directed_law_total`, `C16_gnp_directed_law_mean`: the product law has total mass 1 and its expected number
      of selected slots is the sum of the marginals `dirMean`.
  * Part C, `C16_gnp_directed_mean`: `dirMean = p (n² - n) + p (1-p) (n-1)`; `C16_gnp_directed_mean_excess`: the excess
    over the G(n,p) mean `p n (n-1)` is `p (1-p) (n-1)`, at most `p n (n-1) / (n-1)`.
-/
import GraphrsModel.Props.C16Dist
import Mathlib.Tactic.Ring
import Mathlib.Tactic.Linarith
import Mathlib.Algebra.BigOperators.Group.Finset.Powerset
namespace Graphrs

/-! ### Part A: the directed generator is the slot process with diagonal redirect -/

/-- a skip that lands on a diagonal slot (a multiple of `n + 1` in the row-major `n × n` table) is bumped to the next slot -/
def redirect (n s : Int) : Int := if s % (n + 1) = 0 then s + 1 else s

/-- the slot process with diagonal redirect over the `n * n` slots of the table: position `pos`, slots emitted so far `acc` -/
def redirRun (n : Int) : List Int → Int → List Int → Option (List Int)
  | [], _, _ => none
  | k :: rest, pos, acc =>
    if n * n ≤ redirect n (pos + k) then some acc
    else redirRun n rest (redirect n (pos + k) + 1) (acc ++ [redirect n (pos + k)])

theorem redirect_ge (n s : Int) : s ≤ redirect n s ∧ redirect n s ≤ s + 1 := by
  unfold redirect; split <;> omega

theorem redirect_diag (n s : Int) (h : s % (n + 1) = 0) : redirect n s = s + 1 := by
  unfold redirect; rw [if_pos h]

theorem redirect_nondiag (n s : Int) (h : s % (n + 1) ≠ 0) : redirect n s = s := by
  unfold redirect; rw [if_neg h]

/-- the slot after a diagonal slot is not diagonal -/
theorem succ_diag_nondiag (n s : Int) (hn : 1 ≤ n) (h : s % (n + 1) = 0) : (s + 1) % (n + 1) ≠ 0 := by
  rw [Int.add_emod, h, zero_add, Int.emod_emod_of_dvd _ (dvd_refl _), Int.emod_eq_of_lt (by omega) (by omega)]
  omega

/-- a redirected slot is never diagonal -/
theorem redirect_nondiag' (n s : Int) (hn : 1 ≤ n) : redirect n s % (n + 1) ≠ 0 := by
  by_cases h : s % (n + 1) = 0
  · rw [redirect_diag n s h]; exact succ_diag_nondiag n s hn h
  · rw [redirect_nondiag n s h]; exact h

/-- slot `(v, w)` is diagonal in the `mod (n+1)` sense iff `v = w` -/
theorem diag_iff (n v w : Int) (hv : 0 ≤ v) (hvn : v ≤ n) (hw : 0 ≤ w) (hwn : w < n) :
    (v * n + w) % (n + 1) = 0 ↔ v = w := by
  have e : v * n + w = (w - v) + v * (n + 1) := by ring
  rw [e, Int.add_mul_emod_self_right]
  by_cases hc : v ≤ w
  · rw [Int.emod_eq_of_lt (by omega) (by omega)]; omega
  · rw [← Int.add_emod_right, Int.emod_eq_of_lt (by omega) (by omega)]; omega

private theorem succ_mulA (v n : Int) : (v + 1) * n = v * n + n := by ring

private theorem sq_smallA (n : Int) (hn : 0 ≤ n) (hsmall : n ≤ 2147483647) : 0 ≤ n * n ∧ n * n ≤ 4611686014132420609 := by
  have h1 := Int.mul_le_mul hsmall hsmall hn (by omega)
  have h2 := Int.mul_nonneg hn hn
  omega

/-- the row loop lands on the redirected slot (or runs off the table) -/
private theorem dirRow_redirect (n : Int) (hn : 2 ≤ n) : ∀ (fuel : Nat) (v w v' w' : Int),
    gnpDirRow n fuel v w = (v', w') → 0 ≤ v → v ≤ n → 0 ≤ w → (v < n → w < n → v ≠ w) → n - v < fuel →
    v ≤ v' ∧
    (redirect n (v * n + w) < n * n → v' < n ∧ 0 ≤ w' ∧ w' < n ∧ v' * n + w' = redirect n (v * n + w)) ∧
    (n * n ≤ redirect n (v * n + w) → ¬ v' < n) := by
  intro fuel
  induction fuel with
  | zero => intro v w v' w' _ _ hvn _ _ hf; omega
  | succ fuel ih =>
    intro v w v' w' h hv hvn hw hne hf
    rw [gnpDirRow] at h
    have hge := redirect_ge n (v * n + w)
    by_cases hc : v < n ∧ n ≤ w
    · rw [if_pos (by simpa using hc)] at h
      simp only at h
      have hm := succ_mulA v n
      by_cases hd : v + 1 = w - n
      · rw [if_pos (by simpa using hd)] at h
        have hdiag : (v * n + w) % (n + 1) = 0 := by
          have : v * n + w = (v + 1) * (n + 1) := by rw [show w = v + 1 + n by omega]; ring
          rw [this]; exact Int.mul_emod_left _ _
        have e : redirect n ((v + 1) * n + (w - n + 1)) = redirect n (v * n + w) := by
          rw [redirect_diag n _ hdiag, show (v + 1) * n + (w - n + 1) = v * n + w + 1 by omega]
          exact redirect_nondiag n _ (succ_diag_nondiag n _ (by omega) hdiag)
        have := ih (v + 1) (w - n + 1) v' w' h (by omega) (by omega) (by omega) (by omega) (by omega)
        rw [e] at this
        exact ⟨by omega, this.2⟩
      · rw [if_neg (by simpa using hd)] at h
        have := ih (v + 1) (w - n) v' w' h (by omega) (by omega) (by omega) (by omega) (by omega)
        rw [show (v + 1) * n + (w - n) = v * n + w by omega] at this
        exact ⟨by omega, this.2⟩
    · rw [if_neg (by simpa using hc)] at h
      simp only [Prod.mk.injEq] at h
      obtain ⟨rfl, rfl⟩ := h
      by_cases hvn' : v < n
      · have hwn : w < n := by omega
        have hnd : (v * n + w) % (n + 1) ≠ 0 := fun hz => hne hvn' hwn ((diag_iff n v w hv hvn hw hwn).mp hz)
        have hlt : v * n + w < n * n := by
          have := Int.mul_le_mul_of_nonneg_right (show v + 1 ≤ n by omega) (show 0 ≤ n by omega)
          rw [succ_mulA] at this; omega
        rw [redirect_nondiag n _ hnd]
        exact ⟨by omega, fun _ => ⟨hvn', hw, hwn, rfl⟩, fun h => by omega⟩
      · have : v = n := by omega
        subst this
        exact ⟨by omega, fun h => by omega, fun _ => hvn'⟩

private theorem dir_stepA (n : Int) (fuel : Nat) (sk : Int) (rest : List Int) (v w w1 v' w' : Int) (acc : List (Int × Int))
    (hv : v < n) (hsat : (if (v == satAdd (satAdd w 1) sk) = true then satAdd (satAdd (satAdd w 1) sk) 1 else satAdd (satAdd w 1) sk) = w1)
    (hrow : gnpDirRow n (n.toNat + 1) v w1 = (v', w')) :
    gnpDirected n (fuel + 1) (sk :: rest) v w acc =
      gnpDirected n fuel rest v' w' (if v' < n then acc ++ [(v', w')] else acc) := by
  rw [gnpDirected, if_pos hv]
  simp only [hsat, hrow]

/-- the generator, started in any loop state, is the redirect process started at the next slot -/
private theorem dir_refines (n : Int) (hn : 2 ≤ n) (hsmall : n ≤ 2147483647) :
    ∀ (fuel : Nat) (skips : List Int) (v w : Int) (acc : List (Int × Int)),
      skips.length < fuel → (∀ k ∈ skips, 0 ≤ k) → 0 ≤ v → v < n → -1 ≤ w → w < n →
      (gnpDirected n fuel skips v w acc).map (List.map (slotDir n)) =
        redirRun n skips (v * n + w + 1) (acc.map (slotDir n)) := by
  have hsq := sq_smallA n (by omega) hsmall
  have hM : i64Max = 9223372036854775807 := rfl
  intro fuel
  induction fuel with
  | zero => intro skips v w acc h; omega
  | succ fuel ih =>
    intro skips v w acc hlen hs hv hvn hw hwn
    have hvn0 : 0 ≤ v * n := Int.mul_nonneg hv (by omega)
    have hvnn : v * n + n ≤ n * n := by
      have := Int.mul_le_mul_of_nonneg_right (show v + 1 ≤ n by omega) (show 0 ≤ n by omega)
      rw [succ_mulA] at this; exact this
    cases skips with
    | nil => simp [gnpDirected, redirRun, hvn]
    | cons sk rest =>
      have hsk := hs sk (by simp)
      have hrest : ∀ k ∈ rest, 0 ≤ k := fun k hk => hs k (by simp [hk])
      simp only [List.length_cons] at hlen
      generalize hw2 : (if (v == satAdd (satAdd w 1) sk) = true then satAdd (satAdd (satAdd w 1) sk) 1
        else satAdd (satAdd w 1) sk) = w2
      -- what the two saturating additions and the first diagonal test produce
      have hkey : 0 ≤ w2 ∧ (v < n → w2 < n → v ≠ w2) ∧
          (redirect n (v * n + w + 1 + sk) < n * n → redirect n (v * n + w2) = redirect n (v * n + w + 1 + sk)) ∧
          (n * n ≤ redirect n (v * n + w + 1 + sk) → n * n ≤ redirect n (v * n + w2)) := by
        have hg1 := redirect_ge n (v * n + w + 1 + sk)
        have hg2 := redirect_ge n (v * n + w2)
        rw [← hw2, show satAdd w 1 = w + 1 from by unfold satAdd; split <;> omega] at hg2 ⊢
        by_cases hc : w + 1 + sk ≤ i64Max
        · rw [show satAdd (w + 1) sk = w + 1 + sk from by unfold satAdd; rw [if_neg (by omega)]] at hg2 ⊢
          by_cases hd : v = w + 1 + sk
          · rw [if_pos (by simpa using hd)] at hg2 ⊢
            rw [show satAdd (w + 1 + sk) 1 = w + 1 + sk + 1 from by unfold satAdd; rw [if_neg (by omega)]] at hg2 ⊢
            have hdiag : (v * n + w + 1 + sk) % (n + 1) = 0 := by
              have : v * n + w + 1 + sk = v * (n + 1) := by
                have : v * (n + 1) = v * n + v := by ring
                omega
              rw [this]; exact Int.mul_emod_left _ _
            have e : redirect n (v * n + (w + 1 + sk + 1)) = redirect n (v * n + w + 1 + sk) := by
              rw [redirect_diag n _ hdiag, show v * n + (w + 1 + sk + 1) = v * n + w + 1 + sk + 1 by omega]
              exact redirect_nondiag n _ (succ_diag_nondiag n _ (by omega) hdiag)
            rw [e]
            exact ⟨by omega, fun _ _ => by omega, fun _ => rfl, id⟩
          · rw [if_neg (by simpa using hd)] at hg2 ⊢
            rw [show v * n + (w + 1 + sk) = v * n + w + 1 + sk by omega]
            exact ⟨by omega, fun _ _ => hd, fun _ => rfl, id⟩
        · rw [show satAdd (w + 1) sk = i64Max from by unfold satAdd; rw [if_pos (by omega)]] at hg2 ⊢
          rw [if_neg (by simp; omega)] at hg2 ⊢
          exact ⟨by omega, fun _ _ => by omega, fun h => by omega, fun _ => by omega⟩
      obtain ⟨hw20, hw2ne, hk1, hk2⟩ := hkey
      generalize hrow : gnpDirRow n (n.toNat + 1) v w2 = r
      obtain ⟨v', w'⟩ := r
      obtain ⟨hr0, hr1, hr2⟩ := dirRow_redirect n hn _ v w2 v' w' hrow hv (by omega) hw20 hw2ne (by omega)
      rw [dir_stepA n _ _ _ v w _ v' w' acc hvn hw2 hrow, redirRun]
      by_cases hover : n * n ≤ redirect n (v * n + w + 1 + sk)
      · rw [if_pos hover]
        have hv'n : ¬ v' < n := hr2 (hk2 hover)
        rw [if_neg hv'n]
        cases fuel with
        | zero => omega
        | succ fuel => simp [gnpDirected, hv'n]
      · rw [if_neg hover]
        have hlt : redirect n (v * n + w + 1 + sk) < n * n := by omega
        have e := hk1 hlt
        rw [e] at hr1
        obtain ⟨hv'n, hw'0, hw'n, hslot⟩ := hr1 hlt
        rw [if_pos hv'n]
        have hv'0 : 0 ≤ v' := by omega
        have := ih rest v' w' (acc ++ [(v', w')]) (by omega) hrest hv'0 hv'n (by omega) hw'n
        rw [this, List.map_append, List.map_cons, List.map_nil]
        show redirRun n rest (v' * n + w' + 1) (List.map (slotDir n) acc ++ [v' * n + w']) = _
        rw [hslot]

/-- **the directed generator is the slot process with diagonal redirect** over the `n * n` row-major slots -/
theorem C16_gnp_directed_is_redirect_process (n : Int) (hn : 2 ≤ n) (hsmall : n ≤ 2147483647) (skips : List Int)
    (hs : ∀ k ∈ skips, 0 ≤ k) :
    (gnpDirected n (skips.length + 1) skips 0 (-1) []).map (List.map (slotDir n)) = redirRun n skips 0 [] := by
  have := dir_refines n hn hsmall (skips.length + 1) skips 0 (-1) [] (by omega) hs (by omega) (by omega) (by omega) (by omega)
  rw [this]
  simp

/-- non-vacuity (n = 3; slots 0, 4, 8 are diagonal): the skips 0, 1, 0, 5 select slots 1, 3, 5 (the first and the third
    skip land on a diagonal slot and are redirected) -/
example : gnpDirected 3 5 [0, 1, 0, 5] 0 (-1) [] = some [(0, 1), (1, 0), (1, 2)] ∧
    redirRun 3 [0, 1, 0, 5] 0 [] = some [1, 3, 5] := by
  refine ⟨by decide, by decide⟩

/-! ### Part B: the law of the redirect process under independent geometric skips -/

/-- marginal probability that slot `t` is selected: 0 on the diagonal, `1 - (1-p)^2` directly after a diagonal slot,
    `p` elsewhere -/
noncomputable def slotP (n : Int) (p : ℝ) (t : Int) : ℝ :=
  if t % (n + 1) = 0 then 0 else if (t - 1) % (n + 1) = 0 then 1 - (1 - p) ^ 2 else p

/-- Bernoulli factor of slot `t` for the outcome `S` -/
noncomputable def slotFactor (n : Int) (p : ℝ) (S : List Int) (t : Int) : ℝ :=
  if t ∈ S then slotP n p t else 1 - slotP n p t

/-- the closed form (product law): independent Bernoulli(`slotP t`) over the slots `pos, pos+1, …, n*n - 1` -/
noncomputable def outProb (n : Int) (p : ℝ) (pos : Int) (S : List Int) : ℝ :=
  ∏ i ∈ Finset.range (n * n - pos).toNat, slotFactor n p S (pos + (i : Int))

/-- a start position that does not directly follow a diagonal slot (0, or one past an emitted slot) and a strictly
    increasing list of non-diagonal slots in `[pos, n*n)` -/
def RedirOk (n pos : Int) (S : List Int) : Prop :=
  (pos - 1) % (n + 1) ≠ 0 ∧ SlotsOk (n * n) pos S ∧ ∀ s ∈ S, s % (n + 1) ≠ 0

/-- position 0 is a valid start -/
theorem redirOk_zero (n : Int) (hn : 1 ≤ n) (S : List Int) (hok : SlotsOk (n * n) 0 S) (hnd : ∀ s ∈ S, s % (n + 1) ≠ 0) :
    RedirOk n 0 S := by
  refine ⟨?_, hok, hnd⟩
  rw [← Int.add_emod_right, Int.emod_eq_of_lt (by omega) (by omega)]; omega

/-- value of the chain after one step that lands on slot `s'` (`F` = law from the next position on) -/
noncomputable def stepVal (n : Int) (F : Int → List Int → ℝ) : List Int → Int → ℝ
  | [], s' => if n * n ≤ s' then 1 else 0
  | s0 :: T, s' => if s' < n * n ∧ s0 = s' then F (s' + 1) T else 0

/-- `F pos S` satisfies the one-step (Chapman–Kolmogorov) equation of the redirect process with geometric skips -/
def IsRedirectLaw (n : Int) (p : ℝ) (F : Int → List Int → ℝ) : Prop :=
  ∀ pos S, RedirOk n pos S →
    HasSum (fun k : ℕ => geom p k * stepVal n F S (redirect n (pos + (k : Int)))) (F pos S)

private theorem last_diag (n : Int) : (n * n - 1) % (n + 1) = 0 := by
  rw [show n * n - 1 = (n - 1) * (n + 1) by ring]; exact Int.mul_emod_left _ _

private theorem noSel_prod (n : Int) (hn : 1 ≤ n) (p : ℝ) (a : Int) (ha : (a - 1) % (n + 1) ≠ 0) : ∀ m : Nat,
    ∏ i ∈ Finset.range m, (1 - slotP n p (a + (i : Int))) =
      if (a + (m : Int) - 1) % (n + 1) = 0 then (1 - p) ^ (m - 1) else (1 - p) ^ m := by
  intro m
  induction m with
  | zero => rw [if_neg (by simpa using ha)]; simp
  | succ m ih =>
    rw [Finset.prod_range_succ, ih]
    have e : a + ((m + 1 : Nat) : Int) - 1 = a + m := by push_cast; omega
    rw [e]
    by_cases h1 : (a + (m : Int) - 1) % (n + 1) = 0
    · have hm : 1 ≤ m := by
        rcases Nat.eq_zero_or_pos m with rfl | h
        · exfalso; apply ha; simpa using h1
        · exact h
      have h2 : (a + (m : Int)) % (n + 1) ≠ 0 := by
        have := succ_diag_nondiag n _ hn h1
        rwa [show a + (m : Int) - 1 + 1 = a + m by omega] at this
      rw [if_pos h1, if_neg h2]
      have : slotP n p (a + m) = 1 - (1 - p) ^ 2 := by
        unfold slotP; rw [if_neg h2, if_pos h1]
      rw [this]
      obtain ⟨m', rfl⟩ : ∃ m', m = m' + 1 := ⟨m - 1, by omega⟩
      simp only [Nat.add_sub_cancel]
      ring
    · rw [if_neg h1]
      by_cases h2 : (a + (m : Int)) % (n + 1) = 0
      · rw [if_pos h2]
        have : slotP n p (a + m) = 0 := by unfold slotP; rw [if_pos h2]
        rw [this]; simp
      · rw [if_neg h2]
        have : slotP n p (a + m) = p := by unfold slotP; rw [if_neg h2, if_neg h1]
        rw [this]; ring

theorem slotsOk_mem (N : Int) : ∀ (S : List Int) (pos : Int), SlotsOk N pos S → ∀ t ∈ S, pos ≤ t ∧ t < N := by
  intro S
  induction S with
  | nil => intro pos _ t ht; simp at ht
  | cons s T ih =>
    intro pos h t ht
    obtain ⟨h1, h2, h3⟩ := h
    rcases List.mem_cons.mp ht with rfl | ht
    · exact ⟨h1, h2⟩
    · have := ih (s + 1) h3 t ht; omega

private theorem outProb_cons (n : Int) (p : ℝ) (pos s0 : Int) (T : List Int) (hok : SlotsOk (n * n) pos (s0 :: T)) :
    outProb n p pos (s0 :: T) =
      (∏ i ∈ Finset.range (s0 - pos).toNat, (1 - slotP n p (pos + (i : Int)))) * slotP n p s0 *
        outProb n p (s0 + 1) T := by
  obtain ⟨h1, h2, h3⟩ := hok
  have hmem := slotsOk_mem _ T (s0 + 1) h3
  unfold outProb
  have e : (n * n - pos).toNat = (s0 - pos).toNat + ((n * n - (s0 + 1)).toNat + 1) := by omega
  rw [e, Finset.prod_range_add, Finset.prod_range_succ']
  have A : ∏ x ∈ Finset.range (s0 - pos).toNat, slotFactor n p (s0 :: T) (pos + (x : Int)) =
      ∏ i ∈ Finset.range (s0 - pos).toNat, (1 - slotP n p (pos + (i : Int))) := by
    apply Finset.prod_congr rfl
    intro i hi
    have hi' := Finset.mem_range.mp hi
    unfold slotFactor
    rw [if_neg]
    intro hm
    rcases List.mem_cons.mp hm with h | h
    · omega
    · have := hmem _ h; omega
  have B : slotFactor n p (s0 :: T) (pos + (((s0 - pos).toNat + 0 : Nat) : Int)) = slotP n p s0 := by
    have : pos + (((s0 - pos).toNat + 0 : Nat) : Int) = s0 := by omega
    rw [this]; unfold slotFactor; rw [if_pos (by simp)]
  have C : ∏ k ∈ Finset.range (n * n - (s0 + 1)).toNat,
        slotFactor n p (s0 :: T) (pos + (((s0 - pos).toNat + (k + 1) : Nat) : Int)) =
      ∏ i ∈ Finset.range (n * n - (s0 + 1)).toNat, slotFactor n p T (s0 + 1 + (i : Int)) := by
    apply Finset.prod_congr rfl
    intro i _
    have : pos + (((s0 - pos).toNat + (i + 1) : Nat) : Int) = s0 + 1 + i := by omega
    rw [this]
    unfold slotFactor
    have hiff : (s0 + 1 + (i : Int) ∈ s0 :: T) ↔ (s0 + 1 + (i : Int) ∈ T) := by
      rw [List.mem_cons]; constructor
      · rintro (h | h)
        · omega
        · exact h
      · exact Or.inr
    by_cases hm : s0 + 1 + (i : Int) ∈ T
    · rw [if_pos hm, if_pos (hiff.mpr hm)]
    · rw [if_neg hm, if_neg (fun h => hm (hiff.mp h))]
  rw [A, B, C]; ring

private theorem first_step_nil (n : Int) (hn : 1 ≤ n) (p : ℝ) (hp0 : 0 < p) (hp1 : p < 1) (pos : Int)
    (hpos : (pos - 1) % (n + 1) ≠ 0) (hle : pos ≤ n * n) (F : Int → List Int → ℝ) :
    HasSum (fun k : ℕ => geom p k * stepVal n F [] (redirect n (pos + (k : Int)))) (outProb n p pos []) := by
  have hlast := last_diag n
  have hne : pos ≠ n * n := by rintro rfl; exact hpos hlast
  generalize hm : (n * n - pos).toNat = m
  have hm1 : 1 ≤ m := by omega
  have hout : outProb n p pos [] = (1 - p) ^ (m - 1) := by
    unfold outProb
    rw [hm]
    have : ∀ i ∈ Finset.range m, slotFactor n p [] (pos + (i : Int)) = 1 - slotP n p (pos + i) := by
      intro i _; simp [slotFactor]
    rw [Finset.prod_congr rfl this, noSel_prod n hn p pos hpos m, if_pos]
    rw [show pos + (m : Int) - 1 = n * n - 1 by omega]; exact hlast
  rw [hout]
  have hcond : ∀ k : ℕ, (n * n ≤ redirect n (pos + (k : Int))) ↔ m - 1 ≤ k := by
    intro k
    have hg := redirect_ge n (pos + k)
    constructor
    · intro h; omega
    · intro h
      by_cases he : pos + (k : Int) = n * n - 1
      · rw [he, redirect_diag n _ hlast]; omega
      · omega
  have hterm : ∀ k : ℕ, geom p k * stepVal n F [] (redirect n (pos + (k : Int))) =
      if m - 1 ≤ k then (1 - p) ^ k * p else 0 := by
    intro k
    simp only [stepVal, hcond k, geom, Int.toNat_natCast]
    split <;> simp
  simp only [hterm]
  have hq0 : 0 ≤ 1 - p := by linarith
  have hq1 : 1 - p < 1 := by linarith
  have hgeo := (hasSum_geometric_of_lt_one hq0 hq1).mul_left ((1 - p) ^ (m - 1) * p)
  rw [show (1 - (1 - p))⁻¹ = p⁻¹ by ring_nf, mul_assoc, mul_inv_cancel₀ hp0.ne', mul_one] at hgeo
  rw [← hasSum_nat_add_iff' (m - 1)]
  have hz : ∑ i ∈ Finset.range (m - 1), (if m - 1 ≤ i then (1 - p) ^ i * p else 0) = 0 := by
    apply Finset.sum_eq_zero
    intro i hi
    have := Finset.mem_range.mp hi
    rw [if_neg (by omega)]
  rw [hz, sub_zero]
  have hfun : (fun j : ℕ => if m - 1 ≤ j + (m - 1) then (1 - p) ^ (j + (m - 1)) * p else 0) =
      fun i => (1 - p) ^ (m - 1) * p * (1 - p) ^ i := by
    funext j; rw [if_pos (by omega), pow_add]; ring
  rw [hfun]; exact hgeo

private theorem first_step_cons (n : Int) (hn : 1 ≤ n) (p : ℝ) (pos s0 : Int) (T : List Int)
    (hpos : (pos - 1) % (n + 1) ≠ 0) (hok : SlotsOk (n * n) pos (s0 :: T)) (hs0 : s0 % (n + 1) ≠ 0) :
    HasSum (fun k : ℕ => geom p k * stepVal n (outProb n p) (s0 :: T) (redirect n (pos + (k : Int))))
      (outProb n p pos (s0 :: T)) := by
  rw [outProb_cons n p pos s0 T hok, noSel_prod n hn p pos hpos]
  obtain ⟨h1, h2, h3⟩ := hok
  generalize hm : (s0 - pos).toNat = m1
  have e1 : pos + (m1 : Int) = s0 := by omega
  rw [show pos + (m1 : Int) - 1 = s0 - 1 by omega]
  have hterm : ∀ k : ℕ, geom p k * stepVal n (outProb n p) (s0 :: T) (redirect n (pos + (k : Int))) =
      if redirect n (pos + (k : Int)) = s0 then (1 - p) ^ k * p * outProb n p (s0 + 1) T else 0 := by
    intro k
    simp only [stepVal, geom, Int.toNat_natCast]
    by_cases h : redirect n (pos + (k : Int)) = s0
    · rw [if_pos h, if_pos ⟨by omega, h.symm⟩, h]
    · rw [if_neg h, if_neg (fun hh => h hh.2.symm), mul_zero]
  simp only [hterm]
  generalize outProb n p (s0 + 1) T = c
  by_cases hd : (s0 - 1) % (n + 1) = 0
  · rw [if_pos hd]
    have hsp : slotP n p s0 = 1 - (1 - p) ^ 2 := by unfold slotP; rw [if_neg hs0, if_pos hd]
    have hm1 : 1 ≤ m1 := by
      have : pos ≠ s0 := by rintro rfl; exact hpos hd
      omega
    have hiff : ∀ k : ℕ, redirect n (pos + (k : Int)) = s0 ↔ k = m1 - 1 ∨ k = m1 := by
      intro k
      constructor
      · intro h
        have := redirect_ge n (pos + k); omega
      · rintro (h | h)
        · rw [show pos + (k : Int) = s0 - 1 by omega, redirect_diag n _ hd]; omega
        · rw [show pos + (k : Int) = s0 by omega, redirect_nondiag n _ hs0]
    have : HasSum (fun k : ℕ => if redirect n (pos + (k : Int)) = s0 then (1 - p) ^ k * p * c else 0)
        (∑ k ∈ ({m1 - 1, m1} : Finset ℕ), if redirect n (pos + (k : Int)) = s0 then (1 - p) ^ k * p * c else 0) :=
      hasSum_sum_of_ne_finset_zero (by
        intro k hk
        rw [if_neg]
        intro h; apply hk; rw [Finset.mem_insert, Finset.mem_singleton]; exact (hiff k).mp h)
    rw [Finset.sum_pair (by omega), if_pos ((hiff _).mpr (Or.inl rfl)), if_pos ((hiff _).mpr (Or.inr rfl))] at this
    have hval : (1 - p) ^ (m1 - 1) * (1 - (1 - p) ^ 2) * c =
        (1 - p) ^ (m1 - 1) * p * c + (1 - p) ^ m1 * p * c := by
      obtain ⟨m', hm'⟩ : ∃ m', m1 = m' + 1 := ⟨m1 - 1, by omega⟩
      rw [hm']; simp only [Nat.add_sub_cancel]; ring
    rw [hsp, hval]; exact this
  · rw [if_neg hd]
    have hsp : slotP n p s0 = p := by unfold slotP; rw [if_neg hs0, if_neg hd]
    have hiff : ∀ k : ℕ, redirect n (pos + (k : Int)) = s0 ↔ k = m1 := by
      intro k; constructor
      · intro h
        by_cases hz : (pos + (k : Int)) % (n + 1) = 0
        · rw [redirect_diag n _ hz] at h
          exfalso; apply hd; rw [show s0 - 1 = pos + k by omega]; exact hz
        · rw [redirect_nondiag n _ hz] at h; omega
      · intro h; rw [show pos + (k : Int) = s0 by omega, redirect_nondiag n _ hs0]
    have : HasSum (fun k : ℕ => if redirect n (pos + (k : Int)) = s0 then (1 - p) ^ k * p * c else 0)
        (if redirect n (pos + (m1 : Int)) = s0 then (1 - p) ^ m1 * p * c else 0) :=
      hasSum_single m1 (by
        intro k hk; rw [if_neg]; intro h; exact hk ((hiff k).mp h))
    rw [if_pos ((hiff _).mpr rfl)] at this
    rw [hsp]; exact this

/-- **first-step equation**: the product law `outProb` satisfies the one-step equation of the redirect process with
    independent geometric(p) skips, from every valid position and for every valid output -/
theorem C16_redirect_first_step (n : Int) (hn : 1 ≤ n) (p : ℝ) (hp0 : 0 < p) (hp1 : p < 1) :
    IsRedirectLaw n p (outProb n p) := by
  intro pos S hok
  obtain ⟨h1, h2, h3⟩ := hok
  cases S with
  | nil => exact first_step_nil n hn p hp0 hp1 pos h1 h2 _
  | cons s0 T => exact first_step_cons n hn p pos s0 T h1 h2 (h3 s0 (by simp))

/-- the tail of a valid output is valid from the position after its head -/
theorem redirOk_tail (n pos s0 : Int) (T : List Int) (h : RedirOk n pos (s0 :: T)) : RedirOk n (s0 + 1) T := by
  obtain ⟨h1, h2, h3⟩ := h
  refine ⟨?_, h2.2.2, fun s hs => h3 s (by simp [hs])⟩
  rw [show s0 + 1 - 1 = s0 by omega]; exact h3 s0 (by simp)

/-- **the one-step equation determines the law**: any `G` satisfying it agrees with the product law on all valid
    arguments (the position strictly increases, so the equations can be solved from the end) -/
theorem C16_redirect_law_unique (n : Int) (hn : 1 ≤ n) (p : ℝ) (hp0 : 0 < p) (hp1 : p < 1)
    (G : Int → List Int → ℝ) (hG : IsRedirectLaw n p G) :
    ∀ (S : List Int) (pos : Int), RedirOk n pos S → G pos S = outProb n p pos S := by
  intro S
  induction S with
  | nil =>
    intro pos hok
    have h1 := hG pos [] hok
    have h2 := C16_redirect_first_step n hn p hp0 hp1 pos [] hok
    exact h1.unique h2
  | cons s0 T ih =>
    intro pos hok
    have h1 := hG pos (s0 :: T) hok
    have h2 := C16_redirect_first_step n hn p hp0 hp1 pos (s0 :: T) hok
    have hT := ih (s0 + 1) (redirOk_tail n pos s0 T hok)
    have hfun : (fun k : ℕ => geom p k * stepVal n G (s0 :: T) (redirect n (pos + (k : Int)))) =
        fun k : ℕ => geom p k * stepVal n (outProb n p) (s0 :: T) (redirect n (pos + (k : Int))) := by
      funext k
      congr 1
      simp only [stepVal]
      by_cases hc : redirect n (pos + (k : Int)) < n * n ∧ s0 = redirect n (pos + (k : Int))
      · rw [if_pos hc, if_pos hc, ← hc.2, hT]
      · rw [if_neg hc, if_neg hc]
    rw [hfun] at h1
    exact h1.unique h2

/-! ### the law as an iterated sum over the skips -/

/-- expectation of `φ (k₁, …, k_m)` over `m` independent geometric(p) skips, as an iterated sum
    `Σ_{k₁} geom(k₁) Σ_{k₂} geom(k₂) … φ [k₁, …, k_m]` -/
noncomputable def skipsSum (p : ℝ) : Nat → (List Int → ℝ) → ℝ
  | 0, φ => φ []
  | m + 1, φ => ∑' k : ℕ, geom p k * skipsSum p m (fun ks => φ ((k : Int) :: ks))

theorem skipsSum_succ (p : ℝ) (m : Nat) (φ : List Int → ℝ) :
    skipsSum p (m + 1) φ = ∑' k : ℕ, geom p k * skipsSum p m (fun ks => φ ((k : Int) :: ks)) := rfl

private theorem skipsSum_zero (p : ℝ) : ∀ m : Nat, skipsSum p m (fun _ => 0) = 0 := by
  intro m
  induction m with
  | zero => rfl
  | succ m ih => rw [skipsSum_succ]; simp only [ih, mul_zero, tsum_zero]

/-- `skipsSum` only looks at lists of `m` non-negative skips -/
theorem skipsSum_congr (p : ℝ) : ∀ (m : Nat) (φ ψ : List Int → ℝ),
    (∀ ks : List Int, ks.length = m → (∀ k ∈ ks, 0 ≤ k) → φ ks = ψ ks) → skipsSum p m φ = skipsSum p m ψ := by
  intro m
  induction m with
  | zero => intro φ ψ h; exact h [] rfl (by simp)
  | succ m ih =>
    intro φ ψ h
    rw [skipsSum_succ, skipsSum_succ]
    apply tsum_congr
    intro k
    congr 1
    apply ih
    intro ks hlen hnn
    apply h
    · simp [hlen]
    · intro x hx
      rcases List.mem_cons.mp hx with rfl | hx
      · omega
      · exact hnn x hx

private theorem redirRun_acc (n : Int) : ∀ (ks : List Int) (pos : Int) (acc : List Int),
    redirRun n ks pos acc = (redirRun n ks pos []).map (acc ++ ·) := by
  intro ks
  induction ks with
  | nil => intro pos acc; simp [redirRun]
  | cons k rest ih =>
    intro pos acc
    rw [redirRun, redirRun]
    by_cases h : n * n ≤ redirect n (pos + k)
    · rw [if_pos h, if_pos h]; simp
    · rw [if_neg h, if_neg h, ih _ (acc ++ _), ih _ ([] ++ _), Option.map_map]
      congr 1; funext x; simp

private theorem redirRun_cons_iff (n : Int) (k : Int) (ks : List Int) (pos : Int) (S : List Int) :
    redirRun n (k :: ks) pos [] = some S ↔
      (n * n ≤ redirect n (pos + k) ∧ S = []) ∨
      (redirect n (pos + k) < n * n ∧
        ∃ T, S = redirect n (pos + k) :: T ∧ redirRun n ks (redirect n (pos + k) + 1) [] = some T) := by
  rw [redirRun]
  by_cases h : n * n ≤ redirect n (pos + k)
  · rw [if_pos h]
    constructor
    · intro hh; exact Or.inl ⟨h, (Option.some.inj hh).symm⟩
    · rintro (⟨_, rfl⟩ | ⟨h', _⟩)
      · rfl
      · omega
  · rw [if_neg h, redirRun_acc]
    constructor
    · intro hh
      right
      refine ⟨by omega, ?_⟩
      cases hr : redirRun n ks (redirect n (pos + k) + 1) [] with
      | none => rw [hr] at hh; simp at hh
      | some out =>
        rw [hr] at hh
        simp only [Option.map_some, List.nil_append, List.cons_append, Option.some.injEq] at hh
        exact ⟨out, hh.symm, rfl⟩
    · rintro (⟨h', _⟩ | ⟨_, T, rfl, hT⟩)
      · omega
      · rw [hT]; simp

/-- **the law of the redirect process**: the probability — iterated sum over `|S| + 1` independent geometric(p) skips —
    that the process started at `pos` outputs exactly `S` is the product law `outProb`.  (Every level of the iterated
    sum is a genuine `HasSum`: `C16_redirect_first_step`.) -/
theorem C16_redirect_process_law (n : Int) (hn : 1 ≤ n) (p : ℝ) (hp0 : 0 < p) (hp1 : p < 1) :
    ∀ (S : List Int) (pos : Int), RedirOk n pos S →
      skipsSum p (S.length + 1) (fun ks => if redirRun n ks pos [] = some S then 1 else 0) = outProb n p pos S := by
  intro S
  induction S with
  | nil =>
    intro pos hok
    have hfs := C16_redirect_first_step n hn p hp0 hp1 pos [] hok
    rw [← hfs.tsum_eq, List.length_nil, skipsSum_succ]
    apply tsum_congr
    intro k
    congr 1
    simp only [skipsSum, stepVal]
    apply if_congr _ rfl rfl
    rw [redirRun_cons_iff]
    constructor
    · rintro (⟨h, _⟩ | ⟨_, T, hT, _⟩)
      · exact h
      · simp at hT
    · intro h; exact Or.inl ⟨h, rfl⟩
  | cons s0 T ih =>
    intro pos hok
    have hfs := C16_redirect_first_step n hn p hp0 hp1 pos (s0 :: T) hok
    rw [← hfs.tsum_eq, List.length_cons, skipsSum_succ]
    apply tsum_congr
    intro k
    congr 1
    simp only [stepVal]
    by_cases hc : redirect n (pos + (k : Int)) < n * n ∧ s0 = redirect n (pos + (k : Int))
    · rw [if_pos hc]
      obtain ⟨hc1, hc2⟩ := hc
      rw [← hc2, ← ih (s0 + 1) (redirOk_tail n pos s0 T hok)]
      congr 1
      funext ks
      apply if_congr _ rfl rfl
      rw [redirRun_cons_iff, ← hc2]
      constructor
      · rintro (⟨_, h⟩ | ⟨_, T', hT', hr⟩)
        · simp at h
        · rw [(List.cons.inj hT').2]; exact hr
      · intro h; exact Or.inr ⟨by omega, T, rfl, h⟩
    · rw [if_neg hc]
      refine Eq.trans ?_ (skipsSum_zero p (T.length + 1))
      congr 1
      funext ks
      rw [if_neg]
      rw [redirRun_cons_iff]
      rintro (⟨_, h⟩ | ⟨h1, T', hT', _⟩)
      · simp at h
      · exact hc ⟨h1, (List.cons.inj hT').1⟩

/-- from position 0 the product runs over all `n * n` slots -/
theorem outProb_zero (n : Int) (p : ℝ) (S : List Int) :
    outProb n p 0 S = ∏ t ∈ Finset.range (n * n).toNat, slotFactor n p S (t : Int) := by
  unfold outProb
  rw [show n * n - 0 = n * n by omega]
  apply Finset.prod_congr rfl
  intro i _
  rw [show (0 : Int) + i = i by omega]

/-- **the directed generator draws from the product law** (given independent geometric skips): for every strictly
    increasing list `S` of non-diagonal slots, the probability — iterated sum over `|S| + 1` independent geometric(p)
    skips — that the model of `fast_gnp_random_graph_directed` emits exactly the pairs of `S` is
    `Π_{slots t} (if t ∈ S then slotP t else 1 - slotP t)`: the ordered pairs are present independently, with probability
    `p`, except the pairs `(v, v+1)` (the slot directly after a diagonal slot), which have probability `1 - (1-p)²`. -/
theorem C16_gnp_directed_law (n : Int) (hn : 2 ≤ n) (hsmall : n ≤ 2147483647) (p : ℝ) (hp0 : 0 < p) (hp1 : p < 1)
    (S : List Int) (hok : RedirOk n 0 S) :
    skipsSum p (S.length + 1)
        (fun ks => if (gnpDirected n (ks.length + 1) ks 0 (-1) []).map (List.map (slotDir n)) = some S then 1 else 0) =
      ∏ t ∈ Finset.range (n * n).toNat, slotFactor n p S (t : Int) := by
  rw [← outProb_zero, ← C16_redirect_process_law n (by omega) p hp0 hp1 S 0 hok]
  apply skipsSum_congr
  intro ks _ hnn
  rw [C16_gnp_directed_is_redirect_process n hn hsmall ks hnn]

/-! ### Part C: the mean number of edges -/

/-- the mean number of selected slots (edges) under the product law: the sum of the marginal probabilities -/
noncomputable def dirMean (n : Int) (p : ℝ) : ℝ := ∑ t ∈ Finset.range (n * n).toNat, slotP n p (t : Int)

private theorem pred_diag_iff (n t : Int) (hn : 1 ≤ n) : (t - 1) % (n + 1) = 0 ↔ t % (n + 1) = 1 := by
  have h0 := Int.emod_nonneg t (show n + 1 ≠ 0 by omega)
  have h1 := Int.emod_lt_of_pos t (show 0 < n + 1 by omega)
  have e : t - 1 = (t % (n + 1) - 1) + (t / (n + 1)) * (n + 1) := by
    have := Int.emod_add_ediv_mul t (n + 1)
    omega
  rw [e, Int.add_mul_emod_self_right]
  generalize t % (n + 1) = r at *
  by_cases hr : 1 ≤ r
  · rw [Int.emod_eq_of_lt (by omega) (by omega)]; omega
  · have : r = 0 := by omega
    subst this
    rw [← Int.add_emod_right, Int.emod_eq_of_lt (by omega) (by omega)]; omega

private theorem slotP_block (N : ℕ) (hN : 1 ≤ N) (p : ℝ) (j i : ℕ) (hi : i < N + 1) :
    slotP (N : Int) p ((j * (N + 1) + i : ℕ) : Int) = if i = 0 then 0 else if i = 1 then 1 - (1 - p) ^ 2 else p := by
  have hmod : ((j * (N + 1) + i : ℕ) : Int) % ((N : Int) + 1) = i := by
    push_cast
    rw [show ((j : Int) * ((N : Int) + 1) + (i : Int)) = (i : Int) + (j : Int) * ((N : Int) + 1) by ring,
      Int.add_mul_emod_self_right, Int.emod_eq_of_lt (by omega) (by omega)]
  have hpred := pred_diag_iff (N : Int) ((j * (N + 1) + i : ℕ) : Int) (by omega)
  rw [hmod] at hpred
  unfold slotP
  by_cases h0 : i = 0
  · rw [if_pos (by rw [hmod]; omega), if_pos h0]
  · rw [if_neg (by rw [hmod]; omega), if_neg h0]
    by_cases h1 : i = 1
    · rw [if_pos (hpred.mpr (by omega)), if_pos h1]
    · rw [if_neg (fun h => h1 (by have := hpred.mp h; omega)), if_neg h1]

private theorem block_sum (N : ℕ) (hN : 1 ≤ N) (p : ℝ) (j : ℕ) :
    ∑ i ∈ Finset.range (N + 1), slotP (N : Int) p ((j * (N + 1) + i : ℕ) : Int) =
      (1 - (1 - p) ^ 2) + ((N : ℝ) - 1) * p := by
  rw [Finset.sum_congr rfl (fun i hi => slotP_block N hN p j i (Finset.mem_range.mp hi))]
  obtain ⟨M, rfl⟩ : ∃ M, N = M + 1 := ⟨N - 1, by omega⟩
  rw [Finset.sum_range_succ', Finset.sum_range_succ']
  have : ∀ i ∈ Finset.range M, (if i + 1 + 1 = 0 then (0 : ℝ) else if i + 1 + 1 = 1 then 1 - (1 - p) ^ 2 else p) = p := by
    intro i _; rw [if_neg (by omega), if_neg (by omega)]
  rw [Finset.sum_congr rfl this, Finset.sum_const, Finset.card_range, nsmul_eq_mul]
  simp
  ring

private theorem blocks_sum (N : ℕ) (hN : 1 ≤ N) (p : ℝ) : ∀ m : ℕ,
    ∑ t ∈ Finset.range (m * (N + 1)), slotP (N : Int) p (t : Int) = m * ((1 - (1 - p) ^ 2) + ((N : ℝ) - 1) * p) := by
  intro m
  induction m with
  | zero => simp
  | succ m ih =>
    rw [Nat.succ_mul, Finset.sum_range_add, ih, block_sum N hN p m]
    push_cast; ring

/-- **mean number of edges of the directed generator**: `p (n² - n) + p (1 - p) (n - 1)` — the `n - 1` slots that
    directly follow a diagonal slot are selected with probability `p + (1-p) p` -/
theorem C16_gnp_directed_mean (n : Int) (hn : 2 ≤ n) (p : ℝ) :
    dirMean n p = p * ((n : ℝ) * n - n) + p * (1 - p) * ((n : ℝ) - 1) := by
  obtain ⟨N, rfl⟩ : ∃ N : ℕ, n = N := ⟨n.toNat, by omega⟩
  have hN : 2 ≤ N := by omega
  unfold dirMean
  have e : ((N : Int) * N).toNat = (N - 1) * (N + 1) + 1 := by
    obtain ⟨M, rfl⟩ : ∃ M, N = M + 1 := ⟨N - 1, by omega⟩
    rw [show ((M + 1 : ℕ) : Int) * ((M + 1 : ℕ) : Int) = ((((M + 1) * (M + 1) : ℕ)) : Int) by push_cast; ring,
      Int.toNat_natCast]
    simp only [Nat.add_sub_cancel]
    ring
  rw [e, Finset.sum_range_succ, blocks_sum N (by omega) p]
  have hlast : slotP (N : Int) p (((N - 1) * (N + 1) : ℕ) : Int) = 0 := by
    have := slotP_block N (by omega) p (N - 1) 0 (by omega)
    rwa [if_pos rfl, Nat.add_zero] at this
  rw [hlast]
  have hc : ((N - 1 : ℕ) : ℝ) = (N : ℝ) - 1 := by
    rw [Nat.cast_sub (by omega)]; simp
  rw [hc]
  push_cast
  ring

/-- **the allowance**: the mean exceeds the G(n,p) mean `p n (n-1)` by `p (1-p) (n-1)`, a relative excess of
    `(1-p)/n ≤ 1/(n-1)` -/
theorem C16_gnp_directed_mean_excess (n : Int) (hn : 2 ≤ n) (p : ℝ) (hp0 : 0 ≤ p) (hp1 : p ≤ 1) :
    dirMean n p - p * ((n : ℝ) * n - n) = p * (1 - p) * ((n : ℝ) - 1) ∧
    p * ((n : ℝ) * n - n) ≤ dirMean n p ∧
    |dirMean n p - p * ((n : ℝ) * n - n)| ≤ p * ((n : ℝ) * n - n) / ((n : ℝ) - 1) := by
  have hmean := C16_gnp_directed_mean n hn p
  have hn' : (2 : ℝ) ≤ (n : ℝ) := by exact_mod_cast hn
  have hpos : 0 < (n : ℝ) - 1 := by linarith
  have hex : 0 ≤ p * (1 - p) * ((n : ℝ) - 1) :=
    mul_nonneg (mul_nonneg hp0 (by linarith)) hpos.le
  refine ⟨by rw [hmean]; ring, by rw [hmean]; linarith, ?_⟩
  rw [hmean, show p * ((n : ℝ) * n - n) + p * (1 - p) * ((n : ℝ) - 1) - p * ((n : ℝ) * n - n) =
    p * (1 - p) * ((n : ℝ) - 1) by ring, abs_of_nonneg hex, le_div_iff₀ hpos]
  have h1 : p * (1 - p) * ((n : ℝ) - 1) * ((n : ℝ) - 1) ≤ p * 1 * (n : ℝ) * ((n : ℝ) - 1) := by
    apply mul_le_mul_of_nonneg_right _ hpos.le
    have := mul_le_mul (mul_le_mul_of_nonneg_left (show 1 - p ≤ 1 by linarith) hp0)
      (show (n : ℝ) - 1 ≤ n by linarith) hpos.le (by nlinarith)
    simpa using this
  calc p * (1 - p) * ((n : ℝ) - 1) * ((n : ℝ) - 1) ≤ p * 1 * (n : ℝ) * ((n : ℝ) - 1) := h1
    _ = p * ((n : ℝ) * n - n) := by ring

/-! ### the product law is a probability law whose mean is `dirMean` -/

private theorem bern_total_mean (π : ℕ → ℝ) (s : Finset ℕ) :
    (∑ A ∈ s.powerset, ∏ i ∈ s, (if i ∈ A then π i else 1 - π i)) = 1 ∧
    (∑ A ∈ s.powerset, (A.card : ℝ) * ∏ i ∈ s, (if i ∈ A then π i else 1 - π i)) = ∑ i ∈ s, π i := by
  induction s using Finset.induction_on with
  | empty => simp
  | insert a s ha ih =>
    obtain ⟨ihT, ihE⟩ := ih
    have hA : ∀ A ∈ s.powerset, ∏ i ∈ insert a s, (if i ∈ A then π i else 1 - π i) =
        (1 - π a) * ∏ i ∈ s, (if i ∈ A then π i else 1 - π i) := by
      intro A hA
      have haA : a ∉ A := fun h => ha (Finset.mem_powerset.mp hA h)
      rw [Finset.prod_insert ha, if_neg haA]
    have hB : ∀ A ∈ s.powerset, ∏ i ∈ insert a s, (if i ∈ insert a A then π i else 1 - π i) =
        π a * ∏ i ∈ s, (if i ∈ A then π i else 1 - π i) := by
      intro A _
      rw [Finset.prod_insert ha, if_pos (Finset.mem_insert_self a A)]
      congr 1
      apply Finset.prod_congr rfl
      intro i hi
      have hne : i ≠ a := fun h => ha (h ▸ hi)
      by_cases hiA : i ∈ A
      · rw [if_pos hiA, if_pos (Finset.mem_insert_of_mem hiA)]
      · rw [if_neg hiA, if_neg (fun h => by rcases Finset.mem_insert.mp h with h | h; exact hne h; exact hiA h)]
    have hcard : ∀ A ∈ s.powerset, ((insert a A).card : ℝ) = A.card + 1 := by
      intro A hA
      have haA : a ∉ A := fun h => ha (Finset.mem_powerset.mp hA h)
      rw [Finset.card_insert_of_notMem haA]; push_cast; ring
    constructor
    · rw [Finset.sum_powerset_insert ha, Finset.sum_congr rfl hA, Finset.sum_congr rfl hB, ← Finset.mul_sum,
        ← Finset.mul_sum, ihT]; ring
    · rw [Finset.sum_powerset_insert ha, Finset.sum_insert ha]
      have e1 : ∀ A ∈ s.powerset, (A.card : ℝ) * ∏ i ∈ insert a s, (if i ∈ A then π i else 1 - π i) =
          (1 - π a) * ((A.card : ℝ) * ∏ i ∈ s, (if i ∈ A then π i else 1 - π i)) := by
        intro A hA'; rw [hA A hA']; ring
      have e2 : ∀ A ∈ s.powerset,
          ((insert a A).card : ℝ) * ∏ i ∈ insert a s, (if i ∈ insert a A then π i else 1 - π i) =
          π a * ((A.card : ℝ) * ∏ i ∈ s, (if i ∈ A then π i else 1 - π i)) +
            π a * ∏ i ∈ s, (if i ∈ A then π i else 1 - π i) := by
        intro A hA'; rw [hB A hA', hcard A hA']; ring
      rw [Finset.sum_congr rfl e1, Finset.sum_congr rfl e2, Finset.sum_add_distrib, ← Finset.mul_sum,
        ← Finset.mul_sum, ← Finset.mul_sum, ihT, ihE]
      ring

/-- the product law over all sets `A` of slots has total mass one -/
theorem C16_gnp_directed_law_total (n : Int) (p : ℝ) :
    ∑ A ∈ (Finset.range (n * n).toNat).powerset,
      ∏ t ∈ Finset.range (n * n).toNat, (if t ∈ A then slotP n p (t : Int) else 1 - slotP n p (t : Int)) = 1 :=
  (bern_total_mean (fun t => slotP n p (t : Int)) _).1

/-- the expected number of selected slots under the product law is `dirMean`, the sum of the marginals -/
theorem C16_gnp_directed_law_mean (n : Int) (p : ℝ) :
    ∑ A ∈ (Finset.range (n * n).toNat).powerset,
      (A.card : ℝ) *
        ∏ t ∈ Finset.range (n * n).toNat, (if t ∈ A then slotP n p (t : Int) else 1 - slotP n p (t : Int)) =
      dirMean n p :=
  (bern_total_mean (fun t => slotP n p (t : Int)) _).2

/-- non-vacuity (n = 3): the output `[1, 3, 5]` is valid from position 0; slot 1 = (0,1) and slot 5 = (1,2) directly
    follow a diagonal slot, slot 3 = (1,0) does not; the hypotheses of `C16_gnp_directed_law` hold and its right-hand
    side is the explicit product below -/
example (p : ℝ) : RedirOk 3 0 [1, 3, 5] ∧
    slotP 3 p 0 = 0 ∧ slotP 3 p 1 = 1 - (1 - p) ^ 2 ∧ slotP 3 p 3 = p ∧ slotP 3 p 5 = 1 - (1 - p) ^ 2 ∧
    outProb 3 p 0 [1, 3, 5] =
      1 * (1 - (1 - p) ^ 2) * (1 - p) * p * 1 * (1 - (1 - p) ^ 2) * (1 - p) * (1 - p) * 1 := by
  refine ⟨⟨by decide, by simp [SlotsOk], by decide⟩, by simp [slotP], by simp [slotP], by simp [slotP],
    by simp [slotP], ?_⟩
  rw [outProb_zero]
  simp [Finset.prod_range_succ, slotFactor, slotP]

end Graphrs
