/-
  C20 breadth, part 3: `eigenvector_centrality` over EVERY scalar record `Scalar α` (`Float`: what the driver runs; `ℝ`:
  C18Model).  The two `unwrap`s of the inner loop (`get_edge(..).unwrap()`, `x.get_mut(..).unwrap()`) and the one of
  `get_successors_or_neighbors` are never reached on a well-formed store: the key set of the iterate is the node set
  throughout, every neighbour is joined by a stored edge, and multi-edge graphs are turned away with `WrongMethod`
  before the loop.  No hypothesis on weights, tolerance or iteration count.
-/
import GraphrsModel.Props.C20BreadthBase
import GraphrsModel.Lemmas.C11ModelAux
namespace Graphrs
open C20B

namespace C20B

/-- the key set of the iterate is the node set -/
def KeysAre {α : Type} (s : Store) (x : List (Nat × α)) : Prop := ∀ k, k ∈ x.map (·.1) ↔ k ∈ s.names

theorem keysAre_ainsert {α : Type} (s : Store) (x : List (Nat × α)) (k : Nat) (v : α) (hx : KeysAre s x) (hk : k ∈ s.names) :
    KeysAre s (ainsert x k v) := by
  intro k'
  rw [C02.keys_ainsert, if_pos ((hx k).2 hk)]
  exact hx k'

theorem eigInner_np {α} (S : Scalar α) (s : Store) (h : s.wf = true) (hm : s.specs.multi = false) (weighted : Bool)
    (kv : Nat × α) (x : List (Nat × α)) (hx : KeysAre s x) (nbr : Node) (hnbr : s.hasEdge kv.1 nbr.name = true) :
    (s.eigInnerG S weighted kv (.ok x) nbr).isPanic = false ∧
    ∀ x', s.eigInnerG S weighted kv (.ok x) nbr = .ok x' → KeysAre s x' := by
  obtain ⟨e, he, _⟩ := arcWeight_of_edge s h hm weighted kv.1 nbr.name hnbr
  have hn : nbr.name ∈ s.names := (hasEdge_names s h hnbr).2
  obtain ⟨old, hold⟩ := Option.isSome_iff_exists.1 ((C02.alookup_isSome x nbr.name).2 ((hx _).2 hn))
  have e1 : s.eigInnerG S weighted kv (.ok x) nbr =
      .ok (ainsert x nbr.name (S.add old (S.mul kv.2 (eigWeightG S weighted e)))) := by
    simp [Store.eigInnerG, bind, Outcome.bind, he, Outcome.unwrap, hold]
  rw [e1]
  refine ⟨rfl, fun x' hx' => ?_⟩
  cases hx'
  exact keysAre_ainsert s x _ _ hx hn

theorem eigInner_err {α} (S : Scalar α) (s : Store) (weighted : Bool) (kv : Nat × α) (k : ErrKind) (nbr : Node) :
    s.eigInnerG S weighted kv (.err k) nbr = .err k := rfl

theorem eigOuter_np {α} (S : Scalar α) (s : Store) (h : s.wf = true) (hm : s.specs.multi = false) (weighted : Bool)
    (kv : Nat × α) (hkv : kv.1 ∈ s.names) (x : List (Nat × α)) (hx : KeysAre s x) :
    (s.eigOuterG S weighted (.ok x) kv).isPanic = false ∧
    ∀ x', s.eigOuterG S weighted (.ok x) kv = .ok x' → KeysAre s x' := by
  obtain ⟨l, hl, hmem, _⟩ := succOrNbrs_ok s h kv.1 ((hasNode_iff s h kv.1).2 hkv)
  have e1 : s.eigOuterG S weighted (.ok x) kv = l.foldl (s.eigInnerG S weighted kv) (.ok x) := by
    simp [Store.eigOuterG, bind, Outcome.bind, hl]
  rw [e1]
  refine np_foldl l _ (KeysAre s) ?_ (eigInner_err S s weighted kv) _ ⟨rfl, fun b hb => by cases hb; exact hx⟩
  intro b nbr hnbr hb
  exact eigInner_np S s h hm weighted kv b hb nbr ((hmem nbr.name).1 (List.mem_map.2 ⟨nbr, hnbr, rfl⟩))

theorem eigAcc_np {α} (S : Scalar α) (s : Store) (h : s.wf = true) (hm : s.specs.multi = false) (weighted : Bool)
    (xlast : List (Nat × α)) (hx : KeysAre s xlast) :
    (s.eigAccG S weighted xlast).isPanic = false ∧ ∀ x', s.eigAccG S weighted xlast = .ok x' → KeysAre s x' := by
  unfold Store.eigAccG
  refine np_foldl xlast _ (KeysAre s) ?_ (fun _ _ => rfl) _ ⟨rfl, fun b hb => by cases hb; exact hx⟩
  intro b kv hkv hb
  exact eigOuter_np S s h hm weighted kv ((hx kv.1).1 (List.mem_map.2 ⟨kv, hkv, rfl⟩)) b hb

theorem eigStep_np {α} (S : Scalar α) (s : Store) (h : s.wf = true) (hm : s.specs.multi = false) (weighted : Bool)
    (xlast : List (Nat × α)) (hx : KeysAre s xlast) :
    (s.eigStepG S weighted xlast).isPanic = false ∧ ∀ x', s.eigStepG S weighted xlast = .ok x' → KeysAre s x' := by
  obtain ⟨h1, h2⟩ := eigAcc_np S s h hm weighted xlast hx
  unfold Store.eigStepG
  cases hacc : s.eigAccG S weighted xlast with
  | ok x =>
    refine ⟨rfl, fun x' hx' => ?_⟩
    have : x' = eigNormaliseG S x := (Outcome.ok.inj hx').symm
    subst this
    intro k
    rw [← h2 x hacc k]
    simp [eigNormaliseG, List.map_map, Function.comp_def]
  | err k => exact ⟨rfl, fun x' hx' => by cases hx'⟩
  | panic site => rw [hacc] at h1; cases h1

theorem eigLoop_np {α} (S : Scalar α) (s : Store) (h : s.wf = true) (hm : s.specs.multi = false) (weighted : Bool)
    (nnodes : Nat) (tol : α) : ∀ (fuel it : Nat) (xlast : List (Nat × α)) (margin : α), KeysAre s xlast →
    (eigLoopG S s weighted nnodes tol fuel it xlast margin).isPanic = false := by
  intro fuel
  induction fuel with
  | zero => intro it xlast margin _; rfl
  | succ fuel ih =>
    intro it xlast margin hx
    obtain ⟨h1, h2⟩ := eigStep_np S s h hm weighted xlast hx
    unfold eigLoopG
    cases hstep : s.eigStepG S weighted xlast with
    | ok x =>
      simp only
      split
      · rfl
      · exact ih _ x _ (h2 x hstep)
    | err k => rfl
    | panic site => rw [hstep] at h1; cases h1

theorem keysAre_x0 {α : Type} (s : Store) (v : α) :
    KeysAre s (s.getAllNodes.foldl (fun l nd => ainsert l nd.name v) []) := by
  intro k
  rw [C11M.keys_foldl_ainsert (fun nd : Node => nd.name) (fun _ => v) s.getAllNodes [] k]
  simp [Store.getAllNodes, Store.names]

end C20B

/-- `eigenvector_centrality` over every scalar: WrongMethod (multi-edge graph), otherwise a value or
    PowerIterationFailedConvergence (`value = none`), never a panic; for every weight mode, iteration count, tolerance -/
theorem C20_model_eigenvector_no_panic {α} (S : Scalar α) (s : Store) (h : s.wf = true) (weighted : Bool)
    (maxIter : Nat) (tol margin0 : α) : (s.eigenvectorG S weighted maxIter tol margin0).isPanic = false := by
  unfold Store.eigenvectorG
  cases hm : s.specs.multi
  · have e1 : s.ensureNotMulti = .ok () := by simp [Store.ensureNotMulti, hm]
    simp only [e1, bind, Outcome.bind]
    exact eigLoop_np S s h hm weighted _ tol maxIter 0 _ margin0 (keysAre_x0 s _)
  · have e1 : s.ensureNotMulti = .err .WrongMethod := by simp [Store.ensureNotMulti, hm]
    simp only [e1, bind, Outcome.bind]
    rfl

/-- the `Float` instance the driver executes -/
theorem C20_model_eigenvector_float_no_panic (s : Store) (h : s.wf = true) (weighted : Bool) (maxIter : Nat)
    (tol : Float) : (s.eigenvector weighted maxIter tol).isPanic = false :=
  C20_model_eigenvector_no_panic floatScalar s h weighted maxIter tol _

/-- one step, on any iterate whose keys are the nodes -/
theorem C20_model_eig_step_no_panic {α} (S : Scalar α) (s : Store) (h : s.wf = true) (hm : s.specs.multi = false)
    (weighted : Bool) (xlast : List (Nat × α)) (hk : ∀ k, k ∈ xlast.map (·.1) ↔ k ∈ s.names) :
    (s.eigStepG S weighted xlast).isPanic = false :=
  (eigStep_np S s h hm weighted xlast hk).1

end Graphrs
