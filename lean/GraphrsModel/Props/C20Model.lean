/-
  C20 at model level, collected: on *every* well-formed store - hence on the empty graph, a single node, edgeless and
  disconnected graphs of every GraphSpecs record - the models of the algorithms return a value or a documented error,
  never a panic. Each line is a corollary of the model-level theorem of the property that owns the algorithm.
  (Queries and degree maps: Props/C20.lean; strong components, Louvain index sites: C10Model, C13Model.)
-/
import GraphrsModel.Props.C05Full
import GraphrsModel.Props.C06Model
import GraphrsModel.Props.C08Api
import GraphrsModel.Props.C10Model
import GraphrsModel.Props.C12Weighted
import GraphrsModel.Props.C13Model
namespace Graphrs
open LouvainFull

private theorem not_panic_of_ok {α} {o : Outcome α} (h : ∃ v, o = .ok v) : o.isPanic = false := by
  obtain ⟨v, rfl⟩ := h; rfl

theorem C20_model_betweenness_no_panic (s : Store) (h : s.wf = true) (weighted normalized : Bool) :
    (s.betweenness weighted normalized).isPanic = false :=
  not_panic_of_ok (C05_model_ok s h weighted normalized)

theorem C20_model_closeness_no_panic (s : Store) (h : s.wf = true) (wfFlag : Bool) :
    (s.closeness false wfFlag).isPanic = false :=
  not_panic_of_ok (C06_closeness_unweighted_ok s h wfFlag)

theorem C20_model_strong_components_no_panic (s : Store) (h : s.wf = true) :
    s.stronglyConnectedComponents.isPanic = false :=
  C10_model_strong_no_panic s h

theorem C20_model_louvain_no_panic (s : Store) (h : s.wf = true) (weighted : Bool) (res threshold : Rat) (perms : List (List Nat)) :
    (louvainPartitions s weighted res threshold perms).isPanic = false :=
  not_panic_of_ok (C13_model_always_ok s h weighted res threshold perms)

/-- `single_source`: a value for a known source, `NodeNotFound` for an unknown one -/
theorem C20_model_single_source_no_panic (s : Store) (h : s.wf = true) (hent : s.entOk = true) (weighted : Bool)
    (hc : s.costsOk weighted) (src : Nat) (cutoff2 : Option Int) (firstOnly withPaths : Bool) :
    (s.singleSource weighted src none cutoff2 firstOnly withPaths).isPanic = false := by
  cases hs : s.hasNode src
  · rw [C04_model_singleSource_unknown_corrected s h weighted src hs none cutoff2 firstOnly withPaths]; rfl
  · exact not_panic_of_ok (C04_model_singleSource_ok s h hent weighted hc src hs cutoff2 firstOnly withPaths)

/-- `modularity`: a value for a true partition (sets as duplicate-free lists), `NotAPartition` otherwise -/
theorem C20_model_modularity_no_panic (s : Store) (h : s.wf = true) (comms : List (List Nat)) (weighted : Bool) (res : Rat)
    (hsets : ∀ c ∈ comms, c.Nodup) : (s.modularity comms weighted res).isPanic = false := by
  cases hp : s.isPartition comms
  · have := C12_not_a_partition s comms weighted res hp
    revert this
    cases s.modularity comms weighted res with
    | ok v => intro h; exact absurd h (by simp)
    | err k => intro _; rfl
    | panic site => intro h; exact absurd h (by simp)
  · rw [C12W.model_eq s h comms weighted res hp hsets]; rfl

/-- in particular on the empty graph of every kind: every GraphSpecs record -/
theorem C20_model_empty_graph (sp : Specs) (weighted normalized : Bool) (res threshold : Rat) (perms : List (List Nat)) :
    ((Store.new sp).betweenness weighted normalized).isPanic = false ∧
    ((Store.new sp).closeness false normalized).isPanic = false ∧
    (Store.new sp).stronglyConnectedComponents.isPanic = false ∧
    (louvainPartitions (Store.new sp) weighted res threshold perms).isPanic = false ∧
    ((Store.new sp).modularity [] weighted res).isPanic = false :=
  ⟨C20_model_betweenness_no_panic _ (C01_new_wf sp) _ _, C20_model_closeness_no_panic _ (C01_new_wf sp) _,
   C20_model_strong_components_no_panic _ (C01_new_wf sp), C20_model_louvain_no_panic _ (C01_new_wf sp) _ _ _ _,
   C20_model_modularity_no_panic _ (C01_new_wf sp) [] _ _ (by simp)⟩

end Graphrs
