/-
  C09 / C12 at model level, weighted half: the weighted degree functions of the model return the abstract weighted
  degrees on every well-formed store, and the weighted modularity of the model is Newman's formula.
  (Unweighted halves: Props/C09Model.lean.)
-/
import GraphrsModel.Props.C09Model
import GraphrsModel.Lemmas.C12WAux
namespace Graphrs

-- some statements carry hypotheses their proof does not need
set_option linter.unusedVariables false

private theorem getNode_isNone_of (s : Store) (x : Nat) (hx : s.hasNode x = false) : (s.getNode x).isNone = true := by
  unfold Store.hasNode at hx
  cases h : s.getNode x <;> simp_all

private theorem hasNode_names (s : Store) (h : s.wf = true) (x : Nat) : s.hasNode x = true ↔ x ∈ s.names :=
  C02.hasNode_mem (C02.nodesP_of s (C09M.wf_parts s h).1) x

/-- weighted degree: in + out weight for a directed graph; for an undirected graph the weight of the touching edges with
    a self-loop counted twice; `none` (NaN) as soon as one of the edges has no weight -/
theorem C09_model_weighted_degree (s : Store) (h : s.wf = true) (x : Nat) :
    s.getNodeWeightedDegree x = (if s.hasNode x then some (s.abs.weightedDegree s.specs.directed x) else none) := by
  cases hx : s.hasNode x
  · simp [Store.getNodeWeightedDegree, (C02_node_errors s x).2 (getNode_isNone_of s x hx)]
  · obtain ⟨l, hl, hp⟩ := C02_edgesForNode s h x hx
    simp only [Store.getNodeWeightedDegree, hl, if_true, C12W.store_sumW_eq]
    cases hd : s.specs.directed
    · simp only [Abs.edgesForNode, hd, Bool.false_eq_true, if_false] at hp
      simp only [Abs.weightedDegree, Bool.false_eq_true, if_false]
      rw [C12W.sumW_perm hp, C12W.sumW_perm (hp.filter _), Abs.touching, List.filter_filter]
      have hf : s.abs.edges.filter (fun a => a.u == x && a.v == x && (a.u == x || a.v == x))
          = s.abs.edges.filter (fun e => e.u == x && e.v == x) := by
        apply List.filter_congr
        intro e _
        cases e.u == x <;> cases e.v == x <;> rfl
      rw [hf]
    · simp only [Abs.edgesForNode, hd, if_true] at hp
      simp only [Abs.weightedDegree, if_true]
      rw [C12W.sumW_perm hp, C12W.sumW_append, C12W.W_add_zero]

theorem C09_model_weighted_in_out_degree (s : Store) (h : s.wf = true) (x : Nat) :
    s.getNodeWeightedInDegree x = (if s.specs.directed && s.hasNode x then some (Abs.sumW (s.abs.inEdges x)) else none) ∧
    s.getNodeWeightedOutDegree x = (if s.specs.directed && s.hasNode x then some (Abs.sumW (s.abs.outEdges x)) else none) := by
  cases hd : s.specs.directed
  · simp [Store.getNodeWeightedInDegree, Store.getNodeWeightedOutDegree, Store.getInEdgesForNode, Store.getOutEdgesForNode, hd]
  · cases hx : s.hasNode x
    · simp [Store.getNodeWeightedInDegree, Store.getNodeWeightedOutDegree, Store.getInEdgesForNode, Store.getOutEdgesForNode, hd,
        getNode_isNone_of s x hx]
    · obtain ⟨l1, hl1, hp1⟩ := C02_inEdges s h hd x hx
      obtain ⟨l2, hl2, hp2⟩ := C02_outEdges s h hd x hx
      simp [Store.getNodeWeightedInDegree, Store.getNodeWeightedOutDegree, hl1, hl2, C12W.store_sumW_eq,
        C12W.sumW_perm hp1, C12W.sumW_perm hp2]

/-- the `*_for_all_nodes` maps: no panic, one entry per node, the abstract value -/
theorem C09_model_weighted_degree_map (s : Store) (h : s.wf = true) :
    ∃ m, s.getWeightedDegreeForAllNodes = .ok m ∧
      ∀ x, alookup m x = (if s.hasNode x then some (s.abs.weightedDegree s.specs.directed x) else none) := by
  obtain ⟨hn, _⟩ := Store.wf_inv h
  refine ⟨_, C09M.forAllNodes_ok s _ s.getNodeWeightedDegree (s.abs.weightedDegree s.specs.directed) hn.names_nodup ?_, ?_⟩
  · intro x hx
    rw [C09_model_weighted_degree s h x, (hasNode_names s h x).2 hx]
    rfl
  · intro x
    rw [C09M.alookup_map_self]
    by_cases hx : x ∈ s.names
    · simp [hx, (hasNode_names s h x).2 hx]
    · have : s.hasNode x = false := by
        rw [Bool.eq_false_iff]; intro hc; exact hx ((hasNode_names s h x).1 hc)
      simp [hx, this]

/-! ### modularity: the model as a pure `Option Rat` expression -/

namespace C12W

/-- the (possibly undefined) weight sum of an edge list, as the specification computes it -/
def S (wt : Bool) (es : List Edge) : Option Rat := Store.sumOpt (es.map (Abs.wOf wt))

/-- one community's term of the model -/
def contrib (res : Rat) (lc m o i nm : Option Rat) : Option Rat :=
  match lc, m, o, i, nm with
  | some lc, some m, some o, some i, some nm => if m == 0 then none else some (lc / m - res * o * i * nm)
  | _, _, _, _, _ => none

/-- the body of the community loop of `Store.modularity` (a copy, with the degree maps abstracted) -/
def stepFn (s : Store) (weighted : Bool) (resolution : Rat) (dir : Bool) (outD inD : List (Nat × Option Rat))
    (m norm : Option Rat) (acc : Outcome (List (Option Rat))) (comm : List Nat) : Outcome (List (Option Rat)) := do
  let l ← acc
  let sub ← s.getSubgraph comm
  let es := sub.allEdges
  let lc : Option Rat := if weighted then Store.sumOpt (es.map fun e => Store.wRat e.w) else some (es.length : Rat)
  let outSum ← comm.foldl (fun a n => do
    let t ← a
    let d ← Outcome.ofOption "modularity: out_degree.get(n).unwrap()" (alookup outD n)
    .ok (match t, d with | some x, some y => some (x + y) | _, _ => none)) (.ok (some (0 : Rat)))
  let inSum ← (if dir then comm.foldl (fun a n => do
    let t ← a
    let d ← Outcome.ofOption "modularity: in_degree.get(n).unwrap()" (alookup inD n)
    .ok (match t, d with | some x, some y => some (x + y) | _, _ => none)) (.ok (some (0 : Rat))) else .ok outSum)
  let c : Option Rat := match lc, m, outSum, inSum, norm with
    | some lc, some m, some o, some i, some nm => if m == 0 then none else some (lc / m - resolution * o * i * nm)
    | _, _, _, _, _ => none
  .ok (l ++ [c])

theorem S_perm (wt : Bool) {l1 l2 : List Edge} (p : l1.Perm l2) : S wt l1 = S wt l2 :=
  sumOpt_perm (p.map _)

theorem lc_eq (wt : Bool) (es : List Edge) :
    (if wt then Store.sumOpt (es.map fun e => Store.wRat e.w) else some ((es.length : Nat) : Rat)) = S wt es := by
  cases wt
  · simp only [Bool.false_eq_true, if_false, S, C09M.sumOpt_wOf_false]
  · simp only [if_true, S, sumOpt_wRat]

/-- the per-community degree sum of the model is the `Option Rat` sum of the looked-up values -/
theorem commFold (site : String) (D : List (Nat × Option Rat)) (comm : List Nat) (g : Nat → Option Rat)
    (hD : ∀ n ∈ comm, alookup D n = some (g n)) :
    comm.foldl (fun a n => do
      let t ← a
      let d ← Outcome.ofOption site (alookup D n)
      Outcome.ok (match t, d with | some x, some y => some (x + y) | _, _ => none)) (.ok (some (0 : Rat)))
      = .ok (Store.sumOpt (comm.map g)) := by
  have : ∀ acc : Option Rat, comm.foldl (fun a n => do
      let t ← a
      let d ← Outcome.ofOption site (alookup D n)
      Outcome.ok (match t, d with | some x, some y => some (x + y) | _, _ => none)) (.ok acc)
      = .ok ((comm.map g).foldl oadd acc) := by
    induction comm with
    | nil => intro acc; rfl
    | cons n l ih =>
      intro acc
      rw [List.foldl_cons, List.map_cons, List.foldl_cons, ← ih (fun m hm => hD m (by simp [hm]))]
      congr 1
      simp only [bind, Outcome.bind, hD n (by simp), Outcome.ofOption]
      cases acc <;> cases g n <;> rfl
  rw [this, sumOpt_eq_foldl]

theorem step_ok (s : Store) (h : s.wf = true) (wt : Bool) (res : Rat) (dir : Bool) (outD inD : List (Nat × Option Rat))
    (m norm : Option Rat) (Do Di : Nat → Option Rat) (comm : List Nat)
    (hout : ∀ n ∈ comm, alookup outD n = some (Do n)) (hin : ∀ n ∈ comm, alookup inD n = some (Di n))
    (acc : List (Option Rat)) :
    stepFn s wt res dir outD inD m norm (.ok acc) comm
      = .ok (acc ++ [contrib res (S wt (s.abs.edges.filter fun e => comm.contains e.u && comm.contains e.v)) m
          (Store.sumOpt (comm.map Do)) (if dir then Store.sumOpt (comm.map Di) else Store.sumOpt (comm.map Do)) norm]) := by
  obtain ⟨t, h1, _, _, h4⟩ := Core_subgraph s h comm
  have hperm : t.allEdges.Perm (s.abs.edges.filter fun e => comm.contains e.u && comm.contains e.v) :=
    C09M.absEq_edges_perm h4
  have e1 := commFold "modularity: out_degree.get(n).unwrap()" outD comm Do hout
  have e2 := commFold "modularity: in_degree.get(n).unwrap()" inD comm Di hin
  simp only [bind, Outcome.bind] at e1 e2
  unfold stepFn
  simp only [bind, Outcome.bind, h1]
  erw [e1]
  cases dir
  · simp only [Bool.false_eq_true, if_false, lc_eq, S_perm wt hperm]
    rfl
  · simp only [if_true]
    erw [e2]
    simp only [lc_eq, S_perm wt hperm]
    rfl

/-- what the degree maps of the model hold for node `x`, as `Option Rat` -/
def Dout (dir wt : Bool) (a : Abs) (x : Nat) : Option Rat :=
  if dir then S wt (a.outEdges x)
  else oadd (S wt (a.touching x)) (S wt (a.edges.filter fun e => e.u == x && e.v == x))

def Din (dir wt : Bool) (a : Abs) (x : Nat) : Option Rat :=
  if dir then S wt (a.inEdges x) else Dout dir wt a x

/-- the model of `modularity` as a pure expression over the abstract graph -/
def gen (dir : Bool) (a : Abs) (wt : Bool) (comms : List (List Nat)) (res : Rat) : Option Rat :=
  let degSum := Store.sumOpt (a.nodeNames.map (Dout dir wt a))
  let m := if dir then degSum else degSum.map (· / 2)
  let norm := degSum.map fun d => if d == 0 then (0 : Rat) else (1 / d) * (1 / d)
  Store.sumOpt (comms.map fun c =>
    contrib res (S wt (a.edges.filter fun e => c.contains e.u && c.contains e.v)) m
      (Store.sumOpt (c.map (Dout dir wt a))) (Store.sumOpt (c.map (Din dir wt a))) norm)

theorem loop_ok (s : Store) (h : s.wf = true) (wt : Bool) (res : Rat) (dir : Bool) (m norm : Option Rat)
    (Do Di : Nat → Option Rat) (comms : List (List Nat)) (hnames : ∀ c ∈ comms, ∀ x ∈ c, x ∈ s.names) :
    comms.foldl (stepFn s wt res dir (s.names.map fun x => (x, Do x)) (s.names.map fun x => (x, Di x)) m norm) (.ok [])
      = .ok (comms.map fun c => contrib res (S wt (s.abs.edges.filter fun e => c.contains e.u && c.contains e.v)) m
          (Store.sumOpt (c.map Do)) (if dir then Store.sumOpt (c.map Di) else Store.sumOpt (c.map Do)) norm) := by
  rw [C02.foldl_ok_append _ (fun c => [contrib res (S wt (s.abs.edges.filter fun e => c.contains e.u && c.contains e.v)) m
          (Store.sumOpt (c.map Do)) (if dir then Store.sumOpt (c.map Di) else Store.sumOpt (c.map Do)) norm]) comms []]
  · simp only [List.nil_append, ← List.map_eq_flatMap]
  · intro comm hc acc
    apply step_ok s h
    · intro n hn
      rw [C09M.alookup_map_self, if_pos (hnames comm hc n hn)]
    · intro n hn
      rw [C09M.alookup_map_self, if_pos (hnames comm hc n hn)]

theorem wRat_wdeg_false (a : Abs) (x : Nat) : Store.wRat (a.weightedDegree false x) = Dout false true a x := by
  simp only [Abs.weightedDegree, Bool.false_eq_true, if_false, wRat_add, wRat_sumW, Dout, S]

theorem some_deg_false (a : Abs) (x : Nat) : some ((a.degree false x : Nat) : Rat) = Dout false false a x := by
  simp only [Abs.degree, Bool.false_eq_true, if_false, Dout, S, C09M.sumOpt_wOf_false, oadd]
  push_cast
  rfl

theorem some_len (es : List Edge) : some ((es.length : Nat) : Rat) = S false es := by
  simp only [S, C09M.sumOpt_wOf_false]

theorem finish (z : Outcome (List (Option Rat))) (l : List (Option Rat)) (hz : z = .ok l) :
    Outcome.bind z (fun a => Outcome.ok (Store.sumOpt a)) = Outcome.ok (Store.sumOpt l) := by
  subst hz; rfl

end C12W

private theorem partition_names (s : Store) (h : s.wf = true) (comms : List (List Nat))
    (hp : s.isPartition comms = true) (hsets : ∀ c ∈ comms, c.Nodup) : ∀ c ∈ comms, ∀ x ∈ c, x ∈ s.names := by
  obtain ⟨hn, _⟩ := Store.wf_inv h
  have := (C12_is_partition_iff s comms hn.names_nodup (fun x => hasNode_names s h x) hsets).1 hp
  intro c hc x hx
  exact this.2.1 x (List.mem_flatMap.mpr ⟨c, hc, hx⟩)

private theorem outDegMap (s : Store) (h : s.wf = true) (hd : s.specs.directed = true) :
    s.getOutDegreeForAllNodes = .ok (s.names.map fun x => (x, (s.abs.outEdges x).length)) := by
  obtain ⟨hn, _⟩ := Store.wf_inv h
  simp only [Store.getOutDegreeForAllNodes, hd, Bool.not_true, Bool.false_eq_true, if_false]
  apply C09M.forAllNodes_ok s _ _ _ hn.names_nodup
  intro x hx
  rw [(C09_model_in_out_degree s h x).2, hd, (hasNode_names s h x).2 hx]
  rfl

private theorem inDegMap (s : Store) (h : s.wf = true) (hd : s.specs.directed = true) :
    s.getInDegreeForAllNodes = .ok (s.names.map fun x => (x, (s.abs.inEdges x).length)) := by
  obtain ⟨hn, _⟩ := Store.wf_inv h
  simp only [Store.getInDegreeForAllNodes, hd, Bool.not_true, Bool.false_eq_true, if_false]
  apply C09M.forAllNodes_ok s _ _ _ hn.names_nodup
  intro x hx
  rw [(C09_model_in_out_degree s h x).1, hd, (hasNode_names s h x).2 hx]
  rfl

private theorem degMap (s : Store) (h : s.wf = true) :
    s.getDegreeForAllNodes = .ok (s.names.map fun x => (x, s.abs.degree s.specs.directed x)) := by
  obtain ⟨hn, _⟩ := Store.wf_inv h
  apply C09M.forAllNodes_ok s _ _ _ hn.names_nodup
  intro x hx
  rw [C09_model_degree s h x, (hasNode_names s h x).2 hx]
  rfl

private theorem outDegMapW (s : Store) (h : s.wf = true) (hd : s.specs.directed = true) :
    s.getWeightedOutDegreeForAllNodes = .ok (s.names.map fun x => (x, Abs.sumW (s.abs.outEdges x))) := by
  obtain ⟨hn, _⟩ := Store.wf_inv h
  simp only [Store.getWeightedOutDegreeForAllNodes, hd, Bool.not_true, Bool.false_eq_true, if_false]
  apply C09M.forAllNodes_ok s _ _ _ hn.names_nodup
  intro x hx
  rw [(C09_model_weighted_in_out_degree s h x).2, hd, (hasNode_names s h x).2 hx]
  rfl

private theorem inDegMapW (s : Store) (h : s.wf = true) (hd : s.specs.directed = true) :
    s.getWeightedInDegreeForAllNodes = .ok (s.names.map fun x => (x, Abs.sumW (s.abs.inEdges x))) := by
  obtain ⟨hn, _⟩ := Store.wf_inv h
  simp only [Store.getWeightedInDegreeForAllNodes, hd, Bool.not_true, Bool.false_eq_true, if_false]
  apply C09M.forAllNodes_ok s _ _ _ hn.names_nodup
  intro x hx
  rw [(C09_model_weighted_in_out_degree s h x).1, hd, (hasNode_names s h x).2 hx]
  rfl

private theorem degMapW (s : Store) (h : s.wf = true) :
    s.getWeightedDegreeForAllNodes = .ok (s.names.map fun x => (x, s.abs.weightedDegree s.specs.directed x)) := by
  obtain ⟨hn, _⟩ := Store.wf_inv h
  apply C09M.forAllNodes_ok s _ _ _ hn.names_nodup
  intro x hx
  rw [C09_model_weighted_degree s h x, (hasNode_names s h x).2 hx]
  rfl

/-- the model of `modularity` never panics on a true partition and returns the pure expression `C12W.gen` -/
theorem C12W.model_eq (s : Store) (h : s.wf = true) (comms : List (List Nat)) (wt : Bool) (res : Rat)
    (hp : s.isPartition comms = true) (hsets : ∀ c ∈ comms, c.Nodup) :
    s.modularity comms wt res = .ok (C12W.gen s.specs.directed s.abs wt comms res) := by
  have hnames := partition_names s h comms hp hsets
  unfold Store.modularity
  simp only [hp, Bool.not_true, Bool.false_eq_true, if_false]
  cases hd : s.specs.directed
  · simp only [Bool.false_eq_true, if_false]
    cases wt
    · simp only [Bool.false_eq_true, if_false]
      have hdm := degMap s h
      rw [hd] at hdm
      rw [hdm]
      simp only [Outcome.map', bind, Outcome.bind, pure, List.map_map, Function.comp_def]
      refine (C12W.finish _ _ (C12W.loop_ok s h false res false
        (Option.map (fun x => x / 2) (Store.sumOpt (s.names.map fun x => some ((s.abs.degree false x : Nat) : Rat))))
        (Option.map (fun d => if (d == 0) = true then 0 else 1 / d * (1 / d))
          (Store.sumOpt (s.names.map fun x => some ((s.abs.degree false x : Nat) : Rat))))
        (fun x => some ((s.abs.degree false x : Nat) : Rat))
        (fun x => some ((s.abs.degree false x : Nat) : Rat)) comms hnames)).trans ?_
      simp only [C12W.some_deg_false, Bool.false_eq_true, if_false]
      rfl
    · simp only [if_true]
      have hdm := degMapW s h
      rw [hd] at hdm
      rw [hdm]
      simp only [Outcome.map', bind, Outcome.bind, pure, List.map_map, Function.comp_def]
      refine (C12W.finish _ _ (C12W.loop_ok s h true res false
        (Option.map (fun x => x / 2) (Store.sumOpt (s.names.map fun x => Store.wRat (s.abs.weightedDegree false x))))
        (Option.map (fun d => if (d == 0) = true then 0 else 1 / d * (1 / d))
          (Store.sumOpt (s.names.map fun x => Store.wRat (s.abs.weightedDegree false x))))
        (fun x => Store.wRat (s.abs.weightedDegree false x))
        (fun x => Store.wRat (s.abs.weightedDegree false x)) comms hnames)).trans ?_
      simp only [C12W.wRat_wdeg_false, Bool.false_eq_true, if_false]
      rfl
  · simp only [if_true]
    cases wt
    · simp only [Bool.false_eq_true, if_false]
      rw [outDegMap s h hd, inDegMap s h hd]
      simp only [Outcome.map', Outcome.unwrap, bind, Outcome.bind, pure, List.map_map, Function.comp_def]
      refine (C12W.finish _ _ (C12W.loop_ok s h false res true
        (Store.sumOpt (s.names.map fun x => some (((s.abs.outEdges x).length : Nat) : Rat)))
        (Option.map (fun m => if (m == 0) = true then 0 else 1 / m * (1 / m))
          (Store.sumOpt (s.names.map fun x => some (((s.abs.outEdges x).length : Nat) : Rat))))
        (fun x => some (((s.abs.outEdges x).length : Nat) : Rat))
        (fun x => some (((s.abs.inEdges x).length : Nat) : Rat)) comms hnames)).trans ?_
      simp only [C12W.some_len, if_true]
      rfl
    · simp only [if_true]
      rw [outDegMapW s h hd, inDegMapW s h hd]
      simp only [Outcome.map', Outcome.unwrap, bind, Outcome.bind, pure, List.map_map, Function.comp_def]
      refine (C12W.finish _ _ (C12W.loop_ok s h true res true
        (Store.sumOpt (s.names.map fun x => Store.wRat (Abs.sumW (s.abs.outEdges x))))
        (Option.map (fun m => if (m == 0) = true then 0 else 1 / m * (1 / m))
          (Store.sumOpt (s.names.map fun x => Store.wRat (Abs.sumW (s.abs.outEdges x)))))
        (fun x => Store.wRat (Abs.sumW (s.abs.outEdges x)))
        (fun x => Store.wRat (Abs.sumW (s.abs.inEdges x))) comms hnames)).trans ?_
      simp only [C12W.wRat_sumW, if_true]
      rfl

namespace C12W

theorem oadd_none' (a : Option Rat) : oadd none a = none := by
  cases a <;> rfl

theorem contrib_none_m (res : Rat) (lc o i nm : Option Rat) : contrib res lc none o i nm = none := by
  cases lc <;> rfl

theorem contrib_zero_m (res : Rat) (lc o i nm : Option Rat) : contrib res lc (some 0) o i nm = none := by
  cases lc <;> cases o <;> cases i <;> cases nm <;> simp [contrib]

theorem S_none (wt : Bool) (es : List Edge) (e : Edge) (he : e ∈ es) (hn : Abs.wOf wt e = none) : S wt es = none :=
  sumOpt_none_of_mem _ (List.mem_map.mpr ⟨e, he, hn⟩)

theorem S_some (wt : Bool) (es : List Edge) (hall : ∀ e ∈ es, (Abs.wOf wt e).isSome = true) :
    S wt es = some ((es.map fun e => (Abs.wOf wt e).getD 0).sum) := by
  apply sumOpt_map_congr_some
  intro e he
  have := hall e he
  cases hw : Abs.wOf wt e with
  | none => simp [hw] at this
  | some v => rfl

/-- a missing weight anywhere makes both sides undefined -/
theorem gen_none (dir : Bool) (a : Abs) (hv : a.Valid) (wt : Bool) (comms : List (List Nat)) (res : Rat)
    (hne : comms ≠ []) (e : Edge) (he : e ∈ a.edges) (hn : Abs.wOf wt e = none) :
    gen dir a wt comms res = none := by
  have hD : Dout dir wt a e.u = none := by
    cases dir
    · simp only [Dout, Bool.false_eq_true, if_false]
      rw [S_none wt (a.touching e.u) e (by simp [Abs.touching, he]) hn, oadd_none']
    · simp only [Dout, if_true]
      exact S_none wt _ e (by simp [Abs.outEdges, he]) hn
  have hdeg : Store.sumOpt (a.nodeNames.map (Dout dir wt a)) = none :=
    sumOpt_none_of_mem _ (List.mem_map.mpr ⟨e.u, (hv.2 e he).1, hD⟩)
  simp only [gen, hdeg, Option.map_none, ite_self, contrib_none_m]
  exact sumOpt_all_none comms hne

/-- the pure expression is Newman's formula -/
theorem gen_eq_spec (dir : Bool) (a : Abs) (hv : a.Valid) (wt : Bool) (comms : List (List Nat)) (res : Rat)
    (hsets : ∀ c ∈ comms, c.Nodup) (hne : comms ≠ []) :
    gen dir a wt comms res = Abs.modularitySpec dir a comms wt res := by
  by_cases hall : ∀ e ∈ a.edges, (Abs.wOf wt e).isSome = true
  · have hF : ∀ p : Edge → Bool, S wt (a.edges.filter p)
        = some (((a.edges.filter p).map fun e => (Abs.wOf wt e).getD 0).sum) :=
      fun p => S_some wt _ (fun e he => hall e (List.mem_filter.mp he).1)
    have hT := S_some wt a.edges hall
    generalize (fun e => (Abs.wOf wt e).getD 0) = val at hF hT
    have hsumOut : (a.nodeNames.map fun x => ((a.edges.filter fun e => e.u == x).map val).sum).sum
        = (a.edges.map val).sum :=
      sum_by_key a.edges (·.u) val a.nodeNames hv.1 (fun e he => (hv.2 e he).1)
    have hsumIn : (a.nodeNames.map fun x => ((a.edges.filter fun e => e.v == x).map val).sum).sum
        = (a.edges.map val).sum :=
      sum_by_key a.edges (·.v) val a.nodeNames hv.1 (fun e he => (hv.2 e he).2)
    have hDoT : ∀ x, Dout true wt a x = some (((a.edges.filter fun e => e.u == x).map val).sum) := by
      intro x; simp only [Dout, if_true, Abs.outEdges, hF]
    have hDiT : ∀ x, Din true wt a x = some (((a.edges.filter fun e => e.v == x).map val).sum) := by
      intro x; simp only [Din, if_true, Abs.inEdges, hF]
    have hDoF : ∀ x, Dout false wt a x = some (((a.edges.filter fun e => e.v == x).map val).sum
        + ((a.edges.filter fun e => e.u == x).map val).sum) := by
      intro x
      simp only [Dout, Bool.false_eq_true, if_false, Abs.touching, hF, oadd, touching_split]
    have hDiF : ∀ x, Din false wt a x = Dout false wt a x := by
      intro x; simp only [Din, Bool.false_eq_true, if_false]
    have hspec : Abs.sumO (a.edges.map (Abs.wOf wt)) = some ((a.edges.map val).sum) := hT
    have hspecF : ∀ p : Edge → Bool, Abs.sumO ((a.edges.filter p).map (Abs.wOf wt))
        = some (((a.edges.filter p).map val).sum) := hF
    generalize hTd : (a.edges.map val).sum = T at *
    unfold Abs.modularitySpec
    simp only [hspec, hspecF]
    have hO : ∀ c : List Nat, c.Nodup → (c.map fun x => ((a.edges.filter fun e => e.u == x).map val).sum).sum
        = ((a.edges.filter fun e => c.contains e.u).map val).sum :=
      fun c hc => sum_by_set a.edges (·.u) val c hc
    have hI : ∀ c : List Nat, c.Nodup → (c.map fun x => ((a.edges.filter fun e => e.v == x).map val).sum).sum
        = ((a.edges.filter fun e => c.contains e.v).map val).sum :=
      fun c hc => sum_by_set a.edges (·.v) val c hc
    cases dir
    · have hdeg : Store.sumOpt (a.nodeNames.map (Dout false wt a)) = some (T + T) := by
        rw [sumOpt_map_congr_some _ _ _ (fun x _ => hDoF x), sum_map_add, hsumOut, hsumIn]
      simp only [gen, hdeg, Bool.false_eq_true, if_false, Option.map_some, hF]
      by_cases hT0 : T = 0
      · subst hT0
        simp only [beq_self_eq_true, if_true, add_zero, zero_div, contrib_zero_m]
        exact sumOpt_all_none comms hne
      · have hb : (T == 0) = false := by simpa using hT0
        have hb2 : (T + T == 0) = false := by
          have : T + T ≠ 0 := by intro hc; apply hT0; linarith
          simpa using this
        have hb3 : ((T + T) / 2 == 0) = false := by
          have : (T + T) / 2 ≠ 0 := by intro hc; apply hT0; linarith
          simpa using this
        simp only [hb, Bool.false_eq_true, if_false, C09M.sumO_eq]
        congr 1
        apply List.map_congr_left
        intro c hc
        have h1 : Store.sumOpt (c.map (Dout false wt a)) = some (((a.edges.filter fun e => c.contains e.v).map val).sum
            + ((a.edges.filter fun e => c.contains e.u).map val).sum) := by
          rw [sumOpt_map_congr_some _ _ _ (fun x _ => hDoF x), sum_map_add, hO c (hsets c hc), hI c (hsets c hc)]
        have h2 : Store.sumOpt (c.map (Din false wt a)) = some (((a.edges.filter fun e => c.contains e.v).map val).sum
            + ((a.edges.filter fun e => c.contains e.u).map val).sum) := by
          rw [← h1]; congr 1
        rw [h1, h2]
        simp only [contrib, hb2, hb3, Bool.false_eq_true, if_false]
        congr 1
        field_simp
        ring
    · have hdeg : Store.sumOpt (a.nodeNames.map (Dout true wt a)) = some T := by
        rw [sumOpt_map_congr_some _ _ _ (fun x _ => hDoT x), hsumOut]
      simp only [gen, hdeg, if_true, Option.map_some, hF]
      by_cases hT0 : T = 0
      · subst hT0
        simp only [beq_self_eq_true, if_true, contrib_zero_m]
        exact sumOpt_all_none comms hne
      · have hb : (T == 0) = false := by simpa using hT0
        simp only [hb, Bool.false_eq_true, if_false, C09M.sumO_eq]
        congr 1
        apply List.map_congr_left
        intro c hc
        have h1 : Store.sumOpt (c.map (Dout true wt a)) = some (((a.edges.filter fun e => c.contains e.u).map val).sum) := by
          rw [sumOpt_map_congr_some _ _ _ (fun x _ => hDoT x), hO c (hsets c hc)]
        have h2 : Store.sumOpt (c.map (Din true wt a)) = some (((a.edges.filter fun e => c.contains e.v).map val).sum) := by
          rw [sumOpt_map_congr_some _ _ _ (fun x _ => hDiT x), hI c (hsets c hc)]
        rw [h1, h2]
        simp only [contrib, hb, Bool.false_eq_true, if_false]
        congr 1
        field_simp
  · have : ∃ e ∈ a.edges, Abs.wOf wt e = none := by
      by_contra hc
      apply hall
      intro e he
      cases hw : Abs.wOf wt e with
      | none => exact absurd ⟨e, he, hw⟩ hc
      | some v => rfl
    obtain ⟨e, he, hn⟩ := this
    rw [gen_none dir a hv wt comms res hne e he hn]
    have : Abs.sumO (a.edges.map (Abs.wOf wt)) = none := S_none wt a.edges e he hn
    simp only [Abs.modularitySpec, this]

end C12W

/-- **weighted modularity of the model = Newman's formula**, for every true partition (sets given as duplicate-free lists)
    with at least one community; this includes the degenerate answers: `none` (the f64 code returns NaN) when an edge
    has no weight or the total weight is 0 -/
theorem C12_model_modularity_weighted (s : Store) (h : s.wf = true) (comms : List (List Nat)) (res : Rat)
    (hp : s.isPartition comms = true) (hsets : ∀ c ∈ comms, c.Nodup) (hne : comms ≠ []) :
    s.modularity comms true res = .ok (Abs.modularitySpec s.specs.directed s.abs comms true res) := by
  rw [C12W.model_eq s h comms true res hp hsets,
    C12W.gen_eq_spec _ _ (C09_model_abs_valid s h) true comms res hsets hne]

/-- the unweighted theorem of Props/C09Model.lean, without its `edges ≠ []` hypothesis (m = 0 gives `none` on both sides) -/
theorem C12_model_modularity_unweighted_total (s : Store) (h : s.wf = true) (comms : List (List Nat)) (res : Rat)
    (hp : s.isPartition comms = true) (hsets : ∀ c ∈ comms, c.Nodup) (hne : comms ≠ []) :
    s.modularity comms false res = .ok (Abs.modularitySpec s.specs.directed s.abs comms false res) := by
  rw [C12W.model_eq s h comms false res hp hsets,
    C12W.gen_eq_spec _ _ (C09_model_abs_valid s h) false comms res hsets hne]

/-- non-vacuity: a weighted directed multigraph with a self-loop and two communities -/
example :
    let s := (Store.run { directed := true, multi := true, selfLoops := true, dedupe := .keepLast, missing := .create, slFalse := .error }
      [.addEdge ⟨1, 2, some 5, none⟩, .addEdge ⟨2, 1, some 3, none⟩, .addEdge ⟨2, 2, some 4, none⟩, .addEdge ⟨1, 2, some 1, none⟩,
       .addEdge ⟨3, 1, some 2, none⟩]).1
    s.wf = true ∧ s.isPartition [[1, 2], [3]] = true ∧
      s.modularity [[1, 2], [3]] true 1 = .ok (Abs.modularitySpec true s.abs [[1, 2], [3]] true 1) ∧
      Abs.modularitySpec true s.abs [[1, 2], [3]] true 1 ≠ none := by
  intro s
  have hwf : s.wf = true := by decide +kernel
  have hpart : s.isPartition [[1, 2], [3]] = true := by decide +kernel
  refine ⟨hwf, hpart, ?_, ?_⟩
  · exact C12_model_modularity_weighted s hwf [[1, 2], [3]] 1 hpart (by decide) (by decide)
  · decide +kernel


/-- the same instance with both sides evaluated by the kernel (independent of the theorem above) -/
example :
    let s := (Store.run { directed := true, multi := true, selfLoops := true, dedupe := .keepLast, missing := .create, slFalse := .error }
      [.addEdge ⟨1, 2, some 5, none⟩, .addEdge ⟨2, 1, some 3, none⟩, .addEdge ⟨2, 2, some 4, none⟩, .addEdge ⟨1, 2, some 1, none⟩,
       .addEdge ⟨3, 1, some 2, none⟩]).1
    (s.modularity [[1, 2], [3]] true 1).toOption = some (Abs.modularitySpec true s.abs [[1, 2], [3]] true 1) ∧
      Abs.modularitySpec true s.abs [[1, 2], [3]] true 1 = some 0 ∧
      (s.modularity [[1, 2], [3]] true (1 / 2)).toOption = some (some (13 / 30)) ∧
      Abs.modularitySpec true s.abs [[1, 2], [3]] true (1 / 2) = some (13 / 30) := by
  decide +kernel

end Graphrs
