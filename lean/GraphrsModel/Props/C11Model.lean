/-
  C11 (model level) — under the coupling invariant the models of `triangles`, `clustering` (unweighted, undirected and
  directed), `transitivity`, `generalized_degree` and `square_clustering` (undirected) return the values of the
  definitions in Spec/Cluster.lean, for the full node set and for every subset of nodes.
-/
import GraphrsModel.Props.Core
import GraphrsModel.Props.C11
import GraphrsModel.Lemmas.C11ModelTri
import GraphrsModel.Lemmas.C11ModelSq
import GraphrsModel.Lemmas.C11ModelDir
namespace Graphrs
open C11M

/-- names requested by `node_names`: `None` or an empty slice mean all nodes (undirected functions) -/
def requestedU (s : Store) (names : Option (List Nat)) : List Nat :=
  match names with
  | none => s.getAllNodeNames
  | some l => if l.isEmpty then s.getAllNodeNames else l

theorem C11_model_neighbors (s : Store) (h : s.wf = true) (hd : s.specs.directed = false) (x : Nat) (hx : s.hasNode x = true) :
    ∃ l, s.getNeighborNodes x = .ok l ∧ ∀ y, y ∈ (l.map (·.name)).filter (· != x) ↔ y ∈ s.abs.N x := by
  have ⟨l, hl, e, _, _⟩ := nbr_ok s h hd x hx
  refine ⟨l, hl, ?_⟩
  intro y
  rw [e]
  exact mem_mN s h hd x hx y

private theorem mem_reqT (s : Store) (names : Option (List Nat)) (x : Nat) : x ∈ reqT s names ↔ x ∈ requestedU s names := by
  unfold reqT requestedU
  cases names with
  | none => exact Iff.rfl
  | some l =>
    by_cases hl : l.isEmpty = true
    · simp only [hl, if_true]; exact Iff.rfl
    · simp only [hl]; exact C11aux.mem_dedup l x

private theorem ensure_ok (s : Store) (names : Option (List Nat)) (hn : ∀ x ∈ requestedU s names, s.hasNode x = true) :
    s.ensureHasNodes names = .ok () := by
  unfold Store.ensureHasNodes
  cases names with
  | none => rfl
  | some l =>
    have : s.hasNodes l = true := by
      unfold Store.hasNodes
      rw [List.all_eq_true]
      intro x hx
      apply hn
      unfold requestedU
      have : l.isEmpty = false := by cases l with
        | nil => cases hx
        | cons a l => rfl
      simp only [this, Bool.false_eq_true, if_false]
      exact hx
    simp [this]

private theorem ensureUndirected_ok (s : Store) (hd : s.specs.directed = false) : s.ensureUndirected = .ok () := by
  simp [Store.ensureUndirected, hd]

private theorem tad_ok (s : Store) (h : s.wf = true) (hd : s.specs.directed = false) (names : Option (List Nat))
    (hn : ∀ x ∈ requestedU s names, s.hasNode x = true) :
    s.trianglesAndDegrees names = .ok ((reqT s names).map (tadOf s)) :=
  trianglesAndDegrees_ok s h hd names (fun x hx => hn x ((mem_reqT s names x).1 hx))

/-- **triangles(v) = number of triangles through v**, for every requested subset -/
theorem C11_model_triangles (s : Store) (h : s.wf = true) (hd : s.specs.directed = false) (names : Option (List Nat))
    (hn : ∀ x ∈ requestedU s names, s.hasNode x = true) (m : List (Nat × Nat)) (hm : s.triangles names = .ok m) :
    (∀ x, x ∈ m.map (·.1) ↔ x ∈ requestedU s names) ∧ ∀ x ∈ requestedU s names, alookup m x = some (s.abs.trianglesAt x) := by
  unfold Store.triangles at hm
  simp only [ensureUndirected_ok s hd, ensure_ok s names hn, tad_ok s h hd names hn, bind, Outcome.bind] at hm
  have hm' := Outcome.ok.inj hm
  subst hm'
  have hkeys : ∀ x, x ∈ ((reqT s names).map (tadOf s)).map (·.name) ↔ x ∈ requestedU s names := by
    intro x
    rw [List.map_map, ← mem_reqT]
    simp [Function.comp_def, tad_name]
  constructor
  · intro x
    rw [keys_foldl_ainsert, hkeys]
    simp
  · intro x hx
    rw [alookup_foldl_ainsert (fun t : Store.TAD => t.name) (fun t => t.ntri / 2) (fun v => s.abs.trianglesAt v)]
    · rw [if_pos ((hkeys x).2 hx)]
    · intro t ht
      obtain ⟨v, hv, rfl⟩ := List.mem_map.1 ht
      have hv' := hn v ((mem_reqT s names v).1 hv)
      rw [tad_ntri s h hd v hv', tad_name]
      omega

private theorem two_dvd_mul_pred (d : Nat) : d * (d - 1) = 2 * (d * (d - 1) / 2) := by
  have := C11aux.two_mul_pairs_length (List.replicate d ())
  rw [List.length_replicate] at this
  omega

private theorem cast_mul_pred (d : Nat) : (d : Rat) * ((d : Rat) - 1) = ((d * (d - 1) : Nat) : Rat) := by
  cases d with
  | zero => simp
  | succ n => simp

private theorem clustering_val (T d : Nat) (hT : T ≤ d * (d - 1) / 2) :
    (if (2 * T == 0) = true then (0 : Rat) else ((2 * T : Nat) : Rat) / ((d : Rat) * ((d : Rat) - 1)))
      = if d < 2 then (0 : Rat) else (T : Rat) / ((d * (d - 1) / 2 : Nat) : Rat) := by
  by_cases hd2 : d < 2
  · have : d * (d - 1) / 2 = 0 := by
      have : d = 0 ∨ d = 1 := by omega
      rcases this with rfl | rfl <;> rfl
    have hT0 : T = 0 := by omega
    simp [hd2, hT0]
  · rw [if_neg hd2, cast_mul_pred, two_dvd_mul_pred d]
    generalize d * (d - 1) / 2 = p
    by_cases hT0 : T = 0
    · simp [hT0]
    · have : ¬ ((2 * T == 0) = true) := by simp [hT0]
      rw [if_neg this]
      have e : 2 * p / 2 = p := by omega
      rw [e]
      push_cast
      exact mul_div_mul_left _ _ (by norm_num)

/-- **clustering(v)**, undirected unweighted single-edge graphs -/
theorem C11_model_clustering_undirected (s : Store) (h : s.wf = true) (hd : s.specs.directed = false) (hmul : s.specs.multi = false)
    (names : Option (List Nat)) (hn : ∀ x ∈ requestedU s names, s.hasNode x = true)
    (m : List (Nat × Rat)) (hm : s.clusteringUnweighted names = .ok m) :
    ∀ x ∈ requestedU s names, alookup m x = some (s.abs.clusteringAt x) := by
  unfold Store.clusteringUnweighted at hm
  have hnm : s.ensureNotMulti = .ok () := by simp [Store.ensureNotMulti, hmul]
  simp only [hnm, ensure_ok s names hn, tad_ok s h hd names hn, bind, Outcome.bind, hd, Bool.false_eq_true, if_false] at hm
  have hm' := Outcome.ok.inj hm
  subst hm'
  intro x hx
  rw [alookup_foldl_ainsert (fun t : Store.TAD => t.name) _ (fun v => s.abs.clusteringAt v)]
  · rw [if_pos]
    rw [List.map_map, ← mem_reqT] at *
    simpa [Function.comp_def, tad_name] using hx
  · intro t ht
    obtain ⟨v, hv, rfl⟩ := List.mem_map.1 ht
    have hv' := hn v ((mem_reqT s names v).1 hv)
    rw [tad_ntri s h hd v hv', tad_degree s h hd v hv', tad_name]
    exact clustering_val _ _ (C11_triangles_le_pairs s.abs v)

/-- **clustering(v)**, directed unweighted single-edge graphs: the Fagiolo form -/
theorem C11_model_clustering_directed (s : Store) (h : s.wf = true) (hd : s.specs.directed = true) (hmul : s.specs.multi = false)
    (names : Option (List Nat)) (hn : ∀ x ∈ (names.getD s.getAllNodeNames), s.hasNode x = true)
    (m : List (Nat × Rat)) (hm : s.clusteringUnweighted names = .ok m) :
    ∀ x ∈ (names.getD s.getAllNodeNames), alookup m x = some (s.abs.fagioloAt x) := by
  unfold Store.clusteringUnweighted at hm
  have hnm : s.ensureNotMulti = .ok () := by simp [Store.ensureNotMulti, hmul]
  have hen : s.ensureHasNodes names = .ok () := by
    unfold Store.ensureHasNodes
    cases names with
    | none => rfl
    | some l =>
      have : s.hasNodes l = true := by
        unfold Store.hasNodes
        rw [List.all_eq_true]
        exact fun x hx => hn x hx
      simp [this]
  simp only [hnm, hen, directed_ok s h hd names hn, bind, Outcome.bind, hd, if_true] at hm
  have hm' := Outcome.ok.inj hm
  subst hm'
  intro x hx
  rw [alookup_foldl_ainsert (fun t : Store.DTAD => t.name) _ (fun v => s.abs.fagioloAt v)]
  · rw [if_pos]
    rw [List.map_map]
    exact List.mem_map.2 ⟨x, hx, rfl⟩
  · intro t ht
    obtain ⟨v, hv, rfl⟩ := List.mem_map.1 ht
    have hv' := hn v hv
    show (if (triM s v == 0) = true then (0 : Rat)
      else (triM s v : Rat) / (((((mP s v).length + (mS s v).length : Nat) : Rat)
        * ((((mP s v).length + (mS s v).length : Nat) : Rat) - 1)
        - 2 * ((sinter (mP s v) (mS s v)).length : Rat)) * 2)) = s.abs.fagioloAt v
    rw [tri_eq s h hd v hv', total_eq s h hd v hv', recip_eq s h hd v hv']
    rw [mul_comm _ (2 : Rat)]
    rfl

private theorem trans_val (T P : Nat) :
    (if (2 * T == 0) = true then (0 : Rat) else ((2 * T : Nat) : Rat) / ((2 * P : Nat) : Rat))
      = if (T == 0) = true then (0 : Rat) else (T : Rat) / (P : Rat) := by
  by_cases hT0 : T = 0
  · simp [hT0]
  · have h1 : ¬ ((2 * T == 0) = true) := by simp [hT0]
    have h2 : ¬ ((T == 0) = true) := by simp [hT0]
    rw [if_neg h1, if_neg h2]
    push_cast
    exact mul_div_mul_left _ _ (by norm_num)

theorem C11_model_transitivity (s : Store) (h : s.wf = true) (hd : s.specs.directed = false) (t : Rat)
    (ht : s.transitivity = .ok t) : t = s.abs.transitivitySpec := by
  unfold Store.transitivity at ht
  simp only [ensureUndirected_ok s hd, bind, Outcome.bind] at ht
  change t = if (sumNat (s.names.map s.abs.trianglesAt) == 0) = true then 0
    else (sumNat (s.names.map s.abs.trianglesAt) : Rat)
      / (sumNat (s.names.map fun v => (s.abs.N v).length * ((s.abs.N v).length - 1) / 2) : Rat)
  by_cases hem : s.getAllNodes.isEmpty = true
  · rw [if_pos hem] at ht
    have : s.names = [] := by
      have : s.nodesVec = [] := by simpa [Store.getAllNodes] using hem
      simp [Store.names, this]
    have := Outcome.ok.inj ht
    subst this
    simp [*, sumNat]
  · rw [if_neg hem] at ht
    have hall : ∀ x ∈ requestedU s none, s.hasNode x = true := fun x hx => (hasNode_mem' s h x).2 hx
    simp only [tad_ok s h hd none hall] at ht
    have ht' := Outcome.ok.inj ht
    subst ht'
    have hreq : reqT s none = s.names := rfl
    have e1 : sumNat (((reqT s none).map (tadOf s)).map (·.ntri)) = 2 * sumNat (s.names.map s.abs.trianglesAt) := by
      rw [hreq, List.map_map, C09M.sumNat_eq_sum, C09M.sumNat_eq_sum, ← sum_map_mul_left_nat]
      congr 1
      apply List.map_congr_left
      intro v hv
      exact tad_ntri s h hd v ((hasNode_mem' s h v).2 hv)
    have e2 : sumNat (((reqT s none).map (tadOf s)).map fun x => x.degree * (x.degree - 1))
        = 2 * sumNat (s.names.map fun v => (s.abs.N v).length * ((s.abs.N v).length - 1) / 2) := by
      rw [hreq, List.map_map, C09M.sumNat_eq_sum, C09M.sumNat_eq_sum, ← sum_map_mul_left_nat]
      congr 1
      apply List.map_congr_left
      intro v hv
      simp only [Function.comp_def, tad_degree s h hd v ((hasNode_mem' s h v).2 hv)]
      exact two_dvd_mul_pred _
    rw [e1, e2]
    exact trans_val _ _

/-- square clustering on undirected graphs -/
theorem C11_model_square (s : Store) (h : s.wf = true) (hd : s.specs.directed = false) (x : Nat) (hx : s.hasNode x = true)
    (c : Rat) (hc : s.squareCoefficient x = .ok c) : c = s.abs.squareAt x := by
  rw [squareCoefficient_ok s h hd x hx] at hc
  exact (Outcome.ok.inj hc).symm

/-- the restriction to a subset returns the full computation's values for exactly those nodes -/
theorem C11_model_subset (s : Store) (h : s.wf = true) (hd : s.specs.directed = false) (S : List Nat) (hS : S ≠ [])
    (hn : ∀ x ∈ S, s.hasNode x = true) (mAll mS : List (Nat × Nat))
    (h1 : s.triangles none = .ok mAll) (h2 : s.triangles (some S) = .ok mS) :
    ∀ x ∈ S, alookup mS x = alookup mAll x := by
  have hall : ∀ x ∈ requestedU s none, s.hasNode x = true := fun x hx => (hasNode_mem' s h x).2 hx
  have hS' : requestedU s (some S) = S := by
    unfold requestedU
    cases S with
    | nil => exact absurd rfl hS
    | cons a l => rfl
  have t1 := (C11_model_triangles s h hd none hall mAll h1).2
  have t2 := (C11_model_triangles s h hd (some S) (by rw [hS']; exact hn) mS h2).2
  intro x hx
  rw [t2 x (by rw [hS']; exact hx), t1 x ((hasNode_mem' s h x).1 (hn x hx))]

end Graphrs
