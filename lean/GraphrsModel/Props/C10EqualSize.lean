/-
  C10 (model level) — `bfs_equal_size_partitions(k)`.

  The Rust function (src/algorithms/components/weak_connectivity.rs) has no `ensure_*` guard and no error channel: it
  returns a plain `Vec<Vec<T>>` on directed and undirected graphs alike, and panics (`attempt to divide by zero`) for
  k = 0.  The model `Store.bfsEqualSizePartitions` mirrors that: there is no `.err` outcome, and k = 0 is the explicit
  panic.  So the statement is not restricted to one kind of graph, and the only outcomes are `.ok parts` (k ≥ 1) and
  that panic (k = 0).

  `C10_model_equal_size`: on every store satisfying the coupling invariant and for every k ≥ 1 the model returns
  `.ok parts` where `parts` has exactly k members, the concatenation of the parts is a permutation of the node names
  (`get_all_node_names`, what the model reports and what `checkEqualSize` / tools/check.py compare) without repetition,
  and every part has at most n / k + 1 members.  `C10_model_equal_size_exactly_one` spells the second clause out:
  every node name lies in exactly one part (one index j), and no part repeats a name.

  The fuel of both model loops is proved sufficient (that is where a termination bug would hide):
  * `eqOuter` with fuel `n + 1`: a round of the outer loop places at least one index (`EqSz.eqInner_post`), hence
    `EqSz.eqOuter_full` ends with `count ≥ n`, i.e. by the loop condition, not by fuel — `C10_equal_size_outer_fuel`;
  * `eqInner` with fuel `queue.length + adjTotal + 2`: the loop always ends with an empty queue or by the `break`
    (`C10_equal_size_inner_fuel`; measure: queue length + out-degrees of the unvisited indexes).
-/
import GraphrsModel.Lemmas.C10EqualSize
import GraphrsModel.Lemmas.C02Nbr
import GraphrsModel.Spec.Components
namespace Graphrs
open Store

/-- k = 0: the Rust code divides by `num_partitions`; the model has the explicit panic (any store) -/
theorem C10_model_equal_size_zero (s : Store) :
    s.bfsEqualSizePartitions 0 = .panic "bfs_equal_size_partitions: division by zero" := rfl

/-- the model's answer, explicitly: the final `partitions` of the outer loop run with fuel `n + 1` from the initial
    state, with indexes replaced by names; the final state satisfies both invariants and has every index placed -/
theorem C10_equal_size_run (s : Store) (h : s.wf = true) (k : Nat) (hk : 1 ≤ k) :
    ∃ st : EqState,
      eqOuter s s.numberOfNodes (s.numberOfNodes / k + 1) (s.numberOfNodes + 1)
        ⟨List.replicate k [], List.replicate s.numberOfNodes false, 0, [], 0⟩ = some st ∧
      NP.EqInv s.numberOfNodes k (s.numberOfNodes / k + 1) st.parts st.visited st.count st.part ∧
      EqSz.EqInv2 (s.numberOfNodes / k + 1) st.parts st.visited ∧
      s.numberOfNodes ≤ st.count ∧
      s.bfsEqualSizePartitions k = .ok (st.parts.map (fun p => p.map (EqSz.nameAt s))) := by
  obtain ⟨hn, _, _, hvec⟩ := NP.wf_parts' h
  have hk0 : 0 < k := hk
  obtain ⟨st, hst, hi, hi2, hc⟩ := EqSz.eqOuter_full s s.numberOfNodes k (s.numberOfNodes / k + 1) (Nat.succ_pos _)
    (Nat.lt_mul_div_succ _ hk0) hn.succ_len (NP.vec_lt hvec).1 (s.numberOfNodes + 1) _ _ _ [] _
    (NP.eqInv_init s.numberOfNodes k _ hk0) (EqSz.eqInv2_init _ _ _) (by simp [hk0]) (by intro q hq; cases hq)
    (by omega)
  refine ⟨st, hst, hi, hi2, hc, ?_⟩
  unfold bfsEqualSizePartitions
  rw [if_neg (by simp; omega)]
  simp only
  rw [hst]
  simp only
  have := EqSz.parts_fold s hn st.parts hi.bound []
  rw [List.nil_append] at this
  exact this

/-- **C10, model level**: `bfs_equal_size_partitions(k)`, k ≥ 1, on any store satisfying the coupling invariant
    (directed or not — the function has no kind restriction and no error channel): the outcome is `.ok parts` with
    (a) exactly k parts, (b) the parts together list every node name exactly once, (c) no part has more than
    n / k + 1 members -/
theorem C10_model_equal_size (s : Store) (h : s.wf = true) (k : Nat) (hk : 1 ≤ k) :
    ∃ parts : List (List Nat), s.bfsEqualSizePartitions k = .ok parts ∧
      parts.length = k ∧
      (parts.flatten.Perm s.getAllNodeNames ∧ parts.flatten.Nodup) ∧
      ∀ p ∈ parts, p.length ≤ s.numberOfNodes / k + 1 := by
  obtain ⟨st, _, hi, hi2, hc, hres⟩ := C10_equal_size_run s h k hk
  obtain ⟨hn, _, _, _⟩ := NP.wf_parts' h
  have hperm : (st.parts.map (fun p => p.map (EqSz.nameAt s))).flatten.Perm s.getAllNodeNames := by
    have h1 := (EqSz.final_perm hi hi2 hc).map (EqSz.nameAt s)
    rw [List.map_flatten] at h1
    have h2 : List.map (EqSz.nameAt s) (List.range s.numberOfNodes) = s.getAllNodeNames :=
      EqSz.map_nameAt_range s
    rw [h2] at h1
    exact h1
  refine ⟨_, hres, ?_, ⟨hperm, ?_⟩, ?_⟩
  · rw [List.length_map]; exact hi.plen
  · exact hperm.nodup_iff.mpr hn.names_nodup
  · intro p hp
    obtain ⟨q, hq, rfl⟩ := List.mem_map.mp hp
    rw [List.length_map]
    exact hi2.sizes q hq

/-! ### "in exactly one part, exactly once" spelled out -/

theorem unique_part_of_nodup_flatten {α} (parts : List (List α)) (hnd : parts.flatten.Nodup) (x : α)
    (hx : x ∈ parts.flatten) : ∃! j : Nat, ∃ p : List α, parts[j]? = some p ∧ x ∈ p := by
  obtain ⟨p, hp, hxp⟩ := List.mem_flatten.mp hx
  obtain ⟨j, hj⟩ := List.mem_iff_getElem?.mp hp
  refine ⟨j, ⟨p, hj, hxp⟩, ?_⟩
  rintro j' ⟨p', hj', hxp'⟩
  rw [List.nodup_flatten] at hnd
  have hpw := hnd.2
  rw [List.pairwise_iff_getElem] at hpw
  have hl : j < parts.length := getElem?_lt hj
  have hl' : j' < parts.length := getElem?_lt hj'
  have e : parts[j] = p := by rw [List.getElem?_eq_getElem hl] at hj; exact Option.some.inj hj
  have e' : parts[j'] = p' := by rw [List.getElem?_eq_getElem hl'] at hj'; exact Option.some.inj hj'
  rcases Nat.lt_trichotomy j' j with hlt | heq | hgt
  · exact absurd hxp (by have := hpw j' j hl' hl hlt; rw [e, e'] at this; exact fun hh => this hxp' hh)
  · exact heq
  · exact absurd hxp' (by have := hpw j j' hl hl' hgt; rw [e, e'] at this; exact fun hh => this hxp hh)

/-- clause (b) in the words of the property: every node name is in exactly one of the parts (exactly one index),
    every member of a part is a node name, and no part repeats a name -/
theorem C10_model_equal_size_exactly_one (s : Store) (h : s.wf = true) (k : Nat) (hk : 1 ≤ k) :
    ∃ parts : List (List Nat), s.bfsEqualSizePartitions k = .ok parts ∧
      (∀ x ∈ s.getAllNodeNames, ∃! j : Nat, ∃ p : List Nat, parts[j]? = some p ∧ x ∈ p) ∧
      (∀ p ∈ parts, p.Nodup ∧ ∀ x ∈ p, x ∈ s.getAllNodeNames) := by
  obtain ⟨parts, hres, _, ⟨hperm, hnd⟩, _⟩ := C10_model_equal_size s h k hk
  refine ⟨parts, hres, ?_, ?_⟩
  · intro x hx
    exact unique_part_of_nodup_flatten parts hnd x (hperm.mem_iff.mpr hx)
  · intro p hp
    refine ⟨(List.nodup_flatten.mp hnd).1 p hp, ?_⟩
    intro x hx
    exact hperm.mem_iff.mp (List.mem_flatten.mpr ⟨p, hp, hx⟩)

/-! ### fuel -/

/-- the outer fuel `n + 1` is never what stops the loop: the run ends with `visited_count ≥ number_of_nodes`
    (the `while` condition false), for every k ≥ 1 -/
theorem C10_equal_size_outer_fuel (s : Store) (h : s.wf = true) (k : Nat) (hk : 1 ≤ k) :
    ∃ st : EqState,
      eqOuter s s.numberOfNodes (s.numberOfNodes / k + 1) (s.numberOfNodes + 1)
        ⟨List.replicate k [], List.replicate s.numberOfNodes false, 0, [], 0⟩ = some st ∧
      s.numberOfNodes ≤ st.count := by
  obtain ⟨st, hst, _, _, hc, _⟩ := C10_equal_size_run s h k hk
  exact ⟨st, hst, hc⟩

/-- the inner fuel `queue.length + adjTotal + 2` that `eqOuter` passes is never what stops the inner loop: whenever
    it returns a state, the queue is empty or the part just reached the cap (the `break`); any store, any state -/
theorem C10_equal_size_inner_fuel (s : Store) (M : Nat) (st st' : EqState)
    (h : eqInner s M (st.queue.length + s.adjTotal + 2) st = some st') :
    st'.queue = [] ∨ st'.parts[st'.part]?.map List.length = some M :=
  EqSz.eqInner_fuel_sufficient s M st st' h

/-! ### the Boolean checker of Props/C10.lean accepts the model's output -/

private theorem insertSorted_perm' {α} (le : α → α → Bool) (x : α) (l : List α) :
    (insertSorted le x l).Perm (x :: l) := by
  induction l with
  | nil => exact List.Perm.refl _
  | cons y ys ih =>
    unfold insertSorted
    by_cases h : le x y = true
    · simp [h]
    · simp only [h]
      exact (List.Perm.cons y ih).trans (List.Perm.swap x y ys)

private theorem sortNat_perm'' (l : List Nat) : (sortNat l).Perm l := by
  unfold sortNat isort
  induction l with
  | nil => exact List.Perm.refl _
  | cons x xs ih =>
    rw [List.foldr_cons]
    exact (insertSorted_perm' _ x _).trans (List.Perm.cons x ih)

theorem sortNat_eq_of_perm {a b : List Nat} (h : a.Perm b) : sortNat a = sortNat b := by
  have hp : (sortNat a).Perm (sortNat b) := ((sortNat_perm'' a).trans h).trans (sortNat_perm'' b).symm
  exact hp.eq_of_pairwise (fun x y _ _ h1 h2 => Nat.le_antisymm h1 h2) (C02.sorted_sortNat a) (C02.sorted_sortNat b)

/-- `checkEqualSize` (Spec/Components.lean; proved sound in `C10_checkEqualSize_sound`) accepts what the model returns -/
theorem C10_model_equal_size_checked (s : Store) (h : s.wf = true) (k : Nat) (hk : 1 ≤ k) :
    ∃ parts : List (List Nat), s.bfsEqualSizePartitions k = .ok parts ∧
      checkEqualSize s.getAllNodeNames k parts = none := by
  obtain ⟨parts, hres, hlen, ⟨hperm, _⟩, hsz⟩ := C10_model_equal_size s h k hk
  refine ⟨parts, hres, ?_⟩
  have hnl : s.getAllNodeNames.length = s.numberOfNodes := by simp [getAllNodeNames, numberOfNodes]
  unfold checkEqualSize
  simp only
  rw [if_neg (by simp [hlen])]
  rw [if_neg (by
    rw [List.flatMap_id]
    simp [sortNat_eq_of_perm hperm])]
  rw [if_neg (by
    simp only [List.any_eq_true, decide_eq_true_eq, not_exists, not_and, Nat.not_lt]
    intro p hp
    rw [hnl]
    exact hsz p hp)]

/-- non-vacuity: a directed and an undirected store satisfying the invariant, with the model's answers -/
example :
    let s := (Store.run ⟨true, false, true, .error, .create, .error⟩
      [Op.addEdgeTuple 1 2, Op.addEdgeTuple 2 1, Op.addEdgeTuple 2 3, Op.addEdgeTuple 3 4, Op.addEdgeTuple 4 3,
       Op.addEdgeTuple 5 1]).1
    let u := (Store.run ⟨false, false, true, .error, .create, .error⟩
      [Op.addEdgeTuple 1 2, Op.addEdgeTuple 2 3, Op.addEdgeTuple 4 5]).1
    s.wf = true ∧ (s.bfsEqualSizePartitions 2).toOption = some [[1, 2, 3], [4, 5]] ∧
    (s.bfsEqualSizePartitions 7).toOption = some [[1], [2], [3], [4], [5], [], []] ∧
    u.wf = true ∧ (u.bfsEqualSizePartitions 1).toOption = some [[1, 2, 3, 4, 5]] ∧
    (u.bfsEqualSizePartitions 0).isPanic = true := by
  decide +kernel

end Graphrs
