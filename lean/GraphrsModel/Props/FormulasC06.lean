/-
  Source tie for C06 (translator `tools/formulas.py`): the guard and the quotients of `get_node_centrality` in
  src/algorithms/centrality/closeness.rs, regenerated into `Generated/FormulasC06.lean`, compose to the model's `nodeCentrality`.
-/
import GraphrsModel.Generated.FormulasC06
import GraphrsModel.Model.Centrality
import Mathlib.Tactic.Ring
import Mathlib.Algebra.Order.Field.Rat
import Mathlib.Data.Rat.Cast.Order
namespace Graphrs

theorem C06_src_nodeCentrality (sp : List (Nat × Int)) (numNodes : Nat) (wf : Bool) :
    nodeCentrality sp numNodes wf =
      (let totsp : Rat := ((sumInt (sp.map (·.2)) : Int) : Rat)
       if Src.C06.ccGuard totsp numNodes = true then
         let s := Src.C06.ccReached sp.length
         if wf then Src.C06.ccPlain s totsp * Src.C06.ccWfFactor s numNodes else Src.C06.ccPlain s totsp
       else 0) := by
  unfold nodeCentrality Src.C06.ccGuard Src.C06.ccReached Src.C06.ccPlain Src.C06.ccWfFactor
  simp only [Bool.and_eq_true, decide_eq_true_eq, Int.cast_pos]

end Graphrs
