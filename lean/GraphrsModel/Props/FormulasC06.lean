/-
  Source tie for C06 (translator `tools/formulas.py`): the guard and the quotients of `get_node_centrality` in
  src/algorithms/centrality/closeness.rs, regenerated into `Generated/FormulasC06.lean`, compose to the model's `nodeCentrality`.
-/
import GraphrsModel.Generated.FormulasC06
import GraphrsModel.Model.Centrality
import Mathlib.Tactic.Ring
import Mathlib.Algebra.Order.Field.Rat
import Mathlib.Data.Rat.Cast.Order
namespace Graphrs

theorem C06_src_nodeCentrality (sp : List (Nat × Int)) (numNodes : Nat) (wf : Bool) :
    nodeCentrality sp numNodes wf =
      (let totsp : Rat := ((sumInt (sp.map (·.2)) : Int) : Rat)
       if Src.C06.ccGuard totsp numNodes = true then
         let s := Src.C06.ccReached sp.length
         if wf then Src.C06.ccPlain s totsp * Src.C06.ccWfFactor s numNodes else Src.C06.ccPlain s totsp
       else 0) := by
  unfold nodeCentrality Src.C06.ccGuard Src.C06.ccReached Src.C06.ccPlain Src.C06.ccWfFactor
  simp only [Bool.and_eq_true, decide_eq_true_eq, Int.cast_pos]


/-! ### the weighted search stage: the tests of the source, with `f64::MAX` as the "not yet" sentinel -/

/-- how the model's `Option` reads as the f64 of the code: `none` is the sentinel `f64::MAX` -/
def C06emb (fmax : Rat) : Option Int → Rat
  | none => fmax
  | some x => (x : Rat)

theorem C06_src_stageDist (dist cost : Int) : ((dist + cost : Int) : Rat) = Src.C06.stageDist dist cost := by
  unfold Src.C06.stageDist; push_cast; ring

/-- **the improvement test of the model is the source's** `D[w] == f64::MAX && (seen[w] == f64::MAX || vw_dist < seen[w])`,
    for every value `fmax` of the sentinel that no stored label takes -/
theorem C06_src_stageImproves (fmax : Rat) (dW seenW : Option Int) (vw : Int)
    (hd : ∀ x, dW = some x → (x : Rat) ≠ fmax) (hs : ∀ x, seenW = some x → (x : Rat) ≠ fmax) :
    (dW.isNone && (match seenW with | none => true | some sw => decide (vw < sw)))
      = Src.C06.stageImproves (C06emb fmax dW) (C06emb fmax seenW) (vw : Rat) fmax := by
  unfold Src.C06.stageImproves
  cases dW with
  | some x => simp [C06emb, hd x rfl]
  | none =>
    cases seenW with
    | none => simp [C06emb]
    | some sw => simp [C06emb, hs sw rfl, Int.cast_lt]

/-- the tie test `vw_dist == seen[w]` (a tentative distance is never the sentinel) -/
theorem C06_src_stageTie (fmax : Rat) (seenW : Option Int) (vw : Int) (hv : (vw : Rat) ≠ fmax) :
    (seenW == some vw) = Src.C06.stageTie (vw : Rat) (C06emb fmax seenW) := by
  unfold Src.C06.stageTie
  cases seenW with
  | none => simp [C06emb, hv]
  | some sw =>
    rw [Bool.eq_iff_iff]
    simp only [C06emb, beq_iff_eq, Option.some.injEq, decide_eq_true_eq, Int.cast_inj]
    exact eq_comm

end Graphrs
