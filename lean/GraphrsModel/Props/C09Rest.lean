/-
  C09 at model level, the remaining functions: sizes, density, degree centrality and the adjacency-matrix triplets of the
  model equal the abstract values (the fields of `Abs.api`, the specification record the correspondence runs compare the
  implementation with) on every well-formed store.
-/
import GraphrsModel.Props.C09Model
import GraphrsModel.Props.C12Weighted
import GraphrsModel.Lemmas.C09RestAux
namespace Graphrs

set_option linter.unusedVariables false

theorem C09_model_sizes (s : Store) (h : s.wf = true) :
    s.numberOfNodes = s.abs.nodes.length ∧ s.sizeUnweighted = s.abs.edges.length ∧ s.sizeWeighted = Abs.sumW s.abs.edges ∧
    s.numberOfEdges = s.abs.edges.length := by
  exact ⟨rfl, rfl, rfl, (C09_model_numberOfEdges s h).1⟩

namespace C09R

theorem edges_isEmpty_iff {s : Store} (he : s.EdgesInv) : s.edges.isEmpty = s.abs.edges.isEmpty := by
  cases hE : s.edges with
  | nil => simp [Store.abs, Store.allEdges, hE]
  | cons kv m =>
    obtain ⟨k, l⟩ := kv
    have hl : alookup s.edges k = some l := by rw [hE]; simp [alookup]
    obtain ⟨a1, _⟩ := he.edges_ok k l hl
    cases l with
    | nil => exact absurd rfl a1
    | cons e l => simp [Store.abs, Store.allEdges, hE]

theorem ratd_eq_zero_iff (n : Nat) : ((n : Rat) * ((n : Rat) - 1) == 0) = (n * (n - 1) == 0) := by
  rw [Bool.eq_iff_iff]
  simp only [beq_iff_eq, mul_eq_zero, Nat.cast_eq_zero, sub_eq_zero]
  constructor
  · rintro (h | h)
    · exact Or.inl h
    · right
      have : n = 1 := by exact_mod_cast h
      omega
  · rintro (h | h)
    · exact Or.inl h
    · rcases Nat.eq_zero_or_pos n with h0 | h0
      · exact Or.inl h0
      · right
        have : n = 1 := by omega
        subst this; norm_num

end C09R

/-- `get_density`: distinct stored pairs over possible pairs (undirected: 2m / n(n-1)); `none` is the f64 division by zero -/
theorem C09_model_density (s : Store) (h : s.wf = true) :
    s.getDensity = (Abs.api s.specs s.abs).density := by
  obtain ⟨hn, he⟩ := Store.wf_inv h
  simp only [Store.getDensity, Abs.api, C09R.edges_isEmpty_iff he, Store.abs_keys he, C09R.ratd_eq_zero_iff, List.length_map]
  rfl


private theorem hasNode_names (s : Store) (h : s.wf = true) (x : Nat) : s.hasNode x = true ↔ x ∈ s.names :=
  C02.hasNode_mem (C02.nodesP_of s (C09M.wf_parts s h).1) x

/-- `degree_centrality`: degree / (n - 1), and 1 for graphs with at most one node; never a panic -/
theorem C09_model_degree_centrality (s : Store) (h : s.wf = true) :
    ∃ m, s.degreeCentrality = .ok m ∧
      ∀ x, alookup m x = (if s.hasNode x then
        some (if s.nodesVec.length ≤ 1 then (1 : Rat)
              else ((s.abs.degree s.specs.directed x : Nat) : Rat) / ((s.nodesVec.length : Rat) - 1)) else none) := by
  obtain ⟨hn, _⟩ := Store.wf_inv h
  by_cases hle : s.nodesVec.length ≤ 1
  · refine ⟨s.nodesVec.foldl (fun l nd => ainsert l nd.name (1 : Rat)) [], by simp only [Store.degreeCentrality, hle, if_true], ?_⟩
    intro x
    simp only [hle, if_true]
    have hx := hasNode_names s h x
    cases hV : s.nodesVec with
    | nil =>
      have : s.hasNode x = false := by
        rw [Bool.eq_false_iff]; intro hc; simpa [Store.names, hV] using hx.1 hc
      simp [this, alookup]
    | cons nd l =>
      cases l with
      | cons _ _ => simp [hV] at hle
      | nil =>
        simp only [Store.names, hV, List.map_cons, List.map_nil, List.mem_singleton] at hx
        simp only [List.foldl_cons, List.foldl_nil, ainsert, alookup]
        by_cases hc : nd.name = x
        · simp [hc, hx.2 hc.symm]
        · have : s.hasNode x = false := by
            rw [Bool.eq_false_iff]; intro hc'; exact hc (hx.1 hc').symm
          simp [hc, this]
  · refine ⟨s.names.map fun x => (x, ((s.abs.degree s.specs.directed x : Nat) : Rat) / ((s.nodesVec.length : Rat) - 1)), ?_, ?_⟩
    · simp only [Store.degreeCentrality, hle, if_false]
      exact C09M.forAllNodes_ok s _ _
        (fun x => ((s.abs.degree s.specs.directed x : Nat) : Rat) / ((s.nodesVec.length : Rat) - 1)) hn.names_nodup (by
          intro x hx
          rw [C09_model_degree s h x, (hasNode_names s h x).2 hx]
          rfl)
    · intro x
      rw [C09M.alookup_map_self]
      simp only [hle, if_false]
      by_cases hx : x ∈ s.names
      · simp [hx, (hasNode_names s h x).2 hx]
      · have : s.hasNode x = false := by
          rw [Bool.eq_false_iff]; intro hc; exact hx ((hasNode_names s h x).1 hc)
        simp [hx, this]


private theorem indexOf_eq (s : Store) (h : s.wf = true) (x : Nat) : s.abs.indexOf x = alookup s.nodesMap x := by
  have := C02_getNodeIndex s h x
  unfold Store.getNodeIndex at this
  cases h1 : alookup s.nodesMap x <;> cases h2 : s.abs.indexOf x <;> simp [h1, h2] at this ⊢
  exact this.symm

private theorem trip_perm (dir : Bool) (i j : Nat) (w : Int) :
    (if (!dir && (idxKey dir i j).1 != (idxKey dir i j).2) = true
      then [((idxKey dir i j).1, (idxKey dir i j).2, w), ((idxKey dir i j).2, (idxKey dir i j).1, w)]
      else [((idxKey dir i j).1, (idxKey dir i j).2, w)]).Perm
    (if (!dir && i != j) = true then [(i, j, w), (j, i, w)] else [(i, j, w)]) := by
  rcases idxKey_cases dir i j with ⟨hk, _⟩ | ⟨hk, hd, hlt⟩
  · rw [hk]
  · rw [hk, hd]
    have h1 : (j != i) = true := by simp; omega
    have h2 : (i != j) = true := by simp; omega
    simp only [Bool.not_false, Bool.true_and, h1, h2, if_true]
    exact List.Perm.swap _ _ _

/-- the triplets handed to `sprs::TriMat` : one entry (position of u, position of v, weight or 1) per stored edge, mirrored
    for an undirected edge between different nodes; `WrongMethod` for a multigraph; no panic (`edges[0]` exists) -/
theorem C09_model_triplets (s : Store) (h : s.wf = true) :
    (s.specs.multi = true → s.getAdjacencyTriplets = .err .WrongMethod) ∧
    (s.specs.multi = false → ∃ l, s.getAdjacencyTriplets = .ok l ∧
      l.Perm (s.abs.edges.flatMap fun e =>
        let w : Int := match e.w with | none => 1 | some x => x
        let i := (s.abs.indexOf e.u).getD 0
        let j := (s.abs.indexOf e.v).getD 0
        if !s.specs.directed && i != j then [(i, j, w), (j, i, w)] else [(i, j, w)])) := by
  obtain ⟨hn, he⟩ := Store.wf_inv h
  refine ⟨fun hm => by simp [Store.getAdjacencyTriplets, hm], fun hm => ?_⟩
  refine ⟨_, C09R.triplets_eq s hm (C09R.emap_nonempty he), ?_⟩
  refine ((C09R.emap_perm hn he).flatMap_right _).trans ?_
  rw [List.flatMap_map]
  show (s.edges.flatMap _).Perm ((s.edges.flatMap (·.2)).flatMap _)
  rw [List.flatMap_assoc]
  apply List.Perm.flatMap_left
  rintro ⟨k, l⟩ hkl
  obtain ⟨_, a2, a3, _, _, a6, _⟩ := he.edges_ok k l (AL.mem_lookup he.edges_nodup hkl)
  rcases a6 with a6 | a6
  · rw [hm] at a6; cases a6
  match l, a6 with
  | [e], _ =>
    have hk := a2 e (by simp)
    subst hk
    obtain ⟨eu, ev, ew, ea⟩ := e
    simp only [List.flatMap_cons, List.flatMap_nil, List.append_nil, indexOf_eq s h, C09R.toIdx, C09R.trip]
    cases ew <;> exact trip_perm _ _ _ _

/-- the matrix is symmetric for an undirected graph and has no repeated position: every (row, column) occurs at most once -/
theorem C09_model_triplets_positions_nodup (s : Store) (h : s.wf = true) (hm : s.specs.multi = false) (l : List (Nat × Nat × Int))
    (hl : s.getAdjacencyTriplets = .ok l) :
    (l.map fun t => (t.1, t.2.1)).Nodup ∧ (s.specs.directed = false → ∀ t ∈ l, (t.2.1, t.1, t.2.2) ∈ l) := by
  obtain ⟨hn, he⟩ := Store.wf_inv h
  rw [C09R.triplets_eq s hm (C09R.emap_nonempty he)] at hl
  cases hl
  refine ⟨C09R.positions_nodup he, ?_⟩
  intro hd t ht
  rw [hd] at ht ⊢
  obtain ⟨kv, hkv, hmem⟩ := List.mem_flatMap.mp ht
  exact List.mem_flatMap.mpr ⟨kv, hkv, C09R.trip_swap_mem kv t hmem⟩

end Graphrs
