/-
  C04 / C08 at the level of the public functions, by node *names* and against the *abstract* graph: `single_source`,
  `multi_source` and `all_pairs` of the model on any reachable store (wf + entry-level invariant) report exactly the nodes
  reachable in the abstract graph, with the abstract shortest distance; `all_pairs` and `multi_source` are one
  `single_source` per node / per source.
  (Index-level core: Props/C04Model.lean, Props/C04Paths.lean. Transfer between index arcs and name arcs:
  Lemmas/C06Transfer.lean.)
-/
import GraphrsModel.Props.C04Model
import GraphrsModel.Props.C03Rows
import GraphrsModel.Lemmas.C06Transfer
import GraphrsModel.Lemmas.C08Multi
namespace Graphrs
open C08A C06T C08F

-- several statements carry hypotheses their proofs do not need (`hent`, `hc` of `C08_model_allPairs_eq_singleSource`;
-- `h`, `hd` of `C08_model_symmetric`)
set_option linter.unusedVariables false

/-- the precondition of C04: in weighted mode every stored edge carries a non-negative weight -/
def Store.costsOk (s : Store) (weighted : Bool) : Prop :=
  weighted = true → ∀ e ∈ s.allEdges, ∃ c, e.w = some c ∧ 0 ≤ c

/-- `single_source` on an existing source never fails (no error, none of the unwrap / index sites) -/
theorem C04_model_singleSource_ok (s : Store) (h : s.wf = true) (hent : s.entOk = true) (weighted : Bool) (hc : s.costsOk weighted)
    (src : Nat) (hsrc : s.hasNode src = true) (cutoff2 : Option Int) (firstOnly withPaths : Bool) :
    ∃ out, s.singleSource weighted src none cutoff2 firstOnly withPaths = .ok out := by
  obtain ⟨si, hgi, hsi, _⟩ := index_of_hasNode s h src hsrc
  obtain ⟨r, hrun, R⟩ := single_run s h hent weighted hc si src hsi none none cutoff2 firstOnly withPaths
  obtain ⟨out, ho⟩ := R.conv_ok
  refine ⟨out, ?_⟩
  rw [singleSource_none_eq s weighted src si cutoff2 firstOnly withPaths hgi, hrun]
  exact ho

/-- **`single_source` = the definition**: a node is reported iff it is reachable in the abstract graph, with the abstract
    shortest distance (cheapest parallel edge, both directions when undirected), each node once -/
theorem C04_model_singleSource_exact (s : Store) (h : s.wf = true) (hent : s.entOk = true) (weighted : Bool) (hc : s.costsOk weighted)
    (src : Nat) (hsrc : s.hasNode src = true) (firstOnly withPaths : Bool) (out : List (Nat × SPInfo))
    (hout : s.singleSource weighted src none none firstOnly withPaths = .ok out) :
    (out.map (·.1)).Nodup ∧
    ∀ y d, (∃ i, alookup out y = some i ∧ i.dist = d) ↔ IsDist (s.abs.arcs s.specs.directed weighted) src y d := by
  obtain ⟨si, hgi, hsi, _⟩ := index_of_hasNode s h src hsrc
  obtain ⟨r, hrun, R⟩ := single_run s h hent weighted hc si src hsi none none none firstOnly withPaths
  rw [singleSource_none_eq s weighted src si none firstOnly withPaths hgi, hrun] at hout
  have ho : s.spToNames r = .ok out := hout
  have hn := wf_names_nodup s h
  have S := store_sim s h hent weighted hc
  refine ⟨R.nodup out ho, fun y d => ⟨?_, ?_⟩⟩
  · rintro ⟨i, hl, hd⟩
    obtain ⟨t, info, hm, hy, hi, _⟩ := R.sound out ho y i hl
    have hdist : info.dist = d := by rw [← hd, hi]; rfl
    have := (R.exact rfl rfl t d).1 ⟨info, hm, hdist⟩
    exact (S.isDist hn hsi hy d).1 this
  · intro hD
    obtain ⟨j, hj⟩ := S.target2 hn hsi hD.1
    have hI := (S.isDist hn hsi hj d).2 hD
    obtain ⟨info, hm, hdist⟩ := (R.exact rfl rfl j d).2 hI
    obtain ⟨y', hy', hl⟩ := R.complete out ho j info hm
    rw [hj] at hy'
    cases hy'
    exact ⟨_, hl, hdist⟩

/-- every returned path, by names: starts at the source, ends at the node, follows abstract arcs, costs the distance -/
theorem C04_model_singleSource_paths (s : Store) (h : s.wf = true) (hent : s.entOk = true) (weighted : Bool) (hc : s.costsOk weighted)
    (src : Nat) (hsrc : s.hasNode src = true) (target : Option Nat) (cutoff2 : Option Int) (firstOnly : Bool)
    (out : List (Nat × SPInfo)) (hout : s.singleSource weighted src target cutoff2 firstOnly true = .ok out) :
    ∀ y i, alookup out y = some i → ∀ p ∈ i.paths,
      p.head? = some src ∧ p.getLast? = some y ∧ Arcs.walkCost (s.abs.arcs s.specs.directed weighted) p = some i.dist := by
  obtain ⟨si, hgi, hsi, _⟩ := index_of_hasNode s h src hsrc
  obtain ⟨si', ti, r0, hgi', _, hrun0, ho⟩ := singleSource_inv s weighted src target cutoff2 firstOnly true out hout
  rw [hgi] at hgi'
  cases hgi'
  obtain ⟨r, hrun, R⟩ := single_run s h hent weighted hc si src hsi ti target cutoff2 firstOnly true
  rw [hrun0] at hrun
  cases hrun
  intro y i hl p hp
  obtain ⟨t, info, hm, hy, hi, _⟩ := R.sound out ho y i hl
  subst hi
  simp only [conv, List.mem_map] at hp
  obtain ⟨q, hq, rfl⟩ := hp
  obtain ⟨p', hp', h1, h2, h3⟩ := R.paths rfl t info hm q hq
  have e : q.map (nameD s) = p' := map_names_eq (fun i x hx => (isIdx_of_names s h hx).2) q p' hp'
  refine ⟨?_, ?_, ?_⟩
  · rw [List.head?_map, h1]
    simp [(isIdx_of_names s h hsi).2]
  · rw [List.getLast?_map, h2]
    simp [(isIdx_of_names s h hy).2]
  · rw [e]; exact h3

/- ORIGINAL STATEMENT (FALSE on stores that violate the coupling invariant: `has_node` goes through `nodes_map` *and*
   `nodes_map_rev` (`get_node`), `single_source` only through `nodes_map` (`get_node_index`); the statement carries no
   `wf` hypothesis, so `nodes_map` may bind a name whose position `nodes_map_rev` does not know):

-- an unknown source is `NodeNotFound`, for every option combination
(original statement) C04_model_singleSource_unknown (s : Store) (weighted : Bool) (src : Nat) (hsrc : s.hasNode src = false)
    (target : Option Nat) (cutoff2 : Option Int) (firstOnly withPaths : Bool) :
    s.singleSource weighted src target cutoff2 firstOnly withPaths = .err .NodeNotFound

   Counterexample (machine-checked below): the store whose only non-empty index is `nodes_map = {5 ↦ 0}`:
   `has_node(5)` is false, `single_source(5)` finds position 0 and panics at `dist[0]` of the empty vector.
   Such a store is not reachable through the API (`Core_reachable_wf`); the corrected theorem adds `s.wf = true`. -/

/-- the counterexample store of `C04_model_singleSource_unknown`: `nodes_map = {5 ↦ 0}` and nothing else -/
def C04_unknown_cex_store : Store :=
  { specs := ⟨true, false, false, .keepFirst, .create, .error⟩, nodesMap := [(5, 0)] }

theorem C04_model_singleSource_unknown_counterexample :
    C04_unknown_cex_store.hasNode 5 = false ∧ C04_unknown_cex_store.wf = false ∧
    C04_unknown_cex_store.singleSource false 5 none none false false = .panic "dijkstra_basic: index out of range" ∧
    C04_unknown_cex_store.singleSource false 5 none none false false ≠ .err .NodeNotFound := by
  refine ⟨by decide, by decide, by decide, ?_⟩
  have : C04_unknown_cex_store.singleSource false 5 none none false false = .panic "dijkstra_basic: index out of range" := by
    decide
  rw [this]
  intro e; cases e

/-- the version that needs no invariant: a name that `nodes_map` does not bind is `NodeNotFound` -/
theorem C04_model_singleSource_unbound (s : Store) (weighted : Bool) (src : Nat) (hsrc : alookup s.nodesMap src = none)
    (target : Option Nat) (cutoff2 : Option Int) (firstOnly withPaths : Bool) :
    s.singleSource weighted src target cutoff2 firstOnly withPaths = .err .NodeNotFound := by
  unfold Store.singleSource Store.getNodeIndex
  rw [hsrc]
  rfl

/-- an unknown source is `NodeNotFound`, for every option combination (corrected: hypothesis `s.wf = true` added) -/
theorem C04_model_singleSource_unknown_corrected (s : Store) (h : s.wf = true) (weighted : Bool) (src : Nat)
    (hsrc : s.hasNode src = false) (target : Option Nat) (cutoff2 : Option Int) (firstOnly withPaths : Bool) :
    s.singleSource weighted src target cutoff2 firstOnly withPaths = .err .NodeNotFound := by
  have hn := nodesP s h
  apply C04_model_singleSource_unbound
  cases hl : alookup s.nodesMap src with
  | none => rfl
  | some i =>
    have : s.hasNode src = true := (C02.hasNode_mem hn src).2 ((hn.mem_names src).2 ⟨i, hl⟩)
    rw [hsrc] at this
    cases this

/-- **C08: `all_pairs` is one `single_source` per node** (same options), with one entry per node of the graph -/
theorem C08_model_allPairs_eq_singleSource (s : Store) (h : s.wf = true) (hent : s.entOk = true) (weighted : Bool)
    (hc : s.costsOk weighted) (cutoff2 : Option Int) (firstOnly withPaths : Bool)
    (ap : List (Nat × List (Nat × SPInfo))) (hap : s.allPairs weighted none cutoff2 firstOnly withPaths = .ok ap) :
    (∀ x, (alookup ap x).isSome = s.hasNode x) ∧
    ∀ x r, alookup ap x = some r →
      ∃ r', s.singleSource weighted x none cutoff2 firstOnly withPaths = .ok r' ∧ ∀ y, alookup r y = alookup r' y := by
  have hrel := allPairs_inv s weighted cutoff2 firstOnly withPaths ap hap
  have hn := nodesP s h
  obtain ⟨i1, i2, _⟩ := foldRel_insert (apH s weighted cutoff2 firstOnly withPaths) (nameD s)
    (fun i v => isIdx s i ∧ ∃ r, s.runOne weighted i none none cutoff2 firstOnly withPaths = .ok r ∧ s.spToNames r = .ok v)
    (fun b x b' hb => apH_ok s weighted cutoff2 firstOnly withPaths b b' x hb) (List.range s.numberOfNodes) [] ap hrel
  have hname : ∀ i, i < s.numberOfNodes → s.names[i]? = some (nameD s i) := by
    intro i hi
    have := names_of_lt s hi
    rw [this, (isIdx_of_names s h this).2]
  refine ⟨fun x => ?_, fun x r hl => ?_⟩
  · rw [i1 x, Bool.eq_iff_iff, C02.hasNode_mem hn x]
    simp only [alookup, Option.isSome_none, Bool.or_false, List.any_eq_true, List.mem_range, beq_iff_eq]
    constructor
    · rintro ⟨i, hi, e⟩
      rw [← e]
      exact List.mem_of_getElem? (hname i hi)
    · intro hx
      obtain ⟨i, hi⟩ := List.mem_iff_getElem?.1 hx
      have hlt : i < s.numberOfNodes := lt_of_names s hi
      have := hname i hlt
      rw [hi] at this
      cases this
      exact ⟨i, hlt, rfl⟩
  · rcases i2 x r hl with ⟨i, hi, e, _, r0, hr0, hc⟩ | hb
    · rw [List.mem_range] at hi
      have hnm := hname i hi
      rw [e] at hnm
      have hgi : s.getNodeIndex x = .ok i := by simp [Store.getNodeIndex, (hn.link x i).2 hnm]
      refine ⟨r, ?_, fun _ => rfl⟩
      rw [singleSource_none_eq s weighted x i cutoff2 firstOnly withPaths hgi, hr0]
      exact hc
    · simp [alookup] at hb

/-- **C08: `multi_source` is one `single_source` per listed source** -/
theorem C08_model_multiSource_eq_singleSource (s : Store) (weighted : Bool) (sources : List Nat) (target : Option Nat)
    (cutoff2 : Option Int) (firstOnly withPaths : Bool)
    (ms : List (Nat × List (Nat × SPInfo))) (hms : s.multiSource weighted sources target cutoff2 firstOnly withPaths = .ok ms) :
    (∀ x, (alookup ms x).isSome = sources.contains x) ∧
    ∀ x r, alookup ms x = some r → s.singleSource weighted x target cutoff2 firstOnly withPaths = .ok r := by
  have hrel := multiSource_inv s weighted sources target cutoff2 firstOnly withPaths ms hms
  obtain ⟨i1, i2, _⟩ := foldRel_insert (msH s weighted target cutoff2 firstOnly withPaths) id
    (fun x v => s.singleSource weighted x target cutoff2 firstOnly withPaths = .ok v)
    (fun b x b' hb => msH_ok s weighted target cutoff2 firstOnly withPaths b b' x hb) sources [] ms hrel
  refine ⟨fun x => ?_, fun x r hl => ?_⟩
  · rw [i1 x, Bool.eq_iff_iff]
    simp [alookup]
  · rcases i2 x r hl with ⟨y, _, e, hy⟩ | hb
    · simp only [id] at e
      subst e
      exact hy
    · simp [alookup] at hb

/-- `multi_source` with an unknown source or target is `NodeNotFound` -/
theorem C08_model_multiSource_unknown (s : Store) (weighted : Bool) (sources : List Nat) (target : Option Nat)
    (cutoff2 : Option Int) (firstOnly withPaths : Bool)
    (hbad : (∃ x ∈ sources, s.hasNode x = false) ∨ (∃ t, target = some t ∧ s.hasNode t = false)) :
    s.multiSource weighted sources target cutoff2 firstOnly withPaths = .err .NodeNotFound := by
  unfold Store.multiSource
  by_cases h1 : s.hasNodes sources = true
  · rcases hbad with ⟨x, hx, hf⟩ | ⟨t, ht, hf⟩
    · simp only [Store.hasNodes, List.all_eq_true] at h1
      rw [h1 x hx] at hf
      cases hf
    · subst ht
      simp [h1, hf]
  · simp [h1]

/-- **C08: symmetry on undirected graphs** - abstract distances are symmetric, hence so are the reported ones -/
theorem C08_model_symmetric (s : Store) (h : s.wf = true) (hd : s.specs.directed = false) (weighted : Bool) (x y : Nat) (d : Int) :
    IsDist (s.abs.arcs false weighted) x y d ↔ IsDist (s.abs.arcs false weighted) y x d :=
  ⟨isDist_symm (abs_arcs_symm s.abs weighted) x y d, isDist_symm (abs_arcs_symm s.abs weighted) y x d⟩

/-- **C08: `get_all_shortest_paths_involving(x)`** returns exactly the `all_pairs` (with paths) entries having a path with
    `x` strictly inside -/
theorem C08_model_involving (s : Store) (x : Nat) (weighted : Bool) (ap : List (Nat × List (Nat × SPInfo)))
    (hap : s.allPairs weighted none none false true = .ok ap) :
    ∃ l, s.pathsInvolving x weighted = .ok l ∧
      ∀ i, i ∈ l ↔ (∃ src r y, (src, r) ∈ ap ∧ (y, i) ∈ r ∧ ∃ p ∈ i.paths, 2 < p.length ∧ x ∈ (p.drop 1).dropLast) := by
  unfold Store.pathsInvolving
  rw [hap]
  refine ⟨_, rfl, fun i => ?_⟩
  simp only [List.mem_filter, List.mem_flatMap, List.mem_map, SPInfo.through, List.any_eq_true, Bool.and_eq_true,
    decide_eq_true_eq, List.contains_iff_mem, gt_iff_lt]
  constructor
  · rintro ⟨⟨⟨src, r⟩, hm, ⟨y, i'⟩, hy, e⟩, hp⟩
    simp only at e hy
    subst e
    exact ⟨src, r, y, hm, hy, hp⟩
  · rintro ⟨src, r, y, hm, hy, hp⟩
    exact ⟨⟨(src, r), hm, (y, i), hy, rfl⟩, hp⟩

/-! ## consequences -/

/-- **`all_pairs` = the definition**: the entry of `x` reports exactly the nodes reachable from `x` in the abstract graph,
    with the abstract shortest distance -/
theorem C08_model_allPairs_exact (s : Store) (h : s.wf = true) (hent : s.entOk = true) (weighted : Bool)
    (hc : s.costsOk weighted) (firstOnly withPaths : Bool)
    (ap : List (Nat × List (Nat × SPInfo))) (hap : s.allPairs weighted none none firstOnly withPaths = .ok ap) :
    ∀ x r, alookup ap x = some r →
      ∀ y d, (∃ i, alookup r y = some i ∧ i.dist = d) ↔ IsDist (s.abs.arcs s.specs.directed weighted) x y d := by
  intro x r hl y d
  obtain ⟨h1, h2⟩ := C08_model_allPairs_eq_singleSource s h hent weighted hc none firstOnly withPaths ap hap
  obtain ⟨r', hr', heq⟩ := h2 x r hl
  have hx : s.hasNode x = true := by rw [← h1 x, hl]; rfl
  rw [heq y]
  exact (C04_model_singleSource_exact s h hent weighted hc x hx firstOnly withPaths r' hr').2 y d

/-- **the reported `all_pairs` distances of an undirected graph are symmetric** -/
theorem C08_model_allPairs_symmetric (s : Store) (h : s.wf = true) (hent : s.entOk = true) (hd : s.specs.directed = false)
    (weighted : Bool) (hc : s.costsOk weighted) (firstOnly withPaths : Bool)
    (ap : List (Nat × List (Nat × SPInfo))) (hap : s.allPairs weighted none none firstOnly withPaths = .ok ap)
    (x y : Nat) (rx ry : List (Nat × SPInfo)) (hx : alookup ap x = some rx) (hy : alookup ap y = some ry) (d : Int) :
    (∃ i, alookup rx y = some i ∧ i.dist = d) ↔ (∃ j, alookup ry x = some j ∧ j.dist = d) := by
  rw [C08_model_allPairs_exact s h hent weighted hc firstOnly withPaths ap hap x rx hx y d,
    C08_model_allPairs_exact s h hent weighted hc firstOnly withPaths ap hap y ry hy x d, hd]
  exact C08_model_symmetric s h hd weighted x y d

/-- non-vacuity: an undirected weighted multigraph with a heavier parallel edge, a tie and an isolated node -/
example :
    let sp : Specs := ⟨false, true, false, .keepFirst, .create, .error⟩
    let s := (Store.run sp [Op.addEdge ⟨1, 2, some 1, none⟩, Op.addEdge ⟨1, 3, some 1, none⟩, Op.addEdge ⟨2, 4, some 1, none⟩,
      Op.addEdge ⟨3, 4, some 1, none⟩, Op.addEdge ⟨4, 1, some 5, none⟩, Op.addEdge ⟨2, 1, some 3, none⟩, Op.addNode ⟨9, none⟩]).1
    s.wf = true ∧ s.entOk = true ∧ s.allEdges.all (fun e => e.w.any (0 ≤ ·)) = true ∧
    (s.singleSource true 4 none none false true).toOption =
      some [(1, ⟨2, [[4, 3, 1], [4, 2, 1]]⟩), (2, ⟨1, [[4, 2]]⟩), (3, ⟨1, [[4, 3]]⟩), (4, ⟨0, [[4]]⟩)] ∧
    ((s.allPairs true none none false false).toOption.map fun ap => ap.map fun p => (p.1, p.2.map fun q => (q.1, q.2.dist))) =
      some [(1, [(1, 0), (2, 1), (3, 1), (4, 2)]), (2, [(1, 1), (2, 0), (3, 2), (4, 1)]),
            (3, [(1, 1), (2, 2), (3, 0), (4, 1)]), (4, [(1, 2), (2, 1), (3, 1), (4, 0)]), (9, [(9, 0)])] := by
  decide +kernel

end Graphrs
