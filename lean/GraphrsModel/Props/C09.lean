/-
  C09 — counts, degrees and the handshake identities, on the abstract graph (node list + edge
  list) that every read API answers from (C02) and that the store refines (C01).
  `Abs.api` (Obs.lean) is the specification the implementation's count / degree / density /
  matrix functions are compared with on every run; here the identities the property states are
  proved of that specification for every graph.
-/
import GraphrsModel.Obs
namespace Graphrs

/-- endpoints are nodes and node names are pairwise distinct (holds on every reachable store) -/
def Abs.Valid (a : Abs) : Prop := a.nodeNames.Nodup ∧ ∀ e ∈ a.edges, e.u ∈ a.nodeNames ∧ e.v ∈ a.nodeNames


/-! ### helper lemmas -/

private theorem sumNat_eq_sum (l : List Nat) : sumNat l = l.sum := by
  unfold sumNat
  have : ∀ acc, l.foldl (· + ·) acc = acc + l.sum := by
    induction l with
    | nil => simp
    | cons a l ih => intro acc; simp [List.foldl_cons, ih]; omega
  simpa using this 0

private theorem sumInt_eq_sum (l : List Int) : sumInt l = l.sum := by
  unfold sumInt
  have : ∀ acc, l.foldl (· + ·) acc = acc + l.sum := by
    induction l with
    | nil => simp
    | cons a l ih => intro acc; simp [List.foldl_cons, ih]; omega
  simpa using this 0

private theorem sumNat_cons (a : Nat) (l : List Nat) : sumNat (a :: l) = a + sumNat l := by
  simp [sumNat_eq_sum]

private theorem sum_map_add_int {α} (l : List α) (f g : α → Int) :
    (l.map fun x => f x + g x).sum = (l.map f).sum + (l.map g).sum := by
  induction l with
  | nil => simp
  | cons a l ih => simp [ih]; omega

private theorem sum_map_zero {α} (l : List α) (f : α → Int) (h : ∀ x ∈ l, f x = 0) : (l.map f).sum = 0 := by
  induction l with
  | nil => simp
  | cons a l ih =>
    simp only [List.map_cons, List.sum_cons]
    rw [h a (by simp), ih (fun x hx => h x (by simp [hx]))]; rfl

/-- the indicator of one element of a duplicate-free list sums to its value -/
private theorem sum_indicator (l : List Nat) (y : Nat) (c : Int) (hl : l.Nodup) (hy : y ∈ l) :
    (l.map fun x => if y = x then c else 0).sum = c := by
  induction l with
  | nil => simp at hy
  | cons a l ih =>
    have hnd := List.nodup_cons.mp hl
    simp only [List.map_cons, List.sum_cons]
    by_cases hya : y = a
    · subst hya
      rw [sum_map_zero l _ (fun x hx => by
        have : y ≠ x := fun h => hnd.1 (h ▸ hx)
        simp [this])]
      simp
    · have hy' : y ∈ l := by
        rcases List.mem_cons.mp hy with h | h
        · exact absurd h hya
        · exact h
      rw [ih hnd.2 hy']; simp [hya]

/-- **double counting**: distributing the edges over the (distinct) values of `f` loses nothing -/
private theorem sum_by_key (l : List Nat) (es : List Edge) (f : Edge → Nat) (g : Edge → Int)
    (hl : l.Nodup) (hf : ∀ e ∈ es, f e ∈ l) :
    (l.map fun x => ((es.filter fun e => f e == x).map g).sum).sum = (es.map g).sum := by
  induction es with
  | nil => simpa using sum_map_zero l (fun _ => 0) (fun _ _ => rfl)
  | cons e es ih =>
    have h1 : ∀ x, (((e :: es).filter fun e => f e == x).map g).sum
        = (if f e = x then g e else 0) + ((es.filter fun e => f e == x).map g).sum := by
      intro x
      by_cases h : f e = x <;> simp [h]
    simp only [h1]
    rw [sum_map_add_int, sum_indicator l (f e) (g e) hl (hf e (by simp)),
      ih (fun e' he' => hf e' (by simp [he']))]
    simp

private theorem length_eq_sum_one (es : List Edge) : (es.length : Int) = (es.map fun _ => (1 : Int)).sum := by
  induction es with
  | nil => simp
  | cons e es ih => simp only [List.length_cons, List.map_cons, List.sum_cons, ← ih]; omega

private theorem natCast_sum_map {α} (l : List α) (k : α → Nat) :
    (((l.map k).sum : Nat) : Int) = (l.map fun x => (k x : Int)).sum := by
  induction l with
  | nil => simp
  | cons a l ih => simp only [List.map_cons, List.sum_cons, ← ih]; omega

private theorem count_by_key (l : List Nat) (es : List Edge) (f : Edge → Nat)
    (hl : l.Nodup) (hf : ∀ e ∈ es, f e ∈ l) :
    sumNat (l.map fun x => (es.filter fun e => f e == x).length) = es.length := by
  have h := sum_by_key l es f (fun _ => 1) hl hf
  simp only [← length_eq_sum_one] at h
  rw [sumNat_eq_sum]
  have h2 := natCast_sum_map l (fun x => (es.filter fun e => f e == x).length)
  omega

/-- pointwise: touching + loops = out + in -/
private theorem touching_split_gen (es : List Edge) (x : Nat) (g : Edge → Int) :
    ((es.filter fun e => e.u == x || e.v == x).map g).sum + ((es.filter fun e => e.u == x && e.v == x).map g).sum
      = ((es.filter fun e => e.v == x).map g).sum + ((es.filter fun e => e.u == x).map g).sum := by
  induction es with
  | nil => simp
  | cons e es ih =>
    by_cases h1 : (e.u == x) = true <;> by_cases h2 : (e.v == x) = true <;>
      simp [h1, h2] <;> omega

private theorem touching_split_len (es : List Edge) (x : Nat) :
    (es.filter fun e => e.u == x || e.v == x).length + (es.filter fun e => e.u == x && e.v == x).length
      = (es.filter fun e => e.v == x).length + (es.filter fun e => e.u == x).length := by
  have h := touching_split_gen es x (fun _ => 1)
  simp only [← length_eq_sum_one] at h
  omega

theorem C09_degree_eq_in_add_out (dir : Bool) (a : Abs) (x : Nat) :
    a.degree dir x = (a.inEdges x).length + (a.outEdges x).length := by
  cases dir
  · simp only [Abs.degree, Abs.touching, Abs.inEdges, Abs.outEdges, Bool.false_eq_true, if_false]
    exact touching_split_len a.edges x
  · simp [Abs.degree]

private theorem sumNat_map_add {α} (l : List α) (f g : α → Nat) :
    sumNat (l.map fun x => f x + g x) = sumNat (l.map f) + sumNat (l.map g) := by
  simp only [sumNat_eq_sum]
  induction l with
  | nil => simp
  | cons a l ih => simp [ih]; omega

/-- directed: the in-degrees sum to the number of edges (parallel edges counted individually) -/
theorem C09_in_degrees_sum (a : Abs) (h : a.Valid) :
    sumNat (a.nodeNames.map fun x => (a.inEdges x).length) = a.edges.length :=
  count_by_key a.nodeNames a.edges (·.v) h.1 (fun e he => (h.2 e he).2)

theorem C09_out_degrees_sum (a : Abs) (h : a.Valid) :
    sumNat (a.nodeNames.map fun x => (a.outEdges x).length) = a.edges.length :=
  count_by_key a.nodeNames a.edges (·.u) h.1 (fun e he => (h.2 e he).1)

/-- directed: degree = in-degree + out-degree for every node (a self-loop counts in both) -/
theorem C09_directed_degree_split (a : Abs) (x : Nat) :
    a.degree true x = (a.inEdges x).length + (a.outEdges x).length := by
  simp [Abs.degree]

/-- **handshake**: the degrees of all nodes sum to twice the number of edges, on directed and undirected
    graphs alike; a self-loop adds two to its node -/
theorem C09_handshake (dir : Bool) (a : Abs) (h : a.Valid) :
    sumNat (a.nodeNames.map fun x => a.degree dir x) = 2 * a.edges.length := by
  simp only [C09_degree_eq_in_add_out]
  rw [sumNat_map_add, C09_in_degrees_sum a h, C09_out_degrees_sum a h]
  omega

theorem C09_self_loop_counts_twice (dir : Bool) (x : Nat) (w : W) :
    Abs.degree dir { nodes := [⟨x, none⟩], edges := [⟨x, x, w, none⟩] } x = 2 := by
  cases dir <;> simp [Abs.degree, Abs.touching, Abs.inEdges, Abs.outEdges]

/-- the weighted variants, for graphs whose edges all carry a weight: weights as integers -/
def Abs.wsum (es : List Edge) : Int := sumInt (es.map fun e => e.w.getD 0)

theorem C09_sumW_weighted (es : List Edge) (hw : ∀ e ∈ es, e.w.isSome = true) : Abs.sumW es = some (Abs.wsum es) := by
  unfold Abs.sumW Abs.wsum
  rw [sumInt_eq_sum]
  have : ∀ c : Int, es.foldl (fun acc e => W.add acc e.w) (some c) = some (c + (es.map fun e => e.w.getD 0).sum) := by
    induction es with
    | nil => simp
    | cons e es ih =>
      intro c
      have he := hw e (by simp)
      obtain ⟨we, hwe⟩ := Option.isSome_iff_exists.mp he
      have hadd : W.add (some c) e.w = some (c + we) := by rw [hwe]; rfl
      simp only [List.foldl_cons, hadd, List.map_cons, List.sum_cons]
      rw [ih (fun e' he' => hw e' (by simp [he'])), hwe]
      simp only [Option.getD_some]
      congr 1; omega
  simpa using this 0

private theorem wsum_eq (es : List Edge) : Abs.wsum es = (es.map fun e => e.w.getD 0).sum := by
  unfold Abs.wsum; rw [sumInt_eq_sum]

theorem C09_weightedDegree_eq (dir : Bool) (a : Abs) (x : Nat) (hw : ∀ e ∈ a.edges, e.w.isSome = true) :
    a.weightedDegree dir x = some (Abs.wsum (a.inEdges x) + Abs.wsum (a.outEdges x)) := by
  have hf : ∀ p : Edge → Bool, ∀ e ∈ a.edges.filter p, e.w.isSome = true :=
    fun p e he => hw e (List.mem_filter.mp he).1
  cases dir
  · simp only [Abs.weightedDegree, Bool.false_eq_true, if_false, Abs.touching]
    rw [C09_sumW_weighted _ (hf _), C09_sumW_weighted _ (hf _)]
    simp only [W.add, wsum_eq, Abs.inEdges, Abs.outEdges]
    rw [touching_split_gen]
  · simp only [Abs.weightedDegree, if_true, Abs.inEdges, Abs.outEdges]
    rw [C09_sumW_weighted _ (hf _), C09_sumW_weighted _ (hf _)]
    simp only [W.add]

theorem C09_weighted_handshake (dir : Bool) (a : Abs) (h : a.Valid) (hw : ∀ e ∈ a.edges, e.w.isSome = true) :
    sumInt (a.nodeNames.map fun x => (a.weightedDegree dir x).getD 0) = 2 * Abs.wsum a.edges := by
  simp only [C09_weightedDegree_eq dir a _ hw, Option.getD_some, sumInt_eq_sum, wsum_eq, Abs.inEdges, Abs.outEdges]
  rw [sum_map_add_int]
  have h1 := sum_by_key a.nodeNames a.edges (·.v) (fun e => e.w.getD 0) h.1 (fun e he => (h.2 e he).2)
  have h2 := sum_by_key a.nodeNames a.edges (·.u) (fun e => e.w.getD 0) h.1 (fun e he => (h.2 e he).1)
  rw [h1, h2]; omega

/-- number_of_edges = size(false) = number of stored edges; size(true) = the sum of the weights -/
theorem C09_counts (sp : Specs) (a : Abs) :
    (Abs.api sp a).numEdges = a.edges.length ∧ (Abs.api sp a).sizeU = a.edges.length ∧
    (Abs.api sp a).numNodes = a.nodes.length ∧ (Abs.api sp a).sizeW = Abs.sumW a.edges := by
  simp [Abs.api]

/-- non-vacuity: a directed multigraph with a self-loop -/
example :
    let a : Abs := { nodes := [⟨3, none⟩, ⟨1, none⟩], edges := [⟨3, 1, some 2, none⟩, ⟨3, 1, some 5, none⟩, ⟨3, 3, some 1, none⟩] }
    a.Valid ∧ sumNat (a.nodeNames.map fun x => a.degree true x) = 6 := by
  refine ⟨⟨by decide, by decide⟩, by decide⟩

end Graphrs
