/-
  C18, model level — the executable eigenvector model IS the power iteration the C18 theorems are about.

  Model/Centrality.lean writes the step `x ↦ normalise(x + Aᵀx)`, the stopping test and the loop of
  src/algorithms/centrality/eigenvector.rs ONCE, generically over a record of scalar operations (`Scalar α`).
  The driver runs the instance at `Float` (`floatScalar`).  This file instantiates THE SAME definitions at `ℝ`
  (`realScalar`) and proves that, on every well-formed single-edge store and for every vector given as an association
  list over the node names, the generic step is `Eigen.step M` of Props/C18.lean, with `M = I + Aᵀ` read off the abstract
  graph `s.abs` - so the real-analysis theorems of Props/C18.lean are theorems about the model's own code, not about
  an independently written function.
-/
import GraphrsModel.Props.C18
import GraphrsModel.Props.C02
import GraphrsModel.Props.Core
import GraphrsModel.Model.Centrality
namespace Graphrs
open C02 Finset BigOperators

/-! ## the real instance of the scalar record -/

/-- Exact real arithmetic.  `ofW none` is the value the code uses for a NaN weight: the model (like the Rust code)
    replaces a NaN weight by `1.0` before use (`eigWeightG`), so `ofW none` is never consulted by the step; it is set to
    that replacement value. -/
noncomputable def realScalar : Scalar ℝ where
  zero := 0
  one := 1
  add := (· + ·)
  sub := (· - ·)
  mul := (· * ·)
  div := (· / ·)
  sqrt := Real.sqrt
  abs := fun a => |a|
  lt := fun a b => decide (a < b)
  isZero := fun a => decide (a = 0)
  ofNat := fun n => (n : ℝ)
  ofW := fun w => match w with | none => 1 | some x => (x : ℝ)

/-! ## the matrix and the vectors, read off the abstract graph -/

/-- the weight the iteration uses for a stored edge (1 when unweighted or NaN) -/
noncomputable def usedWeight (weighted : Bool) (e : Edge) : ℝ := eigWeightG realScalar weighted e

/-- `A x y`: the sum of the used weights of the stored edges from `x` to `y` (either stored orientation when
    undirected; a self-loop is one stored edge and contributes once) -/
noncomputable def arcWeight (s : Store) (weighted : Bool) (x y : Nat) : ℝ :=
  ((s.abs.between s.specs.directed x y).map (usedWeight weighted)).sum

/-- the name of the node at a position -/
def nameAt (s : Store) (i : Fin s.nodesVec.length) : Nat := (s.nodesVec[i.1]).name

/-- `M = I + Aᵀ` by node position: `M i j = δ i j + A (name j) (name i)`, defined from `s.abs` -/
noncomputable def eigM (s : Store) (weighted : Bool) : Fin s.nodesVec.length → Fin s.nodesVec.length → ℝ :=
  fun i j => (if i = j then 1 else 0) + arcWeight s weighted (nameAt s j) (nameAt s i)

/-- an association list over node names, read as a vector by node position -/
noncomputable def vecOf (s : Store) (x : List (Nat × ℝ)) : Fin s.nodesVec.length → ℝ :=
  fun i => (alookup x (nameAt s i)).getD 0

/-! ## store facts: neighbours and edges against the abstract graph (from C02) -/

private theorem wf_parts' (s : Store) (h : s.wf = true) :
    s.nodesOk = true ∧ s.edgesOk = true ∧ s.adjOk = true ∧ s.vecOk = true := by
  simp only [Store.wf, Bool.and_eq_true] at h
  exact ⟨h.1.1.1, h.1.1.2, h.1.2, h.2⟩

/-- `get_successors_or_neighbors` never panics on a node and lists each `y` with a stored edge `x → y` exactly once -/
theorem succOrNbrs_ok (s : Store) (h : s.wf = true) (x : Nat) (hx : s.hasNode x = true) :
    ∃ l, s.getSuccessorsOrNeighbors x = .ok l ∧ (∀ y, y ∈ l.map (·.name) ↔ s.hasEdge x y = true) ∧
      (l.map (·.name)).Nodup := by
  unfold Store.getSuccessorsOrNeighbors
  cases hd : s.specs.directed
  · obtain ⟨l, hl, hmem, hnd⟩ := C02_neighborNodes s h x hx
    refine ⟨l, by simp [hl, Outcome.unwrap], ?_, hnd⟩
    intro y
    rw [hmem y]
    unfold Abs.nbrs
    rw [mem_dedup, List.mem_append, mem_abs_succ, mem_abs_pred]
    simp [hd]
  · obtain ⟨l, hl, hmem, hnd⟩ := C02_successorNodes s h hd x hx
    refine ⟨l, by simp [hl, Outcome.unwrap], ?_, hnd⟩
    intro y
    rw [hmem y]
    have := mem_abs_succ s x y
    rw [hd] at this
    exact this

/-- on a single-edge store, the stored edges between two names are at most one, and `get_edge` returns it -/
theorem getEdge_between (s : Store) (h : s.wf = true) (hm : s.specs.multi = false) (x y : Nat) :
    (s.hasEdge x y = true ∧ ∃ e, s.getEdge x y = .ok e ∧ s.abs.between s.specs.directed x y = [e]) ∨
    (s.hasEdge x y = false ∧ s.abs.between s.specs.directed x y = []) := by
  have hn := nodesP_of s (wf_parts' s h).1
  have he := edgesP_of s (wf_parts' s h).2.1
  cases hxy : s.hasEdge x y
  · right
    refine ⟨rfl, ?_⟩
    rw [between_eq he]
    cases hl : alookup s.edges (nameKey s.specs.directed x y) with
    | none => rfl
    | some l =>
      have := (he.hasEdge_iff x y).2 (by simp [hl])
      rw [hxy] at this; cases this
  · left
    refine ⟨rfl, ?_⟩
    have hnames := hasEdge_names he hxy
    have hu := (hasNode_mem hn x).2 hnames.1
    have hv := (hasNode_mem hn y).2 hnames.2
    have hge := C02_getEdge s h hm x y hu hv
    have hb := between_eq he x y
    have hs := (he.hasEdge_iff x y).1 hxy
    cases hl : alookup s.edges (nameKey s.specs.directed x y) with
    | none => simp [hl] at hs
    | some l =>
      have hkv := alookup_mem _ _ _ hl
      have hsingle := he.single _ hkv
      simp only [hm, Bool.false_eq_true, false_or] at hsingle
      rw [hl] at hb
      simp only [Option.getD_some] at hb
      match l, hsingle with
      | [e], _ =>
        refine ⟨e, ?_, hb⟩
        rw [hge, hb]

/-- hence `A x y` is the used weight of that edge, or 0 -/
theorem arcWeight_of_noEdge (s : Store) (h : s.wf = true) (hm : s.specs.multi = false) (weighted : Bool) (x y : Nat)
    (hxy : s.hasEdge x y = false) : arcWeight s weighted x y = 0 := by
  rcases getEdge_between s h hm x y with ⟨h1, _⟩ | ⟨_, h2⟩
  · rw [hxy] at h1; cases h1
  · simp [arcWeight, h2]

theorem arcWeight_of_edge (s : Store) (h : s.wf = true) (hm : s.specs.multi = false) (weighted : Bool) (x y : Nat)
    (hxy : s.hasEdge x y = true) :
    ∃ e, s.getEdge x y = .ok e ∧ arcWeight s weighted x y = usedWeight weighted e := by
  rcases getEdge_between s h hm x y with ⟨_, e, h1, h2⟩ | ⟨h1, _⟩
  · exact ⟨e, h1, by simp [arcWeight, h2]⟩
  · rw [hxy] at h1; cases h1

/-! ## the accumulation `x + Aᵀ x` (the two nested `for` loops) -/

/-- value of a key in an association list (0 when unbound) -/
noncomputable def valOf (x : List (Nat × ℝ)) (k : Nat) : ℝ := (alookup x k).getD 0

/-- the bodies of the two loops at `ℝ` -/
noncomputable abbrev eigInner (s : Store) (weighted : Bool) (kv : Nat × ℝ) := s.eigInnerG realScalar weighted kv
noncomputable abbrev eigOuter (s : Store) (weighted : Bool) := s.eigOuterG realScalar weighted

theorem eigAccG_real (s : Store) (weighted : Bool) (xlast : List (Nat × ℝ)) :
    s.eigAccG realScalar weighted xlast = xlast.foldl (eigOuter s weighted) (.ok xlast) := rfl

theorem eigInner_ok (s : Store) (weighted : Bool) (kv : Nat × ℝ) (x : List (Nat × ℝ)) (nbr : Node) (e : Edge) (old : ℝ)
    (he : s.getEdge kv.1 nbr.name = .ok e) (ho : alookup x nbr.name = some old) :
    eigInner s weighted kv (.ok x) nbr = .ok (ainsert x nbr.name (old + kv.2 * usedWeight weighted e)) := by
  simp [eigInner, Store.eigInnerG, bind, Outcome.bind, he, Outcome.unwrap, ho, realScalar, usedWeight]

theorem valOf_ainsert (x : List (Nat × ℝ)) (k k' : Nat) (v : ℝ) :
    valOf (ainsert x k v) k' = if k = k' then v else valOf x k' := by
  unfold valOf
  rw [alookup_ainsert]
  split <;> rfl

theorem eigInner_fold (s : Store) (weighted : Bool) (kv : Nat × ℝ) (a : Nat → ℝ) (nbrs : List Node) :
    ∀ x : List (Nat × ℝ), (∀ nbr ∈ nbrs, nbr.name ∈ x.map (·.1)) →
      (∀ nbr ∈ nbrs, ∃ e, s.getEdge kv.1 nbr.name = .ok e ∧ usedWeight weighted e = a nbr.name) →
      ∃ x', nbrs.foldl (eigInner s weighted kv) (.ok x) = .ok x' ∧ x'.map (·.1) = x.map (·.1) ∧
        ∀ k, valOf x' k = valOf x k + ((nbrs.map (·.name)).count k : ℝ) * (kv.2 * a k) := by
  induction nbrs with
  | nil => intro x _ _; exact ⟨x, rfl, rfl, by simp⟩
  | cons nbr rest ih =>
    intro x hkeys hedge
    obtain ⟨e, hge, hwe⟩ := hedge nbr List.mem_cons_self
    have hk := hkeys nbr List.mem_cons_self
    have hsome := (alookup_isSome x nbr.name).2 hk
    obtain ⟨old, hold⟩ := Option.isSome_iff_exists.1 hsome
    have hkeys1 : (ainsert x nbr.name (old + kv.2 * usedWeight weighted e)).map (·.1) = x.map (·.1) := by
      rw [keys_ainsert, if_pos hk]
    obtain ⟨x', hx', hk', hv'⟩ := ih (ainsert x nbr.name (old + kv.2 * usedWeight weighted e))
      (fun nb hnb => by rw [hkeys1]; exact hkeys nb (List.mem_cons_of_mem _ hnb))
      (fun nb hnb => hedge nb (List.mem_cons_of_mem _ hnb))
    refine ⟨x', ?_, hk'.trans hkeys1, ?_⟩
    · rw [List.foldl_cons, eigInner_ok s weighted kv x nbr e old hge hold, hx']
    · intro k
      rw [hv' k, valOf_ainsert, List.map_cons, List.count_cons]
      have hvo : valOf x nbr.name = old := by simp [valOf, hold]
      by_cases hkk : nbr.name = k
      · subst hkk
        simp only [if_true, beq_self_eq_true, hvo, hwe]
        push_cast
        ring
      · have : (nbr.name == k) = false := by simp [hkk]
        simp only [hkk, if_false, this, Bool.false_eq_true]
        push_cast
        ring

/-- one pass of the outer loop body for a node `kv.1`: every key `k` gains `kv.2 * A kv.1 k`; no panic site is reached -/
theorem eigOuter_ok (s : Store) (h : s.wf = true) (hm : s.specs.multi = false) (weighted : Bool) (kv : Nat × ℝ)
    (hkv : s.hasNode kv.1 = true) (x : List (Nat × ℝ)) (hx : x.map (·.1) = s.names) :
    ∃ x', eigOuter s weighted (.ok x) kv = .ok x' ∧ x'.map (·.1) = s.names ∧
      ∀ k, valOf x' k = valOf x k + kv.2 * arcWeight s weighted kv.1 k := by
  have he := edgesP_of s (wf_parts' s h).2.1
  obtain ⟨l, hl, hmem, hnd⟩ := succOrNbrs_ok s h kv.1 hkv
  have hE : ∀ nbr ∈ l, s.hasEdge kv.1 nbr.name = true := fun nbr hnbr =>
    (hmem nbr.name).1 (List.mem_map_of_mem hnbr)
  obtain ⟨x', hx', hk', hv'⟩ := eigInner_fold s weighted kv (arcWeight s weighted kv.1) l x
    (fun nbr hnbr => by rw [hx]; exact (hasEdge_names he (hE nbr hnbr)).2)
    (fun nbr hnbr => by
      obtain ⟨e, h1, h2⟩ := arcWeight_of_edge s h hm weighted kv.1 nbr.name (hE nbr hnbr)
      exact ⟨e, h1, h2.symm⟩)
  refine ⟨x', ?_, hk'.trans hx, ?_⟩
  · simp only [eigOuter, Store.eigOuterG, bind, Outcome.bind, hl]
    exact hx'
  · intro k
    rw [hv' k]
    by_cases hek : s.hasEdge kv.1 k = true
    · rw [List.count_eq_one_of_mem hnd ((hmem k).2 hek)]
      simp
    · have hnot : k ∉ l.map (·.name) := fun hc => hek ((hmem k).1 hc)
      rw [List.count_eq_zero_of_not_mem hnot, arcWeight_of_noEdge s h hm weighted kv.1 k (by simpa using hek)]
      simp

theorem eigOuter_fold (s : Store) (h : s.wf = true) (hm : s.specs.multi = false) (weighted : Bool) (l : List (Nat × ℝ)) :
    ∀ x : List (Nat × ℝ), (∀ kv ∈ l, s.hasNode kv.1 = true) → x.map (·.1) = s.names →
      ∃ x', l.foldl (eigOuter s weighted) (.ok x) = .ok x' ∧ x'.map (·.1) = s.names ∧
        ∀ k, valOf x' k = valOf x k + (l.map fun kv => kv.2 * arcWeight s weighted kv.1 k).sum := by
  induction l with
  | nil => intro x _ hx; exact ⟨x, rfl, hx, by simp⟩
  | cons kv rest ih =>
    intro x hnodes hx
    obtain ⟨x1, h1, hk1, hv1⟩ := eigOuter_ok s h hm weighted kv (hnodes kv List.mem_cons_self) x hx
    obtain ⟨x', h2, hk2, hv2⟩ := ih x1 (fun kv' hkv' => hnodes kv' (List.mem_cons_of_mem _ hkv')) hk1
    refine ⟨x', ?_, hk2, ?_⟩
    · rw [List.foldl_cons, h1, h2]
    · intro k
      rw [hv2 k, hv1 k, List.map_cons, List.sum_cons]
      ring

/-! ## association lists over the node names, by position -/

theorem keys_length (s : Store) (x : List (Nat × ℝ)) (hx : x.map (·.1) = s.names) : x.length = s.nodesVec.length := by
  have := congrArg List.length hx
  simpa [Store.names] using this

/-- an association list whose keys are the node names in `nodesVec` order is the list of its `(name, value)` pairs -/
theorem entries_eq (s : Store) (hnd : s.names.Nodup) (x : List (Nat × ℝ)) (hx : x.map (·.1) = s.names) :
    x = (List.finRange s.nodesVec.length).map (fun j => (nameAt s j, vecOf s x j)) := by
  have hlen := keys_length s x hx
  apply List.ext_getElem
  · simp [hlen]
  · intro i h1 h2
    simp only [List.getElem_map, List.getElem_finRange]
    have hi : i < s.nodesVec.length := hlen ▸ h1
    have hname : x[i].1 = (s.nodesVec[i]).name := by
      have h3 : i < (x.map (·.1)).length := by simpa using h1
      have := List.getElem_of_eq hx h3
      simpa [Store.names] using this
    have hval : alookup x x[i].1 = some x[i].2 :=
      mem_alookup x _ _ (hx ▸ hnd) (List.getElem_mem h1)
    apply Prod.ext
    · exact hname
    · simp only [vecOf, nameAt, Fin.cast_mk]
      rw [← hname, hval]
      rfl

theorem sum_entries (s : Store) (hnd : s.names.Nodup) (x : List (Nat × ℝ)) (hx : x.map (·.1) = s.names)
    (f : Nat × ℝ → ℝ) : (x.map f).sum = ∑ j, f (nameAt s j, vecOf s x j) := by
  have := congrArg (fun l => (l.map f).sum) (entries_eq s hnd x hx)
  simp only [List.map_map] at this
  rw [this, Fin.sum_univ_def]
  rfl

theorem sumG_real (l : List ℝ) : sumG realScalar l = l.sum := by
  have : ∀ a : ℝ, l.foldl (· + ·) a = a + l.sum := by
    induction l with
    | nil => simp
    | cons b l ih => intro a; simp [ih, add_assoc]
  have h0 := this 0
  rw [zero_add] at h0
  exact h0

theorem alookup_map_snd (x : List (Nat × ℝ)) (g : ℝ → ℝ) (k : Nat) :
    alookup (x.map fun kv => (kv.1, g kv.2)) k = (alookup x k).map g := by
  induction x with
  | nil => rfl
  | cons p x ih =>
    obtain ⟨a, b⟩ := p
    by_cases hak : a = k <;> simp [alookup, hak, ih]

/-! ## (a) the model's step is the power-iteration step of Props/C18.lean -/

/-- **the two nested loops compute `M x`**, `M = I + Aᵀ`: no panic, no error (the `get_edge().unwrap()` and
    `x.get_mut().unwrap()` sites are unreachable), the keys are unchanged -/
theorem C18_model_acc_is_mulVec (s : Store) (h : s.wf = true) (hm : s.specs.multi = false) (weighted : Bool)
    (xlast : List (Nat × ℝ)) (hk : xlast.map (·.1) = s.names) :
    ∃ x', s.eigAccG realScalar weighted xlast = .ok x' ∧ x'.map (·.1) = s.names ∧
      vecOf s x' = Eigen.mulVec (eigM s weighted) (vecOf s xlast) := by
  have hn := nodesP_of s (wf_parts' s h).1
  obtain ⟨x', h1, h2, h3⟩ := eigOuter_fold s h hm weighted xlast xlast
    (fun kv hkv => (hasNode_mem hn kv.1).2 (hk ▸ List.mem_map_of_mem hkv)) hk
  refine ⟨x', by rw [eigAccG_real]; exact h1, h2, ?_⟩
  funext i
  have h4 := h3 (nameAt s i)
  rw [sum_entries s hn.namesNodup xlast hk] at h4
  show valOf x' (nameAt s i) = _
  rw [h4]
  unfold Eigen.mulVec eigM
  simp only [add_mul, Finset.sum_add_distrib, ite_mul, one_mul, zero_mul, Finset.sum_ite_eq, Finset.mem_univ, if_true]
  congr 1
  apply Finset.sum_congr rfl
  intro j _
  ring

/-- the normalisation of the model, by position -/
theorem eigNormalise_real (s : Store) (hnd : s.names.Nodup) (x : List (Nat × ℝ)) (hx : x.map (·.1) = s.names) :
    (eigNormaliseG realScalar x).map (·.1) = s.names ∧
    vecOf s (eigNormaliseG realScalar x) =
      fun i => vecOf s x i / (if Eigen.norm2 (vecOf s x) = 0 then 1 else Eigen.norm2 (vecOf s x)) := by
  have hsum : realScalar.sqrt (sumG realScalar (x.map fun kv => realScalar.mul kv.2 kv.2)) = Eigen.norm2 (vecOf s x) := by
    rw [sumG_real, sum_entries s hnd x hx]
    unfold Eigen.norm2
    show Real.sqrt _ = Real.sqrt _
    congr 1
    apply Finset.sum_congr rfl
    intro j _
    show vecOf s x j * vecOf s x j = _
    ring
  unfold eigNormaliseG
  simp only [hsum]
  constructor
  · rw [List.map_map]
    exact hx
  · funext i
    show (alookup _ (nameAt s i)).getD 0 = _
    rw [alookup_map_snd x (fun v => realScalar.div v _)]
    have hz : realScalar.isZero (Eigen.norm2 (vecOf s x)) = decide (Eigen.norm2 (vecOf s x) = 0) := rfl
    rw [hz]
    show (Option.map _ (alookup x (nameAt s i))).getD 0 = (alookup x (nameAt s i)).getD 0 / _
    by_cases h0 : Eigen.norm2 (vecOf s x) = 0
    · simp only [h0, decide_true, if_true]
      cases alookup x (nameAt s i) <;> simp [realScalar]
    · simp only [h0, decide_false, if_false, Bool.false_eq_true]
      cases alookup x (nameAt s i) <;> simp [realScalar]

/-- **(a) the model's step, instantiated at `ℝ`, is `Eigen.step M`**: on a well-formed single-edge store, for a vector
    given as an association list over the node names (in `nodesVec` order), `eigStepG realScalar` returns `.ok x'` - no
    panic, no error - with the same keys, and by node position `x' = M x / ‖M x‖` for `M = I + Aᵀ` read off `s.abs` -/
theorem C18_model_step_is_power_step (s : Store) (h : s.wf = true) (hm : s.specs.multi = false) (weighted : Bool)
    (xlast : List (Nat × ℝ)) (hk : xlast.map (·.1) = s.names) :
    ∃ x', s.eigStepG realScalar weighted xlast = .ok x' ∧ x'.map (·.1) = s.names ∧
      vecOf s x' = Eigen.step (eigM s weighted) (vecOf s xlast) := by
  have hn := nodesP_of s (wf_parts' s h).1
  obtain ⟨x1, h1, h2, h3⟩ := C18_model_acc_is_mulVec s h hm weighted xlast hk
  obtain ⟨h4, h5⟩ := eigNormalise_real s hn.namesNodup x1 h2
  refine ⟨eigNormaliseG realScalar x1, ?_, h4, ?_⟩
  · simp [Store.eigStepG, h1, bind, Outcome.bind]
  · rw [h5, h3]
    rfl

/-! ## (b) `M` is an iteration matrix -/

/-- the stored weights the iteration uses are non-negative: nothing to ask when unweighted (every edge counts 1) -/
def NonnegWeights (s : Store) (weighted : Bool) : Prop :=
  weighted = true → ∀ e ∈ s.abs.edges, ∀ w : Int, e.w = some w → 0 ≤ w

theorem usedWeight_nonneg (s : Store) (weighted : Bool) (hw : NonnegWeights s weighted) (e : Edge) (he : e ∈ s.abs.edges) :
    0 ≤ usedWeight weighted e := by
  unfold usedWeight eigWeightG
  cases hwt : weighted
  · simp [realScalar]
  · cases hew : e.w with
    | none => simp [W.isNan, realScalar]
    | some w =>
      have := hw hwt e he w hew
      simp only [Bool.not_true, W.isNan, Bool.or_self, Bool.false_eq_true, if_false, realScalar]
      exact_mod_cast this

theorem arcWeight_nonneg (s : Store) (weighted : Bool) (hw : NonnegWeights s weighted) (x y : Nat) :
    0 ≤ arcWeight s weighted x y := by
  unfold arcWeight
  apply List.sum_nonneg
  intro r hr
  obtain ⟨e, he, rfl⟩ := List.mem_map.1 hr
  exact usedWeight_nonneg s weighted hw e (List.mem_of_mem_filter he)

/-- **(b)** with non-negative weights, `M = I + Aᵀ` has non-negative entries and diagonal entries `≥ 1` -/
theorem C18_model_matrix_is_iteration_matrix (s : Store) (weighted : Bool) (hw : NonnegWeights s weighted) :
    Eigen.IsIterationMatrix (eigM s weighted) := by
  constructor
  · intro i j
    unfold eigM
    have := arcWeight_nonneg s weighted hw (nameAt s j) (nameAt s i)
    split <;> linarith
  · intro i
    unfold eigM
    have := arcWeight_nonneg s weighted hw (nameAt s i) (nameAt s i)
    simp only [if_true]
    linarith

/-! ## (c) the theorems of Props/C18.lean, for the model's own step -/

theorem vecOf_nonneg (s : Store) (x : List (Nat × ℝ)) (hx : ∀ kv ∈ x, 0 ≤ kv.2) (i : Fin s.nodesVec.length) :
    0 ≤ vecOf s x i := by
  unfold vecOf
  cases hl : alookup x (nameAt s i) with
  | none => simp
  | some v => exact hx _ (alookup_mem _ _ _ hl)

theorem entries_of_vecOf (s : Store) (hnd : s.names.Nodup) (x : List (Nat × ℝ)) (hx : x.map (·.1) = s.names)
    (kv : Nat × ℝ) (hkv : kv ∈ x) : ∃ j, kv = (nameAt s j, vecOf s x j) := by
  rw [entries_eq s hnd x hx] at hkv
  obtain ⟨j, _, hj⟩ := List.mem_map.1 hkv
  exact ⟨j, hj.symm⟩

/-- the stopping quantity of the model is the L1 distance by position -/
theorem eigDelta_real (s : Store) (hnd : s.names.Nodup) (xlast x : List (Nat × ℝ)) (hx : x.map (·.1) = s.names) :
    eigDeltaG realScalar xlast x = Eigen.norm1 (fun i => vecOf s x i - vecOf s xlast i) := by
  unfold eigDeltaG
  rw [sumG_real, sum_entries s hnd x hx]
  rfl

/-- the stopping test of the model is `‖x − xlast‖₁ < n · tol` -/
theorem eigConverged_real (s : Store) (hnd : s.names.Nodup) (tol : ℝ) (xlast x : List (Nat × ℝ))
    (hx : x.map (·.1) = s.names) :
    eigConvergedG realScalar s.nodesVec.length tol xlast x = true ↔
      Eigen.norm1 (fun i => vecOf s x i - vecOf s xlast i) < s.nodesVec.length * tol := by
  unfold eigConvergedG
  rw [eigDelta_real s hnd xlast x hx]
  show decide (_ < (s.nodesVec.length : ℝ) * tol) = true ↔ _
  rw [decide_eq_true_iff]

/-- **(c1) non-negativity**: a step of the model from a non-negative vector returns a non-negative vector -/
theorem C18_model_step_nonneg (s : Store) (h : s.wf = true) (hm : s.specs.multi = false) (weighted : Bool)
    (hw : NonnegWeights s weighted) (xlast : List (Nat × ℝ)) (hk : xlast.map (·.1) = s.names)
    (hpos : ∀ kv ∈ xlast, 0 ≤ kv.2) :
    ∃ x', s.eigStepG realScalar weighted xlast = .ok x' ∧ x'.map (·.1) = s.names ∧ ∀ kv ∈ x', 0 ≤ kv.2 := by
  have hn := nodesP_of s (wf_parts' s h).1
  obtain ⟨x', h1, h2, h3⟩ := C18_model_step_is_power_step s h hm weighted xlast hk
  refine ⟨x', h1, h2, ?_⟩
  intro kv hkv
  obtain ⟨j, rfl⟩ := entries_of_vecOf s hn.namesNodup x' h2 kv hkv
  show 0 ≤ vecOf s x' j
  rw [h3]
  exact Eigen.C18_step_nonneg _ (C18_model_matrix_is_iteration_matrix s weighted hw) _ (vecOf_nonneg s xlast hpos) j

/-- **(c2) unit norm**: a step of the model from a non-negative non-zero vector returns a vector of Euclidean norm 1
    (by position, and as the sum of the squares of the returned map's values) -/
theorem C18_model_step_unit_norm (s : Store) (h : s.wf = true) (hm : s.specs.multi = false) (weighted : Bool)
    (hw : NonnegWeights s weighted) (xlast : List (Nat × ℝ)) (hk : xlast.map (·.1) = s.names)
    (hpos : ∀ kv ∈ xlast, 0 ≤ kv.2) (hnz : 0 < Eigen.norm2 (vecOf s xlast)) :
    ∃ x', s.eigStepG realScalar weighted xlast = .ok x' ∧ x'.map (·.1) = s.names ∧
      Eigen.norm2 (vecOf s x') = 1 ∧ (x'.map fun kv => kv.2 ^ 2).sum = 1 := by
  have hn := nodesP_of s (wf_parts' s h).1
  obtain ⟨x', h1, h2, h3⟩ := C18_model_step_is_power_step s h hm weighted xlast hk
  have h4 : Eigen.norm2 (vecOf s x') = 1 := by
    rw [h3]
    exact Eigen.C18_step_unit_norm _ (C18_model_matrix_is_iteration_matrix s weighted hw) _ (vecOf_nonneg s xlast hpos) hnz
  refine ⟨x', h1, h2, h4, ?_⟩
  rw [sum_entries s hn.namesNodup x' h2]
  have h5 : Real.sqrt (∑ i, vecOf s x' i ^ 2) = 1 := h4
  have h6 : 0 ≤ ∑ i, vecOf s x' i ^ 2 := Finset.sum_nonneg (fun i _ => sq_nonneg _)
  have := Real.sq_sqrt h6
  rw [h5] at this
  simpa using this.symm

/-- **(c3) the tolerance-derived bound**: if the model's step `x'` from a non-negative non-zero `xlast` passes the
    model's own stopping test (`eigConvergedG`: `‖x' − xlast‖₁ < n·tol`), then one further step of the model moves `x'`
    by at most `2·‖M‖_F·n·tol` in the Euclidean norm -/
theorem C18_model_next_step_bound (s : Store) (h : s.wf = true) (hm : s.specs.multi = false) (weighted : Bool)
    (hw : NonnegWeights s weighted) (xlast : List (Nat × ℝ)) (hk : xlast.map (·.1) = s.names)
    (hpos : ∀ kv ∈ xlast, 0 ≤ kv.2) (hnz : 0 < Eigen.norm2 (vecOf s xlast)) (tol : ℝ)
    (x' : List (Nat × ℝ)) (hstep : s.eigStepG realScalar weighted xlast = .ok x')
    (hconv : eigConvergedG realScalar s.nodesVec.length tol xlast x' = true) :
    ∃ x'', s.eigStepG realScalar weighted x' = .ok x'' ∧ x''.map (·.1) = s.names ∧
      Eigen.norm2 (fun i => vecOf s x'' i - vecOf s x' i) ≤
        2 * Eigen.frob (eigM s weighted) * (s.nodesVec.length * tol) := by
  have hn := nodesP_of s (wf_parts' s h).1
  obtain ⟨y, h1, h2, h3⟩ := C18_model_step_is_power_step s h hm weighted xlast hk
  rw [hstep] at h1
  cases h1
  obtain ⟨x'', g1, g2, g3⟩ := C18_model_step_is_power_step s h hm weighted x' h2
  refine ⟨x'', g1, g2, ?_⟩
  have hc := (eigConverged_real s hn.namesNodup tol xlast x' h2).1 hconv
  rw [g3, h3]
  rw [h3] at hc
  exact Eigen.C18_next_step_bound _ (C18_model_matrix_is_iteration_matrix s weighted hw) _
    (vecOf_nonneg s xlast hpos) hnz tol hc

/-! ## the loop and `eigenvector_centrality` itself, at `ℝ` -/

/-- what C18 states about an `Ok` answer `x`, for the model's own code: keys = the node names, entries `≥ 0`,
    Euclidean norm 1, and one further step of the model moves it by at most `2·‖M‖_F·n·tol` -/
def GoodAnswer (s : Store) (weighted : Bool) (tol : ℝ) (x : List (Nat × ℝ)) : Prop :=
  x.map (·.1) = s.names ∧ (∀ kv ∈ x, 0 ≤ kv.2) ∧ Eigen.norm2 (vecOf s x) = 1 ∧
  ∃ x'', s.eigStepG realScalar weighted x = .ok x'' ∧ x''.map (·.1) = s.names ∧
    Eigen.norm2 (fun i => vecOf s x'' i - vecOf s x i) ≤ 2 * Eigen.frob (eigM s weighted) * (s.nodesVec.length * tol)

/-- the loop of the model, at `ℝ`, never panics and never returns an error; when it stops with `some x`
    (the `Ok(x)` of the Rust code), `x` is a good answer -/
theorem C18_model_loop (s : Store) (h : s.wf = true) (hm : s.specs.multi = false) (weighted : Bool)
    (hw : NonnegWeights s weighted) (tol : ℝ) :
    ∀ (fuel it : Nat) (x0 : List (Nat × ℝ)) (margin : ℝ), x0.map (·.1) = s.names → (∀ kv ∈ x0, 0 ≤ kv.2) →
      (0 < Eigen.norm2 (vecOf s x0) ∨ s.nodesVec.length = 0) →
      ∃ r, eigLoopG realScalar s weighted s.nodesVec.length tol fuel it x0 margin = .ok r ∧
        ∀ x, r.value = some x → GoodAnswer s weighted tol x := by
  have hn := nodesP_of s (wf_parts' s h).1
  intro fuel
  induction fuel with
  | zero =>
    intro it x0 margin _ _ _
    exact ⟨⟨none, it, margin⟩, rfl, fun x hx => by simp at hx⟩
  | succ fuel ih =>
    intro it x0 margin hk hpos hnz
    obtain ⟨x1, h1, h2, h3⟩ := C18_model_step_nonneg s h hm weighted hw x0 hk hpos
    unfold eigLoopG
    simp only [h1]
    have hcdef : realScalar.lt (eigDeltaG realScalar x0 x1) (realScalar.mul (realScalar.ofNat s.nodesVec.length) tol)
        = eigConvergedG realScalar s.nodesVec.length tol x0 x1 := rfl
    rw [hcdef]
    by_cases hc : eigConvergedG realScalar s.nodesVec.length tol x0 x1 = true
    · rw [if_pos hc]
      refine ⟨_, rfl, ?_⟩
      intro x hx
      simp only [Option.some.injEq] at hx
      subst hx
      rcases hnz with hnz | hn0
      · obtain ⟨y, g1, _, g3, _⟩ := C18_model_step_unit_norm s h hm weighted hw x0 hk hpos hnz
        rw [h1] at g1; cases g1
        exact ⟨h2, h3, g3, C18_model_next_step_bound s h hm weighted hw x0 hk hpos hnz tol x1 h1 hc⟩
      · exfalso
        have := (eigConverged_real s hn.namesNodup tol x0 x1 h2).1 hc
        have hz : Eigen.norm1 (fun i => vecOf s x1 i - vecOf s x0 i) = 0 := by
          unfold Eigen.norm1
          apply Finset.sum_eq_zero
          intro i _
          exact absurd i.2 (by omega)
        rw [hz, hn0] at this
        simp at this
    · rw [if_neg hc]
      apply ih _ _ _ h2 h3
      rcases hnz with hnz | hn0
      · obtain ⟨y, g1, _, g3, _⟩ := C18_model_step_unit_norm s h hm weighted hw x0 hk hpos hnz
        rw [h1] at g1; cases g1
        left; rw [g3]; exact one_pos
      · exact .inr hn0

/-- the initial vector: every node name bound to the same constant, in `nodesVec` order -/
theorem init_vector (c : ℝ) (l : List Node) :
    ∀ acc : List (Nat × ℝ), (l.map (·.name)).Nodup → (∀ nd ∈ l, nd.name ∉ acc.map (·.1)) →
      ((l.foldl (fun m nd => ainsert m nd.name c) acc).map (·.1) = acc.map (·.1) ++ l.map (·.name) ∧
       ∀ kv ∈ l.foldl (fun m nd => ainsert m nd.name c) acc, kv ∈ acc ∨ kv.2 = c) := by
  induction l with
  | nil => intro acc _ _; exact ⟨by simp, fun kv hkv => .inl hkv⟩
  | cons nd l ih =>
    intro acc hnd hdis
    simp only [List.map_cons, List.nodup_cons] at hnd
    have hnot := hdis nd List.mem_cons_self
    have hkeys : (ainsert acc nd.name c).map (·.1) = acc.map (·.1) ++ [nd.name] := by
      rw [keys_ainsert, if_neg hnot]
    obtain ⟨g1, g2⟩ := ih (ainsert acc nd.name c) hnd.2 (by
      intro nd' hnd'
      rw [hkeys, List.mem_append, List.mem_singleton]
      rintro (hc | hc)
      · exact hdis nd' (List.mem_cons_of_mem _ hnd') hc
      · exact hnd.1 (hc ▸ List.mem_map_of_mem hnd'))
    constructor
    · rw [List.foldl_cons, g1, hkeys]
      simp
    · intro kv hkv
      rw [List.foldl_cons] at hkv
      rcases g2 kv hkv with hh | hh
      · rcases mem_ainsert _ _ _ _ hh with hh | hh
        · exact .inl hh
        · exact .inr (by rw [hh])
      · exact .inr hh

/-- **`eigenvector_centrality` of the model, at `ℝ`**: on a well-formed single-edge store with non-negative weights it
    never panics and returns no `Error` other than the non-convergence report (`value = none`); an `Ok(x)` answer
    (`value = some x`) is non-negative, has unit Euclidean norm, and is moved by at most `2·‖M‖_F·n·tol` by one more step -/
theorem C18_model_eigenvector (s : Store) (h : s.wf = true) (hm : s.specs.multi = false) (weighted : Bool)
    (hw : NonnegWeights s weighted) (maxIter : Nat) (tol margin0 : ℝ) :
    ∃ r, s.eigenvectorG realScalar weighted maxIter tol margin0 = .ok r ∧
      ∀ x, r.value = some x → GoodAnswer s weighted tol x := by
  have hn := nodesP_of s (wf_parts' s h).1
  unfold Store.eigenvectorG
  simp only [Store.ensureNotMulti, hm, Bool.false_eq_true, if_false, bind, Outcome.bind, Store.getAllNodes]
  obtain ⟨g1, g2⟩ := init_vector (realScalar.div realScalar.one (realScalar.ofNat s.nodesVec.length)) s.nodesVec []
    hn.namesNodup (by simp)
  simp only [List.map_nil, List.nil_append, List.not_mem_nil, false_or] at g1 g2
  have hc : realScalar.div realScalar.one (realScalar.ofNat s.nodesVec.length) = 1 / (s.nodesVec.length : ℝ) := rfl
  apply C18_model_loop s h hm weighted hw tol maxIter 0 _ margin0 g1
  · intro kv hkv
    rw [g2 kv hkv, hc]
    positivity
  · by_cases hn0 : s.nodesVec.length = 0
    · exact .inr hn0
    · left
      have hpos : 0 < s.nodesVec.length := Nat.pos_of_ne_zero hn0
      have hv : ∀ i, vecOf s (s.nodesVec.foldl (fun m nd => ainsert m nd.name
          (realScalar.div realScalar.one (realScalar.ofNat s.nodesVec.length))) []) i = 1 / (s.nodesVec.length : ℝ) := by
        intro i
        unfold vecOf
        cases hl : alookup (s.nodesVec.foldl (fun m nd => ainsert m nd.name
          (realScalar.div realScalar.one (realScalar.ofNat s.nodesVec.length))) []) (nameAt s i) with
        | none =>
          exfalso
          have := (alookup_none _ _).1 hl
          rw [g1] at this
          exact this (List.mem_map_of_mem (List.getElem_mem i.2))
        | some v =>
          have := g2 _ (alookup_mem _ _ _ hl)
          simp only at this
          rw [Option.getD_some, this, hc]
      unfold Eigen.norm2
      apply Real.sqrt_pos.2
      apply Finset.sum_pos
      · intro i _
        rw [hv i]
        have : (0 : ℝ) < s.nodesVec.length := by exact_mod_cast hpos
        positivity
      · exact ⟨⟨0, hpos⟩, Finset.mem_univ _⟩

/-! ## every reachable store -/

theorem run_specs (sp : Specs) (ops : List Op) : (Store.run sp ops).1.specs = sp := by
  unfold Store.run
  have : ∀ (acc : Store × List (Option ErrKind)),
      (ops.foldl (fun (acc : Store × List (Option ErrKind)) op =>
        let (s', r) := acc.1.step op
        (s', acc.2 ++ [r])) acc).1.specs = acc.1.specs := by
    induction ops with
    | nil => intro acc; rfl
    | cons op ops ih =>
      intro acc
      rw [List.foldl_cons, ih]
      exact C01_specs_unchanged acc.1 op
  exact this _

/-- **for every single-edge GraphSpecs record and every history of mutation calls**, the model's
    `eigenvector_centrality` at `ℝ` on the resulting graph never panics, and an `Ok` answer is a good answer -/
theorem C18_model_eigenvector_reachable (sp : Specs) (hm : sp.multi = false) (ops : List Op) (weighted : Bool)
    (hw : NonnegWeights (Store.run sp ops).1 weighted) (maxIter : Nat) (tol margin0 : ℝ) :
    ∃ r, (Store.run sp ops).1.eigenvectorG realScalar weighted maxIter tol margin0 = .ok r ∧
      ∀ x, r.value = some x → GoodAnswer (Store.run sp ops).1 weighted tol x :=
  C18_model_eigenvector _ (Core_reachable_wf sp ops) (by rw [run_specs]; exact hm) weighted hw maxIter tol margin0

/-- non-vacuity: an undirected weighted graph with a self-loop, names inserted out of sort order -/
example :
    let sp : Specs := ⟨false, false, true, .error, .create, .error⟩
    let s := (Store.run sp [Op.addEdge ⟨7, 3, some 2, none⟩, Op.addEdgeTuple 3 5, Op.addEdge ⟨5, 5, some 4, none⟩]).1
    ∃ r, s.eigenvectorG realScalar true 100 (1 / 1000000) 0 = .ok r ∧
      ∀ x, r.value = some x → GoodAnswer s true (1 / 1000000) x := by
  intro sp s
  apply C18_model_eigenvector_reachable sp rfl
  intro _ e he w hew
  have hedges : s.abs.edges = [⟨3, 7, some 2, none⟩, ⟨3, 5, none, none⟩, ⟨5, 5, some 4, none⟩] := by decide +kernel
  rw [hedges] at he
  simp only [List.mem_cons, List.not_mem_nil, or_false] at he
  rcases he with rfl | rfl | rfl <;> simp at hew <;> omega

/-! ## the instance the driver executes is the same code -/

/-- (definitional) the `Float` step / loop / entry point run against the implementation by the driver are the generic
    definitions at `floatScalar`: the very definitions the theorems above instantiate at `realScalar` -/
theorem C18_model_float_is_generic (s : Store) (weighted : Bool) (maxIter : Nat) (tol : Float) (x : List (Nat × Float)) :
    s.eigStep weighted x = s.eigStepG floatScalar weighted x ∧
    s.eigenvector weighted maxIter tol = s.eigenvectorG floatScalar weighted maxIter tol (1.0 / 0.0) :=
  ⟨rfl, rfl⟩

end Graphrs
