/-
  C17 — a seed makes Louvain reproducible: the only place where the iteration order of a hash
  map could influence the result is the candidate scan of `update_best_com`.  After the repair the
  candidates are visited in increasing community id, so the outcome is independent of the order
  in which the map hands them over; before the repair it was not (counterexample below).
-/
import GraphrsModel.Model.Louvain
import Mathlib.Data.List.Perm.Basic
import Mathlib.Data.List.Sort
namespace Graphrs
open Louvain

private theorem insertSorted_perm {α} (le : α → α → Bool) (x : α) (l : List α) :
    (insertSorted le x l).Perm (x :: l) := by
  induction l with
  | nil => exact List.Perm.refl _
  | cons y ys ih =>
    unfold insertSorted
    by_cases h : le x y = true
    · simp [h]
    · simp only [h]
      exact (List.Perm.cons y ih).trans (List.Perm.swap x y ys)

private theorem isort_perm {α} (le : α → α → Bool) (l : List α) : (isort le l).Perm l := by
  induction l with
  | nil => exact List.Perm.refl _
  | cons x xs ih =>
    show (insertSorted le x (isort le xs)).Perm (x :: xs)
    exact (insertSorted_perm le x _).trans (List.Perm.cons x ih)

private theorem insertSorted_pairwise {α} (le : α → α → Bool)
    (htotal : ∀ a b, le a b = true ∨ le b a = true)
    (htrans : ∀ a b c, le a b = true → le b c = true → le a c = true)
    (x : α) (l : List α) (hl : l.Pairwise (fun a b => le a b = true)) :
    (insertSorted le x l).Pairwise (fun a b => le a b = true) := by
  induction l with
  | nil => simp [insertSorted]
  | cons y ys ih =>
    unfold insertSorted
    rw [List.pairwise_cons] at hl
    by_cases h : le x y = true
    · rw [if_pos h, List.pairwise_cons]
      refine ⟨?_, List.pairwise_cons.mpr hl⟩
      intro z hz
      rcases List.mem_cons.mp hz with rfl | hz
      · exact h
      · exact htrans _ _ _ h (hl.1 z hz)
    · rw [if_neg h, List.pairwise_cons]
      refine ⟨?_, ih hl.2⟩
      intro z hz
      have hz' := (insertSorted_perm le x ys).subset hz
      rcases List.mem_cons.mp hz' with rfl | hz'
      · rcases htotal z y with h' | h'
        · exact absurd h' h
        · exact h'
      · exact hl.1 z hz'

private theorem isort_pairwise {α} (le : α → α → Bool)
    (htotal : ∀ a b, le a b = true ∨ le b a = true)
    (htrans : ∀ a b c, le a b = true → le b c = true → le a c = true)
    (l : List α) : (isort le l).Pairwise (fun a b => le a b = true) := by
  induction l with
  | nil => exact List.Pairwise.nil
  | cons x xs ih =>
    show (insertSorted le x (isort le xs)).Pairwise _
    exact insertSorted_pairwise le htotal htrans x _ ih

private theorem eq_of_key_eq {α β} (f : α → β) (l : List α) (h : (l.map f).Nodup)
    (a b : α) (ha : a ∈ l) (hb : b ∈ l) (hab : f a = f b) : a = b := by
  induction l with
  | nil => cases ha
  | cons y ys ih =>
    rw [List.map_cons, List.nodup_cons] at h
    rcases List.mem_cons.mp ha with ha1 | ha1
    · rcases List.mem_cons.mp hb with hb1 | hb1
      · rw [ha1, hb1]
      · subst ha1
        exact absurd (hab ▸ List.mem_map_of_mem hb1) h.1
    · rcases List.mem_cons.mp hb with hb1 | hb1
      · subst hb1
        exact absurd (hab ▸ List.mem_map_of_mem ha1) h.1
      · exact ih h.2 ha1 hb1

/-- sorting by the key gives the same list for every iteration order of a map -/
theorem isort_key_perm_eq (l1 l2 : List (Nat × Rat)) (hperm : l1.Perm l2)
    (hkeys : (l1.map (·.1)).Nodup) :
    isort (fun a b => decide (a.1 ≤ b.1)) l1 = isort (fun a b => decide (a.1 ≤ b.1)) l2 := by
  have htotal : ∀ a b : Nat × Rat, (fun a b : Nat × Rat => decide (a.1 ≤ b.1)) a b = true ∨
      (fun a b : Nat × Rat => decide (a.1 ≤ b.1)) b a = true := by
    intro a b; simp only [decide_eq_true_eq]; omega
  have htrans : ∀ a b c : Nat × Rat, (fun a b : Nat × Rat => decide (a.1 ≤ b.1)) a b = true →
      (fun a b : Nat × Rat => decide (a.1 ≤ b.1)) b c = true →
      (fun a b : Nat × Rat => decide (a.1 ≤ b.1)) a c = true := by
    intro a b c; simp only [decide_eq_true_eq]; omega
  have p1 := isort_perm (fun a b : Nat × Rat => decide (a.1 ≤ b.1)) l1
  have p2 := isort_perm (fun a b : Nat × Rat => decide (a.1 ≤ b.1)) l2
  refine List.Perm.eq_of_pairwise (le := fun a b : Nat × Rat => decide (a.1 ≤ b.1) = true) ?_
    (isort_pairwise _ htotal htrans l1) (isort_pairwise _ htotal htrans l2)
    (p1.trans (hperm.trans p2.symm))
  intro a b ha hb hab hba
  simp only [decide_eq_true_eq] at hab hba
  exact eq_of_key_eq (·.1) l1 hkeys a b (p1.subset ha) (hperm.symm.subset (p2.subset hb))
    (Nat.le_antisymm hab hba)

/-- the repaired scan does not depend on the iteration order of the candidate map
    (keys of a map are pairwise distinct) -/
theorem C17_updateBest_order_independent (gain : Nat → Rat → Rat) (l1 l2 : List (Nat × Rat))
    (best : Nat × Rat) (hperm : l1.Perm l2) (hkeys : (l1.map (·.1)).Nodup) :
    updateBest gain l1 best = updateBest gain l2 best := by
  unfold updateBest
  rw [isort_key_perm_eq l1 l2 hperm hkeys]

/-- the scan before the repair did depend on it: two candidates with equal gains -/
theorem C17_unordered_scan_depends_on_order :
    updateBestUnordered (fun _ w => w) [(1, 1), (2, 1)] (0, 0)
      ≠ updateBestUnordered (fun _ w => w) [(2, 1), (1, 1)] (0, 0) := by
  decide

/-- non-vacuity of the first theorem on the same candidates -/
example : updateBest (fun _ w => w) [(1, 1), (2, 1)] (0, 0) = updateBest (fun _ w => w) [(2, 1), (1, 1)] (0, 0) := by
  decide

end Graphrs
