/-
  C14 put together at model level: reading back what the writer emits for a well-formed store (string names, no
  attributes: the reader returns `Graph<String, ()>`) succeeds and yields a well-formed store of the same abstract graph -
  same nodes in the same order, same directedness, and per pair of endpoints the same stored edges with the same weights
  in the same order.
-/
import GraphrsModel.Props.Core
import GraphrsModel.Props.C14
namespace Graphrs
open Xml

private theorem newFrom_specs (sp : Specs) (ns : List Node) (es : List Edge) (t : Store)
    (h : Store.newFrom sp ns es = .ok t) : t.specs = sp := by
  have sp1 : ((Store.new sp).addNodes ns).specs = sp := C01_specs_unchanged (Store.new sp) (.addNodes ns)
  have sp2 : (((Store.new sp).addNodes ns).addEdges es).1.specs = ((Store.new sp).addNodes ns).specs :=
    C01_specs_unchanged ((Store.new sp).addNodes ns) (.addEdges es)
  unfold Store.newFrom at h
  cases hr : ((Store.new sp).addNodes ns).addEdges es with
  | mk s' r =>
    rw [hr] at h sp2
    cases r with
    | none => simp at h; subst h; simpa [sp1] using sp2
    | some k => simp at h

theorem C14_roundtrip_abs (s : Store) (h : s.wf = true)
    (hn : ∀ n ∈ s.nodesVec, n.attr = none) (he : ∀ e ∈ s.allEdges, e.attr = none) :
    ∃ t, readEvents s.specs (writeEvents s) = .ok t ∧ t.wf = true ∧ t.specs.directed = s.specs.directed ∧
      AbsEq t.abs s.abs := by
  have hns : s.nodesVec.map (fun n => (⟨n.name, none⟩ : Node)) = s.nodesVec := by
    conv => rhs; rw [← List.map_id s.nodesVec]
    apply List.map_congr_left
    intro n hnm
    have := hn n hnm
    cases n; simp_all
  have hes : s.allEdges.map (fun e => (⟨e.u, e.v, e.w, none⟩ : Edge)) = s.allEdges := by
    conv => rhs; rw [← List.map_id s.allEdges]
    apply List.map_congr_left
    intro e hem
    have := he e hem
    cases e; simp_all
  obtain ⟨t, ht, hwf, habs⟩ := Core_rebuild s h
  refine ⟨t, ?_, hwf, ?_, habs⟩
  · rw [C14_roundtrip_is_rebuild, hns, hes]; exact ht
  · rw [newFrom_specs s.specs s.nodesVec s.allEdges t ht]

end Graphrs
