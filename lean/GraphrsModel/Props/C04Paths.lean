/-
  C04 / C08 at model level, the path lists: with strictly positive costs and `first_only = false` the model of `dijkstra`
  returns, for every reported node, *exactly the set of all shortest paths, each once*; with `first_only = true` exactly one
  of them; a target restricts the answer without changing it.
  (Distances, cutoff and validity of every returned path: Props/C04Model.lean.)

  CORRECTION: "each once" (`Nodup`) is false on a store whose traversal list carries two parallel entries `v → u` of
  equal minimal cost (`C04_dijkstra_model_all_paths_counterexample`): the tie branch `vu_dist == seen[u]` appends the
  paths through `v` once per copy. `C04_dijkstra_model_all_paths_corrected` adds exactly that hypothesis; the membership
  half holds as stated (`C04_dijkstra_model_all_paths_set`); stores built through the mutation API satisfy the
  hypothesis (Props/C04PathsReach.lean).
-/
import GraphrsModel.Props.C04Model
import GraphrsModel.Lemmas.DijkstraSim
import GraphrsModel.Lemmas.DijkstraComplete
import GraphrsModel.Lemmas.DijkstraUnique
import GraphrsModel.Lemmas.DijkstraExact
namespace Graphrs

/-- `p` is a shortest path from `src` to `t`: a node sequence along arcs whose cost (cheapest parallel arc at every
    step) is the shortest distance -/
def IsShortestPath (A : Arcs) (src t : Nat) (p : List Nat) : Prop :=
  p.head? = some src ∧ p.getLast? = some t ∧ ∃ d, Arcs.walkCost A p = some d ∧ IsDist A src t d

/-- a successful run of `Store.dijkstra` is a successful run of the loop from the initial state -/
theorem dijkstra_ok_loop {s : Store} {weighted : Bool} {source : Nat} {target : Option Nat} {cutoff2 : Option Int}
    {firstOnly withPaths : Bool} {out : List (Nat × SPInfo)}
    (h : s.dijkstra weighted source target cutoff2 firstOnly withPaths = .ok out) :
    source < s.nodesVec.length ∧ ∃ st, dijkstraLoop (fun v => s.succVec[v]?.getD []) weighted target cutoff2 firstOnly withPaths
      (s.totalAdj + 2)
      { dist := List.replicate s.numberOfNodes none, seen := (List.replicate s.numberOfNodes none).set source (some 0),
        fringe := [(0, 0, source)], count := 0,
        paths := if withPaths then (List.replicate s.numberOfNodes []).set source [[source]] else [] } = .ok st ∧
      out = spInfos st.dist st.paths withPaths := by
  unfold Store.dijkstra at h
  by_cases hs : source ≥ s.numberOfNodes
  · simp only [hs, if_true] at h; cases h
  · simp only [hs, if_false] at h
    refine ⟨by have : s.numberOfNodes = s.nodesVec.length := rfl; omega, ?_⟩
    split at h
    · cases h
    · rename_i st hst
      simp only [Outcome.ok.injEq] at h
      exact ⟨st, hst, h.symm⟩

theorem dijkstra_ok_inv {s : Store} {weighted : Bool} {source : Nat} {target : Option Nat} {cutoff2 : Option Int}
    {firstOnly withPaths : Bool} {out : List (Nat × SPInfo)}
    (h : s.dijkstra weighted source target cutoff2 firstOnly withPaths = .ok out) :
    ∃ st : DState, out = spInfos st.dist st.paths withPaths := by
  obtain ⟨_, st, _, e⟩ := dijkstra_ok_loop h
  exact ⟨st, e⟩

theorem spInfos_keys_sublist (paths : List (List (List Nat))) (wp : Bool) (l : List (Option Int × Nat)) :
    ((l.filterMap fun p =>
      match p.1 with
      | none => none
      | some d => some (p.2, (⟨d, if wp then paths[p.2]?.getD [] else []⟩ : SPInfo))).map (·.1)).Sublist (l.map (·.2)) := by
  induction l with
  | nil => simp
  | cons a l ih =>
    obtain ⟨o, i⟩ := a
    cases o with
    | none => simp only [List.filterMap_cons, List.map_cons]; exact ih.cons _
    | some d => simp only [List.filterMap_cons, List.map_cons]; exact ih.cons_cons _

theorem spInfos_keys_nodup (dist : List (Option Int)) (paths : List (List (List Nat))) (wp : Bool) :
    ((spInfos dist paths wp).map (·.1)).Nodup := by
  unfold spInfos
  refine (spInfos_keys_sublist paths wp dist.zipIdx).nodup ?_
  have : dist.zipIdx.map (·.2) = List.range' 0 dist.length := List.zipIdx_map_snd 0 dist
  rw [this]
  exact List.nodup_range' 1

theorem spInfos_without (dist : List (Option Int)) (p q : List (List (List Nat))) :
    spInfos dist p false = (spInfos dist q true).map (fun p => (p.1, ({ p.2 with paths := [] } : SPInfo))) := by
  unfold spInfos
  rw [List.map_filterMap]
  congr 1
  funext x
  cases x.1 <;> simp

/-- the final state of the run without target and cutoff, `first_only = false`, `with_paths = true`, strictly positive costs -/
theorem dijkstra_run_all (s : Store) (weighted : Bool) (source : Nat)
    (hwf : s.vecWf) (hsrc : source < s.nodesVec.length) (hpos : ∀ a ∈ s.idxArcs weighted, 0 < a.2.2)
    (out : List (Nat × SPInfo)) (h : s.dijkstra weighted source none none false true = .ok out) :
    ∃ st : DState, out = spInfos st.dist st.paths true ∧
      dijkstraLoop (fun v => s.succVec[v]?.getD []) weighted none none false true (s.totalAdj + 2)
        { dist := List.replicate s.numberOfNodes none, seen := (List.replicate s.numberOfNodes none).set source (some 0),
          fringe := [(0, 0, source)], count := 0,
          paths := (List.replicate s.numberOfNodes []).set source [[source]] } = .ok st ∧
      Inv (s.idxArcs weighted) source s.nodesVec.length none [] st.dist st.seen [] ∧
      PInvB (s.idxArcs weighted) source st.seen st.paths ∧
      CInvB (s.idxArcs weighted) source s.nodesVec.length st.dist st.seen st.paths := by
  have hnn : ∀ a ∈ s.idxArcs weighted, 0 ≤ a.2.2 := fun a ha => Int.le_of_lt (hpos a ha)
  have hA : ArcsWf (s.idxArcs weighted) s.numberOfNodes := idxArcs_wf s weighted hwf hnn
  obtain ⟨_, st, hl, e⟩ := dijkstra_ok_loop h
  simp only [if_true] at hl
  have I0 := Inv.init (s.idxArcs weighted) source s.numberOfNodes none hsrc
  obtain ⟨st', pend, e', I, hfin⟩ := dijkstraLoop_inv (src := source) (cut := none) (firstOnly := false)
    (withPaths := true) (target := none) s.succVec hA (idxArcs_rowsOk s weighted) (s.totalAdj + 2)
    { dist := List.replicate s.numberOfNodes none, seen := (List.replicate s.numberOfNodes none).set source (some 0),
      fringe := [(0, 0, source)], count := 0,
      paths := (List.replicate s.numberOfNodes []).set source [[source]] } I0
    (by simp only [pendFrom_replicate, Store.totalAdj, List.length_cons, List.length_nil]; omega)
  rw [hl] at e'
  cases e'
  obtain ⟨e1, e2⟩ := hfin rfl
  subst e1
  rw [e2] at I
  refine ⟨st, e, hl, I, ?_, ?_⟩
  · exact dijkstraLoop_paths s.succVec hA (idxArcs_rowsOk s weighted) _ _ _ I0 (PInvB.init _ _ _) hl
  · exact dijkstraLoop_complete s.succVec hA hpos (idxArcs_rowsOk s weighted) _ _ _ I0
      (CInvB.init _ _ _ hsrc _) hl

/-- **the set of returned paths is exactly the set of all shortest paths** (strictly positive costs, no target, no
    cutoff, `first_only = false`) - on every store with well-formed traversal lists, multigraph rows included -/
theorem C04_dijkstra_model_all_paths_set (s : Store) (weighted : Bool) (source : Nat)
    (hwf : s.vecWf) (hsrc : source < s.nodesVec.length) (hpos : ∀ a ∈ s.idxArcs weighted, 0 < a.2.2)
    (out : List (Nat × SPInfo)) (h : s.dijkstra weighted source none none false true = .ok out) :
    ∀ t i, (t, i) ∈ out → ∀ p, p ∈ i.paths ↔ IsShortestPath (s.idxArcs weighted) source t p := by
  intro t i hm p
  have hnn : ∀ a ∈ s.idxArcs weighted, 0 ≤ a.2.2 := fun a ha => Int.le_of_lt (hpos a ha)
  have hA : ArcsWf (s.idxArcs weighted) s.nodesVec.length := idxArcs_wf s weighted hwf hnn
  obtain ⟨st, e, _, I, P, C⟩ := dijkstra_run_all s weighted source hwf hsrc hpos out h
  subst e
  obtain ⟨d, hd, hi⟩ := (mem_spInfos ..).1 hm
  subst hi
  simp only [if_true]
  constructor
  · intro hp
    obtain ⟨k, hk, h1, h2, h3⟩ := P t p hp
    have := I.distSeen t d hd
    rw [hk] at this; cases this
    exact ⟨h1, h2, d, h3, ((I.final_exact hA rfl t d).1 hd).1⟩
  · rintro ⟨h1, h2, d', h3, h4⟩
    exact complete_final hA I C p.length p rfl t d' h1 h2 h3 h4

/-- every row of the traversal lists is a sub-multiset of the arcs -/
theorem idxArcs_row_count (s : Store) (weighted : Bool) (v : Nat) (x : Nat × Nat × Int) :
    (rowArcs weighted v (s.succVec[v]?.getD [])).count x ≤ (s.idxArcs weighted).count x := by
  cases hr : s.succVec[v]? with
  | none => simp [rowArcs]
  | some row =>
    simp only [Option.getD_some]
    apply List.Sublist.count_le
    rw [idxArcs_eq, List.flatMap_def]
    apply List.sublist_flatten_of_mem
    rw [List.mem_map]
    exact ⟨(row, v), List.mem_zipIdx_iff_getElem?.2 hr, rfl⟩

/- ORIGINAL STATEMENT (FALSE on stores whose traversal lists carry two parallel entries `v → u` of equal minimal cost:
   `relaxFull` - like the Rust loop `for adj in graph.get_successor_nodes_by_index(&v)` - treats the second copy as a tie
   `vu_dist == seen[u]` and appends the paths through `v` a second time):

-- **all shortest paths, each once** (strictly positive costs, no target, no cutoff, `first_only = false`)
(original statement) C04_dijkstra_model_all_paths (s : Store) (weighted : Bool) (source : Nat)
    (hwf : s.vecWf) (hsrc : source < s.nodesVec.length) (hpos : ∀ a ∈ s.idxArcs weighted, 0 < a.2.2)
    (out : List (Nat × SPInfo)) (h : s.dijkstra weighted source none none false true = .ok out) :
    ∀ t i, (t, i) ∈ out → i.paths.Nodup ∧ ∀ p, p ∈ i.paths ↔ IsShortestPath (s.idxArcs weighted) source t p

   Counterexample (machine-checked below, `C04_dijkstra_model_all_paths_counterexample`): two nodes, the row of node 0
   is `[(1, 1), (1, 1)]`; the model returns the path `[0, 1]` twice for node 1.
   Such a row is not reachable through `add_edge` (on a multigraph `add_to_adjacency_vec` keeps one entry per
   neighbour, `AdjUpd.keepMin`; see `C04_dijkstra_model_all_paths_rows`), so this is a missing hypothesis of the
   statement, not a defect of the library on graphs built through its API. The membership half holds as stated
   (`C04_dijkstra_model_all_paths_set`); `Nodup` needs: no two parallel arcs `v → u`, `v ≠ u`, of equal *minimal* cost. -/

/-- the counterexample to the original `Nodup` claim: a store (not reachable through the mutation API) whose row of
    node 0 lists node 1 twice with the same cost -/
theorem C04_dijkstra_model_all_paths_counterexample :
    let s : Store := { specs := ⟨true, true, false, .keepFirst, .create, .error⟩,
                       nodesVec := [⟨0, none⟩, ⟨1, none⟩], succVec := [[(1, some 1), (1, some 1)], []] }
    s.vecWf ∧ 0 < s.nodesVec.length ∧ (∀ a ∈ s.idxArcs true, 0 < a.2.2) ∧
    (s.dijkstra true 0 none none false true).toOption = some [(0, ⟨0, [[0]]⟩), (1, ⟨1, [[0, 1], [0, 1]]⟩)] ∧
    ¬ ([[0, 1], [0, 1]] : List (List Nat)).Nodup := by
  intro s
  refine ⟨?_, ?_, ?_, ?_, ?_⟩
  · unfold Store.vecWf; decide
  · decide
  · decide
  · decide
  · decide

/-- **all shortest paths, each once** (strictly positive costs, no target, no cutoff, `first_only = false`;
    corrected: no two parallel arcs `v → u`, `v ≠ u`, share the minimal cost) -/
theorem C04_dijkstra_model_all_paths_corrected (s : Store) (weighted : Bool) (source : Nat)
    (hwf : s.vecWf) (hsrc : source < s.nodesVec.length) (hpos : ∀ a ∈ s.idxArcs weighted, 0 < a.2.2)
    (hpar : ∀ v u m, v ≠ u → minArc (s.idxArcs weighted) v u = some m → (s.idxArcs weighted).count (v, u, m) ≤ 1)
    (out : List (Nat × SPInfo)) (h : s.dijkstra weighted source none none false true = .ok out) :
    ∀ t i, (t, i) ∈ out → i.paths.Nodup ∧ ∀ p, p ∈ i.paths ↔ IsShortestPath (s.idxArcs weighted) source t p := by
  intro t i hm
  refine ⟨?_, C04_dijkstra_model_all_paths_set s weighted source hwf hsrc hpos out h t i hm⟩
  have hnn : ∀ a ∈ s.idxArcs weighted, 0 ≤ a.2.2 := fun a ha => Int.le_of_lt (hpos a ha)
  have hA : ArcsWf (s.idxArcs weighted) s.nodesVec.length := idxArcs_wf s weighted hwf hnn
  obtain ⟨st, e, hl, I, P, C⟩ := dijkstra_run_all s weighted source hwf hsrc hpos out h
  have U := dijkstraLoop_unique s.succVec hA hpos hpar (idxArcs_rowsOk s weighted) (idxArcs_row_count s weighted) _ _ _
    (Inv.init (s.idxArcs weighted) source s.numberOfNodes none hsrc) (PInvB.init _ _ _) (UInvB.init _ _ _ _ _) hl
  subst e
  obtain ⟨d, hd, hi⟩ := (mem_spInfos ..).1 hm
  subst hi
  simp only [if_true]
  exact (U.good t).1

/-- **`first_only = true` returns exactly one path, and it is one of the shortest paths** (non-negative costs suffice) -/
theorem C04_dijkstra_model_first_only (s : Store) (weighted : Bool) (source : Nat) (target : Option Nat) (cutoff2 : Option Int)
    (hwf : s.vecWf) (hsrc : source < s.nodesVec.length) (hnn : ∀ a ∈ s.idxArcs weighted, 0 ≤ a.2.2)
    (out : List (Nat × SPInfo)) (h : s.dijkstra weighted source target cutoff2 true true = .ok out) :
    ∀ t i, (t, i) ∈ out → ∃ p, i.paths = [p] ∧ IsShortestPath (s.idxArcs weighted) source t p := by
  intro t i hm
  have hA : ArcsWf (s.idxArcs weighted) s.numberOfNodes := idxArcs_wf s weighted hwf hnn
  obtain ⟨_, st, hl, e⟩ := dijkstra_ok_loop h
  simp only [if_true] at hl
  have I0 := Inv.init (s.idxArcs weighted) source s.numberOfNodes cutoff2 hsrc
  obtain ⟨st', pend, e', I, _⟩ := dijkstraLoop_inv (src := source) (cut := cutoff2) (firstOnly := true)
    (withPaths := true) (target := target) s.succVec hA (idxArcs_rowsOk s weighted) (s.totalAdj + 2)
    { dist := List.replicate s.numberOfNodes none, seen := (List.replicate s.numberOfNodes none).set source (some 0),
      fringe := [(0, 0, source)], count := 0,
      paths := (List.replicate s.numberOfNodes []).set source [[source]] } I0
    (by simp only [pendFrom_replicate, Store.totalAdj, List.length_cons, List.length_nil]; omega)
  rw [hl] at e'
  cases e'
  have P := dijkstraLoop_paths s.succVec hA (idxArcs_rowsOk s weighted) _ _ _ I0 (PInvB.init _ _ _) hl
  have E0 : EInv (s.idxArcs weighted) source cutoff2
      { dist := List.replicate s.numberOfNodes none, seen := (List.replicate s.numberOfNodes none).set source (some 0),
        fringe := [(0, 0, source)], count := 0,
        paths := (List.replicate s.numberOfNodes []).set source [[source]] } := by
    refine ⟨fun v d hd => ?_, fun _ e he => ?_⟩
    · simp only at hd; rw [lk_replicate_none] at hd; cases hd
    · simp at he; subst he; exact Int.le_refl 0
  have F0 : FInv s.numberOfNodes
      { dist := List.replicate s.numberOfNodes none, seen := (List.replicate s.numberOfNodes none).set source (some 0),
        fringe := [(0, 0, source)], count := 0,
        paths := (List.replicate s.numberOfNodes []).set source [[source]] } := by
    refine ⟨by simp, fun u k hk => ?_⟩
    simp only at hk ⊢
    by_cases e : source = u
    · subst e; exact ⟨[source], pth_set_self _ (by rw [List.length_replicate]; exact hsrc)⟩
    · rw [lk_set_ne _ _ _ _ e, lk_replicate_none] at hk; cases hk
  have E := dijkstraLoop_exact s.succVec hA (idxArcs_rowsOk s weighted) _ _ _ I0 E0 hl
  have F := dijkstraLoop_first s.succVec hA (idxArcs_rowsOk s weighted) _ _ _ I0 F0 hl
  subst e
  obtain ⟨d, hd, hi⟩ := (mem_spInfos ..).1 hm
  subst hi
  simp only [if_true]
  have hs := I.distSeen t d hd
  obtain ⟨p, hp⟩ := F.2 t d hs
  refine ⟨p, hp, ?_⟩
  obtain ⟨k, hk, h1, h2, h3⟩ := P t p (by rw [show st.paths[t]?.getD [] = pth st.paths t from rfl, hp]; simp)
  rw [hs] at hk; cases hk
  exact ⟨h1, h2, d, h3, E.1 t d hd⟩

/-- each node is reported at most once -/
theorem C04_dijkstra_model_keys_nodup (s : Store) (weighted : Bool) (source : Nat) (target : Option Nat) (cutoff2 : Option Int)
    (firstOnly withPaths : Bool) (out : List (Nat × SPInfo))
    (h : s.dijkstra weighted source target cutoff2 firstOnly withPaths = .ok out) : (out.map (·.1)).Nodup := by
  obtain ⟨st, e⟩ := dijkstra_ok_inv h
  subst e
  exact spInfos_keys_nodup _ _ _

set_option linter.unusedVariables false in
/-- **C08, target**: with a target (an index of a node) the target is reported iff it is reachable, with the same entry
    - same distance, same path list - as in the unrestricted answer; and everything else that is reported is reported
    unchanged. (Strictly positive costs: with zero-cost arcs the early stop may leave a path list incomplete.) -/
theorem C08_dijkstra_model_target (s : Store) (weighted : Bool) (source tgt : Nat) (firstOnly withPaths : Bool)
    (hwf : s.vecWf) (hsrc : source < s.nodesVec.length) (htgt : tgt < s.nodesVec.length)
    (hpos : ∀ a ∈ s.idxArcs weighted, 0 < a.2.2)
    (full out : List (Nat × SPInfo))
    (hfull : s.dijkstra weighted source none none false withPaths = .ok full)
    (h : s.dijkstra weighted source (some tgt) none false withPaths = .ok out) :
    (∀ i, (tgt, i) ∈ out ↔ (tgt, i) ∈ full) ∧ (∀ t i, (t, i) ∈ out → ∃ j, (t, j) ∈ full ∧ j.dist = i.dist) := by
  obtain ⟨_, st2, h2, e2⟩ := dijkstra_ok_loop hfull
  obtain ⟨_, st1, h1, e1⟩ := dijkstra_ok_loop h
  have hadj : ∀ v : Nat, ∀ a ∈ (fun v : Nat => s.succVec[v]?.getD []) v, a.1 < s.numberOfNodes := by
    intro v a ha
    simp only at ha
    cases hr : s.succVec[v]? with
    | none => rw [hr] at ha; simp at ha
    | some row =>
      rw [hr] at ha
      exact hwf.2 row (List.mem_of_getElem? hr) a ha
  obtain ⟨F, hcase⟩ := dijkstraLoop_target_prefix _ weighted tgt none false withPaths s.numberOfNodes hadj _ _ st1 st2
    (by simp) (by intro e he; simp at he; subst he; exact hsrc) h1 h2
  subst e1 e2
  refine ⟨fun i => ⟨fun hm => ?_, fun hm => ?_⟩, fun t i hm => ?_⟩
  · obtain ⟨d, hd, hi⟩ := (mem_spInfos ..).1 hm
    obtain ⟨f1, f2⟩ := F tgt d hd
    exact (mem_spInfos ..).2 ⟨d, f1, by rw [hi, f2]⟩
  · rcases hcase with e | ⟨d, hd⟩
    · rw [e]; exact hm
    · obtain ⟨d', hd', hi⟩ := (mem_spInfos ..).1 hm
      obtain ⟨f1, f2⟩ := F tgt d hd
      rw [hd'] at f1
      cases f1
      exact (mem_spInfos ..).2 ⟨d, hd, by rw [hi, f2]⟩
  · obtain ⟨d, hd, hi⟩ := (mem_spInfos ..).1 hm
    obtain ⟨f1, f2⟩ := F t d hd
    exact ⟨_, (mem_spInfos ..).2 ⟨d, f1, rfl⟩, by rw [hi]⟩

set_option linter.unusedVariables false in
/-- **C08, with_paths**: `with_paths = false` changes nothing but leaves the path lists empty -/
theorem C08_dijkstra_model_without_paths (s : Store) (weighted : Bool) (source : Nat) (target : Option Nat) (cutoff2 : Option Int)
    (firstOnly : Bool) (hwf : s.vecWf) (hsrc : source < s.nodesVec.length) (hnn : ∀ a ∈ s.idxArcs weighted, 0 ≤ a.2.2)
    (a b : List (Nat × SPInfo))
    (ha : s.dijkstra weighted source target cutoff2 firstOnly true = .ok a)
    (hb : s.dijkstra weighted source target cutoff2 firstOnly false = .ok b) :
    b = a.map (fun p => (p.1, ({ p.2 with paths := [] } : SPInfo))) := by
  obtain ⟨_, stA, hA, eA⟩ := dijkstra_ok_loop ha
  obtain ⟨_, stB, hB, eB⟩ := dijkstra_ok_loop hb
  have h := dijkstraLoop_ctl (fun v => s.succVec[v]?.getD []) weighted target cutoff2 firstOnly (s.totalAdj + 2)
    { dist := List.replicate s.numberOfNodes none, seen := (List.replicate s.numberOfNodes none).set source (some 0),
      fringe := [(0, 0, source)], count := 0,
      paths := (List.replicate s.numberOfNodes []).set source [[source]] }
  simp only [if_true] at hA
  simp only [Bool.false_eq_true, if_false] at hB
  rw [hA] at h
  simp only [DState.ctl] at h
  rw [hB] at h
  simp only [Except.map, Except.ok.injEq] at h
  subst eA eB
  rw [h]
  exact spInfos_without _ _ _

/-- non-vacuity: two tied routes 1-2-4 / 1-3-4 and a heavier direct arc; the model returns both shortest paths -/
example :
    let sp : Specs := ⟨true, false, false, .keepFirst, .create, .error⟩
    let s := (Store.run sp [Op.addEdge ⟨1, 2, some 1, none⟩, Op.addEdge ⟨1, 3, some 1, none⟩, Op.addEdge ⟨2, 4, some 1, none⟩,
                            Op.addEdge ⟨3, 4, some 1, none⟩, Op.addEdge ⟨1, 4, some 5, none⟩]).1
    (match s.dijkstra true 0 none none false true with
     | .ok out => (out.filter (·.1 == 3)).map (fun p => (p.2.dist, p.2.paths)) == [(2, [[0, 2, 3], [0, 1, 3]])]
     | _ => false) = true := by
  decide

end Graphrs
