/-
  C06 (model level) — the model of `closeness_centrality` (reverse() on directed graphs, level-synchronous BFS or the
  Dijkstra stage of centrality/closeness.rs, `get_node_centrality`) equals the definition `ccSpec` on every store that
  satisfies the coupling invariant, for hop counts and for positive weights.
-/
import GraphrsModel.Props.Core
import GraphrsModel.Props.C04Model
import GraphrsModel.Props.C06
import GraphrsModel.Lemmas.C06Levels
import GraphrsModel.Lemmas.C06Dijkstra
import GraphrsModel.Lemmas.C06Closeness
import GraphrsModel.Lemmas.C06Weighted
namespace Graphrs

/-- unit-cost arcs of a traversal list -/
def unitArcs (adjOf : Nat → List Adj) (n : Nat) : Arcs :=
  (List.range n).flatMap fun v => (adjOf v).map fun a => (v, a.1, (1 : Int))

/-- weighted arcs of a traversal list (entries without a weight carry none) -/
def weightArcs (adjOf : Nat → List Adj) (n : Nat) : Arcs :=
  (List.range n).flatMap fun v => (adjOf v).filterMap fun a => a.2.map fun c => (v, a.1, c)

theorem mem_unitArcs (adjOf : Nat → List Adj) (n u x : Nat) (w : Int) :
    (u, x, w) ∈ unitArcs adjOf n ↔ (u < n ∧ w = 1 ∧ ∃ a ∈ adjOf u, a.1 = x) := by
  unfold unitArcs
  simp only [List.mem_flatMap, List.mem_range, List.mem_map, Prod.mk.injEq]
  constructor
  · rintro ⟨v, hv, a, ha, e1, e2, e3⟩
    subst e1
    exact ⟨hv, e3.symm, a, ha, e2⟩
  · rintro ⟨hu, hw, a, ha, e⟩
    exact ⟨u, hu, a, ha, rfl, e, hw.symm⟩

theorem mem_weightArcs (adjOf : Nat → List Adj) (n u x : Nat) (w : Int) :
    (u, x, w) ∈ weightArcs adjOf n ↔ (u < n ∧ (x, some w) ∈ adjOf u) := by
  unfold weightArcs
  simp only [List.mem_flatMap, List.mem_range, List.mem_filterMap, Option.map_eq_some_iff, Prod.mk.injEq]
  constructor
  · rintro ⟨v, hv, a, ha, c, hc, e1, e2, e3⟩
    subst e1 e2 e3
    refine ⟨hv, ?_⟩
    rw [← hc]; exact ha
  · rintro ⟨hu, ha⟩
    exact ⟨u, hu, (x, some w), ha, w, rfl, rfl, rfl, rfl⟩

theorem mem_rowArcs_true (v : Nat) (row : List Adj) (u x : Nat) (w : Int) :
    (u, x, w) ∈ rowArcs true v row ↔ (u = v ∧ (x, some w) ∈ row) := by
  unfold rowArcs
  simp only [if_true, List.mem_filterMap, Option.map_eq_some_iff, Prod.mk.injEq]
  constructor
  · rintro ⟨a, ha, c, hc, e1, e2, e3⟩
    subst e1 e2 e3
    refine ⟨rfl, ?_⟩
    rw [← hc]; exact ha
  · rintro ⟨hu, ha⟩
    exact ⟨(x, some w), ha, w, rfl, hu.symm, rfl, rfl⟩

/-- **the level-synchronous BFS of closeness.rs computes exactly the hop distances** -/
theorem C06_ccLevels_exact (adjOf : Nat → List Adj) (n source : Nat) (hsrc : source < n)
    (hidx : ∀ v, v < n → ∀ a ∈ adjOf v, a.1 < n) :
    let res := ccLevels adjOf n (n + 1) [source] [] 0 []
    (res.map (·.1)).Nodup ∧ ∀ v d, (v, d) ∈ res ↔ IsDist (unitArcs adjOf n) source v d :=
  C06L.ccLevels_exact (mem_unitArcs adjOf n) hidx hsrc

/-- **the Dijkstra stage of closeness.rs computes exactly the weighted distances** (positive weights, every entry weighted) -/
theorem C06_ccWeighted_exact (adjOf : Nat → List Adj) (n total source : Nat) (hsrc : source < n)
    (hidx : ∀ v, v < n → ∀ a ∈ adjOf v, a.1 < n)
    (hpos : ∀ v, v < n → ∀ a ∈ adjOf v, ∃ c, a.2 = some c ∧ 0 < c)
    (htotal : sumNat ((List.range n).map fun v => (adjOf v).length) ≤ total) :
    let res := ccWeighted adjOf n total source
    (res.map (·.1)).Nodup ∧ ∀ v d, (v, d) ∈ res ↔ IsDist (weightArcs adjOf n) source v d := by
  have hA : ArcsWf (weightArcs adjOf n) n := by
    intro a ha
    obtain ⟨u, x, w⟩ := a
    obtain ⟨hu, hm⟩ := (mem_weightArcs adjOf n u x w).1 ha
    obtain ⟨c, hc, hpos'⟩ := hpos u hu _ hm
    simp only [Option.some.injEq] at hc
    subst hc
    exact ⟨hidx u hu _ hm, by simp only; omega⟩
  refine C06D.ccWeighted_exact hA ?_ ?_ ?_ hsrc htotal
  · intro v x w h
    obtain ⟨_, hm⟩ := (mem_weightArcs adjOf n v x w).1 h
    exact (mem_rowArcs_true v _ v x w).2 ⟨rfl, hm⟩
  · intro v hv a ha
    obtain ⟨u, x, w⟩ := a
    obtain ⟨e, hm⟩ := (mem_rowArcs_true v _ u x w).1 ha
    subst e
    exact (mem_weightArcs adjOf n u x w).2 ⟨hv, hm⟩
  · intro v hv a ha
    obtain ⟨c, hc, _⟩ := hpos v hv a ha
    exact ⟨c, hc⟩

/-- **closeness of the model = the definition**, unweighted, on every well-formed store -/
theorem C06_model_eq_spec_unweighted (s : Store) (h : s.wf = true) (wfFlag : Bool) (m : List (Nat × Rat))
    (hm : s.closeness false wfFlag = .ok m) :
    ∀ u, alookup m u = alookup (ccSpec s.getAllNodeNames (s.abs.arcs s.specs.directed false) wfFlag) u := by
  refine C06C.closeness_generic s h false wfFlag m hm
    (fun g => unitArcs (fun v => g.succVec[v]?.getD []) g.numberOfNodes) (fun _ => True)
    (fun _ => trivial) (fun _ _ _ _ => trivial) ?_ ?_ ?_
  · intro g hg _
    exact C06T.store_sim_unit g hg _ (mem_unitArcs _ _)
  · intro g hg _ i hi
    have := C06_ccLevels_exact (fun v => g.succVec[v]?.getD []) g.numberOfNodes i hi
      (fun v _ a ha => C03_indexes_in_range g hg v a (Or.inl ha))
    simpa [C06C.spOf] using this
  · intro a ha
    obtain ⟨x, y, c⟩ := a
    rw [C06T.mem_abs_arcs] at ha
    obtain ⟨e, _, hc, _⟩ := ha
    simp only [Bool.false_eq_true, if_false, Option.some.injEq] at hc
    simp only
    omega

/-! ### weighted closeness

ORIGINAL STATEMENT (FALSE on some stores that satisfy `Store.wf` but are not reachable through the mutation API):

-- weighted, for positive weights
(original statement) C06_model_eq_spec_weighted (s : Store) (h : s.wf = true) (wfFlag : Bool) (m : List (Nat × Rat))
    (hpos : ∀ e ∈ s.allEdges, ∃ c, e.w = some c ∧ 0 < c)
    (hm : s.closeness true wfFlag = .ok m) :
    ∀ u, alookup m u = alookup (ccSpec s.getAllNodeNames (s.abs.arcs s.specs.directed true) wfFlag) u

The clause `vecOk` of the coupling invariant compares, per pair of nodes, the *minimum* weight listed in
`successors_vec` with the minimum stored weight, and the `f64` minimum ignores a NaN that is not in first position.  So
`wf` admits a row `[(1, 3.0), (1, NaN)]` next to the single stored edge of weight 3; the model of the Dijkstra stage
(`bcDijkstraLoop`, documented precondition "weights must not be NaN") reads the NaN entry as cost 0 (`adj.2.getD 0`)
and reports distance 0 instead of 3 (the Rust code would propagate the NaN instead; either way not the distance 3).
Such a row cannot be produced by `add_edge` (see `C06W.addEdge_allW`), so the defect is in the strength of `Store.wf`
as a hypothesis, not in the reachable behaviour.  The counterexample is machine-checked below; the corrected theorem
adds the hypothesis that every entry of `successors_vec` carries a weight - needed on undirected graphs only, since on
directed graphs the model runs on `reverse()`, a rebuilt graph, for which the property is proved
(`C06W.newFrom_allW`). -/

/-- the counterexample store: the undirected one-edge graph 1 - 2 (weight 3) with a NaN entry appended to row 0 -/
def C06_cex_store : Store :=
  { (Store.run ⟨false, false, false, .keepFirst, .create, .error⟩ [Op.addEdge ⟨1, 2, some 3, none⟩]).1 with
    succVec := [[(1, some 3), (1, none)], [(0, some 3)]] }

/-- the original statement fails on `C06_cex_store`: the model reports closeness 0 for node 1, the definition 1/3 -/
theorem C06_model_eq_spec_weighted_counterexample :
    C06_cex_store.wf = true ∧
    (∀ e ∈ C06_cex_store.allEdges, ∃ c, e.w = some c ∧ 0 < c) ∧
    C06_cex_store.closeness true false = .ok [(1, 0), (2, 1 / 3)] ∧
    alookup (ccSpec C06_cex_store.getAllNodeNames (C06_cex_store.abs.arcs C06_cex_store.specs.directed true) false) 1
      = some (1 / 3) ∧
    alookup [(1, (0 : Rat)), (2, 1 / 3)] 1 ≠ some (1 / 3) := by
  refine ⟨by decide +kernel, ?_, by decide +kernel, by decide +kernel, by decide +kernel⟩
  intro e he
  have : C06_cex_store.allEdges = [⟨1, 2, some 3, none⟩] := by decide +kernel
  rw [this] at he
  simp only [List.mem_singleton] at he
  subst he
  exact ⟨3, rfl, by decide⟩

theorem totalAdj_bound (g : Store) (hg : g.wf = true) :
    sumNat ((List.range g.numberOfNodes).map fun v => (g.succVec[v]?.getD []).length) ≤ g.totalAdj := by
  have hlen : g.succVec.length = g.numberOfNodes := by
    have := (C03.nodesOk_len g (C09M.wf_parts g hg).1).1
    rw [this, C03.names_length]; rfl
  have : ((List.range g.numberOfNodes).map fun v => (g.succVec[v]?.getD []).length) = g.succVec.map List.length := by
    apply List.ext_getElem?
    intro i
    by_cases hi : i < g.numberOfNodes
    · rw [List.getElem?_map, List.getElem?_range hi, List.getElem?_map]
      have hi' : i < g.succVec.length := by rw [hlen]; exact hi
      simp [hi']
    · rw [List.getElem?_eq_none (by simpa using hi), List.getElem?_eq_none (by simp [hlen]; omega)]
  rw [this, Store.totalAdj]

/-- **weighted closeness of the model = the definition** for positive weights (corrected: on undirected graphs every
    entry of `successors_vec` is required to carry a weight, which holds on every store built through the API from
    weighted edges; on directed graphs nothing is added) -/
theorem C06_model_eq_spec_weighted_corrected (s : Store) (h : s.wf = true) (wfFlag : Bool) (m : List (Nat × Rat))
    (hpos : ∀ e ∈ s.allEdges, ∃ c, e.w = some c ∧ 0 < c)
    (hent : s.specs.directed = false → ∀ row ∈ s.succVec, ∀ a ∈ row, ∃ c, a.2 = some c)
    (hm : s.closeness true wfFlag = .ok m) :
    ∀ u, alookup m u = alookup (ccSpec s.getAllNodeNames (s.abs.arcs s.specs.directed true) wfFlag) u := by
  refine C06C.closeness_generic s h true wfFlag m hm
    (fun g => weightArcs (fun v => g.succVec[v]?.getD []) g.numberOfNodes)
    (fun g => C06W.AllW g.succVec ∧ ∀ e ∈ g.allEdges, ∃ c, e.w = some c ∧ 0 < c)
    (fun hd => ⟨hent hd, hpos⟩) ?_ ?_ ?_ ?_
  · -- the rebuilt reversed graph
    intro hd t hrev _
    obtain ⟨t', hrev', _, _, hAbs⟩ := Core_reverse s h hd
    rw [hrev] at hrev'
    cases hrev'
    have hedges : ∀ e ∈ t.allEdges, ∃ c, e.w = some c ∧ 0 < c := by
      intro e he
      have hp := C09M.absEq_edges_perm hAbs
      have he' : e ∈ s.abs.reverse.edges := hp.mem_iff.1 he
      simp only [Abs.reverse, Store.abs, List.mem_map] at he'
      obtain ⟨e0, he0, e1⟩ := he'
      obtain ⟨c, hc, hc0⟩ := hpos e0 he0
      refine ⟨c, ?_, hc0⟩
      rw [← e1]; exact hc
    refine ⟨?_, hedges⟩
    unfold Store.reverse at hrev
    rw [if_neg (by simp [hd])] at hrev
    apply C06W.newFrom_allW _ _ _ t _ hrev
    intro e he
    rw [List.mem_map] at he
    obtain ⟨e0, he0, e1⟩ := he
    obtain ⟨c, hc, _⟩ := hpos e0 he0
    exact ⟨c, by rw [← e1]; exact hc⟩
  · intro g hg hgood
    exact C06T.store_sim_weighted g hg _ (mem_weightArcs _ _) hgood.1
      (fun e he => by obtain ⟨c, hc, _⟩ := hgood.2 e he; exact ⟨c, hc⟩)
  · intro g hg hgood i hi
    have S := C06T.store_sim_weighted g hg _ (mem_weightArcs (fun v => g.succVec[v]?.getD []) g.numberOfNodes) hgood.1
      (fun e he => by obtain ⟨c, hc, _⟩ := hgood.2 e he; exact ⟨c, hc⟩)
    have := C06_ccWeighted_exact (fun v => g.succVec[v]?.getD []) g.numberOfNodes g.totalAdj i hi
      (fun v _ a ha => C03_indexes_in_range g hg v a (Or.inl ha))
      (by
        intro v hv a ha
        obtain ⟨row, hrow, har⟩ := C06T.row_mem_succVec g v a ha
        obtain ⟨c, hc⟩ := hgood.1 row hrow a har
        refine ⟨c, hc, ?_⟩
        have hmem : (v, a.1, c) ∈ weightArcs (fun v => g.succVec[v]?.getD []) g.numberOfNodes := by
          rw [mem_weightArcs]
          refine ⟨hv, ?_⟩
          rw [← hc]; exact ha
        obtain ⟨x, y, c', _, _, hle, harc⟩ := S.d1 _ _ _ hmem
        rw [C06T.mem_abs_arcs] at harc
        obtain ⟨e, he, hce, _⟩ := harc
        simp only [if_true] at hce
        obtain ⟨c2, hc2, hpos2⟩ := hgood.2 e he
        rw [hce] at hc2
        cases hc2
        omega)
      (totalAdj_bound g hg)
    simpa [C06C.spOf] using this
  · intro a ha
    obtain ⟨x, y, c⟩ := a
    rw [C06T.mem_abs_arcs] at ha
    obtain ⟨e, he, hc, _⟩ := ha
    simp only [if_true] at hc
    obtain ⟨c2, hc2, hpos2⟩ := hpos e he
    rw [hc] at hc2
    cases hc2
    simp only
    omega

/-- on every store reached by a history that only adds weighted edges the extra hypothesis holds, so the statement is
    unconditional there -/
theorem C06_model_eq_spec_weighted_reachable (sp : Specs) (ops : List Op) (hops : ∀ op ∈ ops, C06W.opWeighted op)
    (wfFlag : Bool) (m : List (Nat × Rat))
    (hpos : ∀ e ∈ (Store.run sp ops).1.allEdges, ∃ c, e.w = some c ∧ 0 < c)
    (hm : (Store.run sp ops).1.closeness true wfFlag = .ok m) :
    ∀ u, alookup m u =
      alookup (ccSpec (Store.run sp ops).1.getAllNodeNames
        ((Store.run sp ops).1.abs.arcs (Store.run sp ops).1.specs.directed true) wfFlag) u :=
  C06_model_eq_spec_weighted_corrected _ (Core_reachable_wf sp ops) wfFlag m hpos
    (fun _ => C06W.run_allW sp ops hops) hm

/-- the model never fails on a well-formed store (the `reverse().unwrap()` and `get_node_by_index().unwrap()` sites are
    not reached) - stated for the hop-count mode, where no hypothesis on weights is needed -/
theorem C06_closeness_unweighted_ok (s : Store) (h : s.wf = true) (wfFlag : Bool) :
    ∃ m, s.closeness false wfFlag = .ok m := by
  rw [C06C.closeness_eq]
  have hrun : ∀ g : Store, g.wf = true → ∃ m, C06C.closenessOn g false wfFlag = .ok m := by
    intro g hg
    refine ⟨_, C06C.fold_ok g.getNodeByIndex
      (fun i => nodeCentrality (C06C.spOf g false i) g.numberOfNodes wfFlag) _
      (by intro acc i nd h; simp [bind, Outcome.bind, Outcome.ofOption, h]) (List.range g.numberOfNodes) [] ?_⟩
    intro i hi
    rw [List.mem_range] at hi
    rw [C02_getNodeByIndex g hg i]
    exact ⟨g.nodesVec[i], List.getElem?_eq_getElem hi⟩
  by_cases hd : s.specs.directed = true
  · obtain ⟨t, hrev, ht, _, _⟩ := Core_reverse s h hd
    rw [if_pos hd, hrev]
    exact hrun t ht
  · rw [if_neg hd]
    exact hrun s h

/-- **the Bellman-Ford bound behind `ccSpec`** (which runs `distFrom arcs n s` without testing `isClosed`): on a
    well-formed store, `n = number of nodes` rounds of relaxation over the abstract arcs give exactly the shortest
    distances from every node, provided the costs are non-negative; in particular the labelling is closed -/
theorem C06_distFrom_exact (s : Store) (h : s.wf = true) (weighted : Bool)
    (hnn : ∀ a ∈ s.abs.arcs s.specs.directed weighted, 0 ≤ a.2.2) (src : Nat) (hsrc : src ∈ s.getAllNodeNames) :
    (∀ t d, alookup (Arcs.distFrom (s.abs.arcs s.specs.directed weighted) s.getAllNodeNames.length src) t = some d ↔
      IsDist (s.abs.arcs s.specs.directed weighted) src t d) ∧
    isClosed (s.abs.arcs s.specs.directed weighted)
      (Arcs.distFrom (s.abs.arcs s.specs.directed weighted) s.getAllNodeNames.length src) = true :=
  ⟨C06B.distFrom_exact s.names _ src (C06T.wf_names_nodup s h) hsrc (C06C.arcs_endpoints s h _ _) hnn,
   C06B.distFrom_closed s.names _ src (C06T.wf_names_nodup s h) hsrc (C06C.arcs_endpoints s h _ _) hnn⟩

/-- non-vacuity: a directed multigraph with parallel arcs of different weights, a cycle and an isolated node -/
example :
    let sp : Specs := ⟨true, true, false, .keepFirst, .create, .error⟩
    let s := (Store.run sp [Op.addEdge ⟨1, 2, some 2, none⟩, Op.addEdge ⟨2, 3, some 1, none⟩, Op.addEdge ⟨1, 3, some 5, none⟩,
      Op.addEdge ⟨1, 3, some 4, none⟩, Op.addEdge ⟨3, 1, some 1, none⟩, Op.addNode ⟨7, none⟩]).1
    (s.closeness true true).toOption = some [(1, 4 / 9), (2, 4 / 15), (3, 1 / 3), (7, 0)] ∧
    ccSpec s.getAllNodeNames (s.abs.arcs true true) true = [(1, 4 / 9), (2, 4 / 15), (3, 1 / 3), (7, 0)] ∧
    (s.closeness false false).toOption = some [(1, 2 / 3), (2, 2 / 3), (3, 1), (7, 0)] ∧
    ccSpec s.getAllNodeNames (s.abs.arcs true false) false = [(1, 2 / 3), (2, 2 / 3), (3, 1), (7, 0)] := by
  decide +kernel

end Graphrs
