import GraphrsModel.ObsSP
namespace Graphrs
/-- placeholder while the framework is brought up: replaced by the property theorems -/
theorem C04_popFringe_nil : popFringe [] = none := rfl
end Graphrs
