/-
  C04 — Dijkstra returns exactly the shortest distances and shortest paths.

  What is proved here is the soundness of the *checker* that `tools/check.py` runs on the real
  implementation's answers (and that the model's answers pass as well): the checker computes
  distances by rounds of relaxation, verifies at run time that they are closed under relaxation,
  and compares.  The theorems show that an accepted answer satisfies the walk-based statement of
  C04, for every graph, source and answer - no bound on sizes.
-/
import GraphrsModel.Spec.PathCheck
import GraphrsModel.Lemmas.C04Aux
namespace Graphrs

/-- every label produced by rounds of relaxation is the cost of a real walk from the source -/
theorem C04_distFrom_witnessed (arcs : Arcs) (rounds s : Nat) :
    ∀ v x, alookup (Arcs.distFrom arcs rounds s) v = some x → Walk arcs s v x :=
  distFrom_witnessed arcs rounds s

/-- the source is labelled, with a label ≤ 0 -/
theorem C04_distFrom_source (arcs : Arcs) (rounds s : Nat) :
    ∃ x, alookup (Arcs.distFrom arcs rounds s) s = some x ∧ x ≤ 0 :=
  distFrom_srcOk arcs rounds s

/-- a labelling closed under relaxation bounds every walk from below -/
theorem C04_closed_lower_bound (arcs : Arcs) (d : List (Nat × Int)) (s : Nat) (x0 : Int)
    (hs : alookup d s = some x0) (h0 : x0 ≤ 0) (hc : isClosed arcs d = true) :
    ∀ v c, Walk arcs s v c → ∃ x, alookup d v = some x ∧ x ≤ c := by
  intro v c hw
  induction hw with
  | nil => exact ⟨x0, hs, h0⟩
  | snoc hw' ha ih =>
    obtain ⟨xu, hxu, hle⟩ := ih
    obtain ⟨dv, hdv, hle2⟩ := isClosed_arc arcs d hc _ _ _ ha xu hxu
    exact ⟨dv, hdv, by omega⟩

/-- **the certificate theorem**: if the relaxation labelling is closed, it is exactly the
    shortest-distance function, and exactly the reachable nodes are labelled -/
theorem C04_certificate_exact (arcs : Arcs) (rounds s : Nat)
    (hc : isClosed arcs (Arcs.distFrom arcs rounds s) = true) :
    (∀ v x, alookup (Arcs.distFrom arcs rounds s) v = some x ↔ IsDist arcs s v x) ∧
    (∀ v, alookup (Arcs.distFrom arcs rounds s) v = none ↔ ¬ Reachable arcs s v) := by
  obtain ⟨x0, hs, h0⟩ := C04_distFrom_source arcs rounds s
  have hlb := C04_closed_lower_bound arcs _ s x0 hs h0 hc
  have hwit := C04_distFrom_witnessed arcs rounds s
  refine ⟨fun v x => ⟨fun hx => ⟨hwit v x hx, fun c hw => ?_⟩, fun hd => ?_⟩, fun v => ⟨fun hn hr => ?_, fun hnr => ?_⟩⟩
  · obtain ⟨x', hx', hle⟩ := hlb v c hw
    rw [hx] at hx'; cases hx'; exact hle
  · obtain ⟨x', hx', hle⟩ := hlb v x hd.1
    have := hd.2 x' (hwit v x' hx')
    have e : x' = x := by omega
    rw [← e]; exact hx'
  · obtain ⟨c, hw⟩ := hr
    obtain ⟨x', hx', _⟩ := hlb v c hw
    rw [hn] at hx'; cases hx'
  · cases hv : alookup (Arcs.distFrom arcs rounds s) v with
    | none => rfl
    | some x => exact absurd ⟨x, hwit v x hv⟩ hnr

/-- a node list that `walkCost` accepts is a real walk of that cost between its endpoints -/
theorem C04_walkCost_walk (arcs : Arcs) :
    ∀ (p : List Nat) (c : Int), Arcs.walkCost arcs p = some c →
      ∃ a b, p.head? = some a ∧ p.getLast? = some b ∧ Walk arcs a b c := by
  intro p
  induction p with
  | nil => intro c h; simp [Arcs.walkCost] at h
  | cons x rest ih =>
    cases rest with
    | nil =>
      intro c h
      simp [Arcs.walkCost] at h
      subst h
      exact ⟨x, x, by simp, by simp, Walk.nil x⟩
    | cons y rest =>
      intro c h
      unfold Arcs.walkCost at h
      simp only at h
      split at h
      · cases h
      · rename_i c0 cs' hcs
        cases hrec : Arcs.walkCost arcs (y :: rest) with
        | none => simp [hrec] at h
        | some c' =>
          simp only [hrec, Option.map_some, Option.some.injEq] at h
          obtain ⟨a, b, ha, hb, hw⟩ := ih c' hrec
          simp at ha
          subst ha
          have hmem := foldl_min_mem cs' c0
          rw [← hcs] at hmem
          simp only [List.mem_map, List.mem_filter] at hmem
          obtain ⟨arc, ⟨harc, hcond⟩, hbest⟩ := hmem
          obtain ⟨a1, a2, a3⟩ := arc
          simp at hcond hbest
          obtain ⟨e1, e2⟩ := hcond
          subst e1 e2
          refine ⟨a1, b, by simp, ?_, ?_⟩
          · rw [List.getLast?_cons_cons]; exact hb
          · rw [← h, ← hbest]
            exact Walk.cons' harc hw


private theorem bnot_not (b : Bool) (h : ¬ (!b) = true) : b = true := by
  cases b <;> simp at h ⊢

private theorem not_true_false (b : Bool) (h : ¬ b = true) : b = false := by
  cases b <;> simp at h ⊢

/-- what acceptance by the checker means, clause by clause -/
theorem check_none_facts (nodes : List Nat) (arcs : Arcs) (q : SPQuery)
    (ans : List (Nat × Int × List (List Nat)))
    (h : checkSingleSource nodes arcs q ans = none) :
    let d := Arcs.distFrom arcs nodes.length q.source
    let within : Int → Bool := fun x =>
      match q.cutoff2 with | none => true | some c => decide (2 * x ≤ c)
    isClosed arcs d = true ∧
    (ans.any fun r => alookup d r.1 != some r.2.1 || !within r.2.1) = false ∧
    (match q.target with
      | none => ((d.filter fun kv => within kv.2).map (·.1)).all (ans.map (·.1)).contains
      | some t => !((d.filter fun kv => within kv.2).map (·.1)).contains t ||
          (ans.map (·.1)).contains t) = true ∧
    (q.withPaths = false → (ans.any fun r => !r.2.2.isEmpty) = false) ∧
    (q.withPaths = true →
      (ans.any fun r => r.2.2.any fun p =>
        p.head? != some q.source || p.getLast? != some r.1 ||
          Arcs.walkCost arcs p != some r.2.1) = false ∧
      (q.firstOnly = true → (ans.any fun r => r.2.2.length != 1) = false)) := by
  unfold checkSingleSource at h
  extract_lets n d positive within reachable keys badDist complete badPath relevant bad at h
  intro d' within'
  by_cases h1 : (!isClosed arcs d) = true
  · rw [if_pos h1] at h; cases h
  rw [if_neg h1] at h
  by_cases h2 : (keys.length != (dedup keys).length) = true
  · rw [if_pos h2] at h; cases h
  rw [if_neg h2] at h
  by_cases h3 : (keys.any fun k => !nodes.contains k) = true
  · rw [if_pos h3] at h; cases h
  rw [if_neg h3] at h
  by_cases h4 : badDist = true
  · rw [if_pos h4] at h; cases h
  rw [if_neg h4] at h
  by_cases h5 : (!complete) = true
  · rw [if_pos h5] at h; cases h
  rw [if_neg h5] at h
  refine ⟨bnot_not _ h1, not_true_false _ h4, bnot_not _ h5, ?_, ?_⟩
  · intro hp
    have c6 : (!q.withPaths) = true := by rw [hp]; rfl
    rw [if_pos c6] at h
    by_cases h6 : (ans.any fun r => !r.2.2.isEmpty) = true
    · rw [if_pos h6] at h; cases h
    · exact not_true_false _ h6
  · intro hp
    have c6 : ¬ (!q.withPaths) = true := by rw [hp]; simp
    rw [if_neg c6] at h
    by_cases h7 : badPath = true
    · rw [if_pos h7] at h; cases h
    rw [if_neg h7] at h
    refine ⟨not_true_false _ h7, ?_⟩
    intro hf
    rw [if_pos hf] at h
    by_cases h8 : (relevant.any fun r => r.2.2.length != 1) = true
    · rw [if_pos h8] at h; cases h
    · exact not_true_false _ h8

private theorem within_iff (q : SPQuery) (x : Int) :
    (match q.cutoff2 with | none => true | some c => decide (2 * x ≤ c)) = true ↔
    (match q.cutoff2 with | none => True | some c => 2 * x ≤ c) := by
  cases q.cutoff2 <;> simp

private theorem reported_of_dist (arcs : Arcs) (rounds s : Nat) (within : Int → Bool) (t : Nat) (x : Int)
    (hx : alookup (Arcs.distFrom arcs rounds s) t = some x) (hw : within x = true) :
    t ∈ ((Arcs.distFrom arcs rounds s).filter fun kv => within kv.2).map (·.1) := by
  rw [List.mem_map]
  exact ⟨(t, x), List.mem_filter.2 ⟨alookup_mem _ _ _ hx, hw⟩, rfl⟩

/-- **soundness of the checker (distances)**: an accepted answer reports only exact shortest
    distances, within the cutoff, and - when no target is given - every reachable node within the
    cutoff is reported -/
theorem C04_check_sound_dist (nodes : List Nat) (arcs : Arcs) (q : SPQuery)
    (ans : List (Nat × Int × List (List Nat)))
    (h : checkSingleSource nodes arcs q ans = none) :
    (∀ r ∈ ans, IsDist arcs q.source r.1 r.2.1 ∧
        (match q.cutoff2 with | none => True | some c => 2 * r.2.1 ≤ c)) ∧
    (q.target = none → ∀ t x, IsDist arcs q.source t x →
        (match q.cutoff2 with | none => True | some c => 2 * x ≤ c) → t ∈ ans.map (·.1)) ∧
    (∀ t, q.target = some t → ∀ x, IsDist arcs q.source t x →
        (match q.cutoff2 with | none => True | some c => 2 * x ≤ c) → t ∈ ans.map (·.1)) := by
  obtain ⟨hcl, hbd, hcomp, _, _⟩ := check_none_facts nodes arcs q ans h
  have hcert := (C04_certificate_exact arcs nodes.length q.source hcl).1
  rw [List.any_eq_false] at hbd
  refine ⟨fun r hr => ?_, fun ht t x hd hw => ?_, fun t ht x hd hw => ?_⟩
  · have := hbd r hr
    simp only [Bool.or_eq_true, not_or, bne_iff_ne, ne_eq, Decidable.not_not,
      Bool.not_eq_true', Bool.not_eq_false] at this
    exact ⟨(hcert _ _).1 this.1, (within_iff q _).1 (by simpa using this.2)⟩
  · simp only [ht] at hcomp
    rw [List.all_eq_true] at hcomp
    have hm := reported_of_dist arcs nodes.length q.source
      (fun x => match q.cutoff2 with | none => true | some c => decide (2 * x ≤ c)) t x ((hcert t x).2 hd)
      ((within_iff q x).2 hw)
    have := hcomp t hm
    simpa using this
  · simp only [ht] at hcomp
    have hm := reported_of_dist arcs nodes.length q.source
      (fun x => match q.cutoff2 with | none => true | some c => decide (2 * x ≤ c)) t x ((hcert t x).2 hd)
      ((within_iff q x).2 hw)
    rw [Bool.or_eq_true] at hcomp
    rcases hcomp with hc | hc
    · rw [Bool.not_eq_true', ← Bool.not_eq_true] at hc
      exact absurd (List.contains_iff_mem.2 hm) hc
    · simpa using hc

/-- **soundness of the checker (paths)**: with `with_paths`, every returned path starts at the
    source, ends at its target and is a walk whose cost is the (shortest) distance; with
    `first_only` exactly one path is returned per reported node -/
theorem C04_check_sound_paths (nodes : List Nat) (arcs : Arcs) (q : SPQuery)
    (ans : List (Nat × Int × List (List Nat)))
    (h : checkSingleSource nodes arcs q ans = none) (hp : q.withPaths = true) :
    (∀ r ∈ ans, ∀ p ∈ r.2.2, p.head? = some q.source ∧ p.getLast? = some r.1 ∧
        Walk arcs q.source r.1 r.2.1 ∧ Arcs.walkCost arcs p = some r.2.1) ∧
    (q.firstOnly = true → ∀ r ∈ ans, r.2.2.length = 1) := by
  obtain ⟨_, _, _, _, hpaths⟩ := check_none_facts nodes arcs q ans h
  obtain ⟨hbp, hfo⟩ := hpaths hp
  have hd := (C04_check_sound_dist nodes arcs q ans h).1
  rw [List.any_eq_false] at hbp
  refine ⟨fun r hr p hpm => ?_, fun hf r hr => ?_⟩
  · have := hbp r hr
    rw [Bool.not_eq_true, List.any_eq_false] at this
    have := this p hpm
    simp only [Bool.or_eq_true, not_or, bne_iff_ne, ne_eq, Decidable.not_not] at this
    exact ⟨this.1.1, this.1.2, (hd r hr).1.1, this.2⟩
  · have := hfo hf
    rw [List.any_eq_false] at this
    simpa using this r hr

/-- without `with_paths` the path lists are empty -/
theorem C04_check_sound_nopaths (nodes : List Nat) (arcs : Arcs) (q : SPQuery)
    (ans : List (Nat × Int × List (List Nat)))
    (h : checkSingleSource nodes arcs q ans = none) (hp : q.withPaths = false) :
    ∀ r ∈ ans, r.2.2 = [] := by
  obtain ⟨_, _, _, hnp, _⟩ := check_none_facts nodes arcs q ans h
  have := hnp hp
  rw [List.any_eq_false] at this
  intro r hr
  simpa using this r hr

/-- non-vacuity: the checker accepts the correct answer on a small weighted digraph with a tie -/
example :
    checkSingleSource [1, 2, 3, 4] [(1, 2, 1), (1, 3, 1), (2, 4, 1), (3, 4, 1)]
      ⟨true, 1, none, none, false, true⟩
      [(1, 0, [[1]]), (2, 1, [[1, 2]]), (3, 1, [[1, 3]]), (4, 2, [[1, 2, 4], [1, 3, 4]])] = none := by
  decide

end Graphrs
