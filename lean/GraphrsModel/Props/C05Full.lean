/-
  C05 (model level) — Brandes' algorithm as modelled from src/algorithms/centrality/betweenness.rs equals the
  definition of betweenness centrality (`bcSpec`: enumeration of all shortest paths).

  Staged (proofs in Lemmas/Bc*.lean):
  (1) the single-source stage computes S (reachable nodes in non-decreasing distance), P (tight predecessors) and sigma
      (number of shortest paths; twice that number after `dijkstra`)            — `C05_bfs_stage`, `C05_dijkstra_stage`
  (2) the accumulation computes Brandes' dependencies                            — `C05_accumulate_stage`
  (3) the dependency is the sum over targets of the fraction of enumerated shortest paths through the node
                                                                                  — `C05_dependency_stage`
  (4) summing over sources, rescaling and translating positions to names gives the definition
      — `C05_model_eq_spec_unweighted_corrected`, `C05_model_eq_spec_weighted` (conditional on the row facts),
        `C05_model_eq_spec_unweighted_reachable`, `C05_model_eq_spec_weighted_reachable`, `C05_full_statement_reachable`
        (unconditional for every GraphSpecs record and every history of API calls).
  The original statement `C05_model_eq_spec_unweighted` (hypothesis `Store.wf` only) is FALSE: see the counterexample
  `C05_model_eq_spec_unweighted_counterexample` and the comment before `C05_model_eq_spec_unweighted_corrected`.
  The meaning of the definition's enumeration (`tightPaths` lists every shortest path exactly once) is
  `C05_spec_enumerates_shortest_paths`.
-/
import GraphrsModel.Props.Core
import GraphrsModel.Props.C04Model
import GraphrsModel.Props.C05
import GraphrsModel.Lemmas.BcBridge
import GraphrsModel.Lemmas.C09ModelAux
import GraphrsModel.Lemmas.BcRows
import GraphrsModel.Lemmas.BcPaths
import GraphrsModel.Lemmas.BcDijkstra
import GraphrsModel.Lemmas.BcRowsW
namespace Graphrs

/-- unit-cost arcs of a traversal list -/
def bcUnitArcs (adjOf : Nat → List Adj) (n : Nat) : Arcs :=
  (List.range n).flatMap fun v => (adjOf v).map fun a => (v, a.1, (1 : Int))

/-- the number of shortest source→t paths (as node sequences), by the specification's own enumeration -/
def sigmaSpec (arcs : Arcs) (n source t : Nat) : Nat :=
  (Arcs.tightPaths arcs (Arcs.distFrom arcs n source) source n t).length

/-! ## stage 1 -/

theorem bcUnitArcs_arcsOf (adjOf : Nat → List Adj) (n : Nat) : Bc.ArcsOf adjOf n (bcUnitArcs adjOf n) := by
  intro u w c
  unfold bcUnitArcs
  simp only [List.mem_flatMap, List.mem_range, List.mem_map, Prod.mk.injEq]
  constructor
  · rintro ⟨v, hv, a, ha, rfl, rfl, rfl⟩
    exact ⟨hv, rfl, a, ha, rfl⟩
  · rintro ⟨hu, rfl, a, ha, rfl⟩
    exact ⟨u, hu, a, ha, rfl, rfl, rfl⟩

/-- the identity renaming: the position arcs against themselves -/
theorem bcUnitArcs_ren_id (adjOf : Nat → List Adj) (n : Nat) (hidx : ∀ v, v < n → ∀ a ∈ adjOf v, a.1 < n) :
    Bc.Ren n (bcUnitArcs adjOf n) (bcUnitArcs adjOf n) id := by
  have hA := bcUnitArcs_arcsOf adjOf n
  have hlt : ∀ a ∈ bcUnitArcs adjOf n, a.1 < n ∧ a.2.1 < n := by
    rintro ⟨u, w, c⟩ ha
    obtain ⟨hu, _, a', ha', rfl⟩ := (hA u w c).1 ha
    exact ⟨hu, hidx u hu a' ha'⟩
  exact
    { inj := fun _ _ _ _ e => e
      ltA := hlt
      posA := hA.unit.pos
      posB := hA.unit.pos
      arcsAB := fun _ _ _ _ _ _ h => h
      arcsBA := fun _ _ c _ _ _ h => ⟨c, Int.le_refl _, h⟩
      cover := fun a ha => ⟨a.1, a.2.1, (hlt a ha).1, (hlt a ha).2, rfl, rfl⟩ }

/-- **stage 1 (hop counts)**: S lists exactly the reachable nodes, each once, in non-decreasing distance; P[w] is exactly the set of
    tight predecessors of w; sigma[w] is the number of shortest paths from the source to w -/
theorem C05_bfs_stage (adjOf : Nat → List Adj) (n source : Nat) (hsrc : source < n)
    (hidx : ∀ v, v < n → ∀ a ∈ adjOf v, a.1 < n)
    (hnd : ∀ v, v < n → (((adjOf v).map (fun a => a.1)).filter (fun j => j != v)).Nodup) :
    let r := bcBfs adjOf n source
    let arcs := bcUnitArcs adjOf n
    r.S.Nodup ∧ (∀ v, v ∈ r.S ↔ Reachable arcs source v) ∧
    (∀ (i j : Nat) (di dj : Int), i < j → (∃ x, r.S[i]? = some x ∧ IsDist arcs source x di) → (∃ y, r.S[j]? = some y ∧ IsDist arcs source y dj) → di ≤ dj) ∧
    (∀ w ∈ r.S, ∀ v, v ∈ (r.P[w]?.getD []) ↔ (∃ dv dw, IsDist arcs source v dv ∧ IsDist arcs source w dw ∧ dv + 1 = dw ∧ (v, w, 1) ∈ arcs)) ∧
    (∀ w ∈ r.S, r.sigma[w]? = some ((sigmaSpec arcs n source w : Nat) : Rat)) := by
  intro r arcs
  have hA := bcUnitArcs_arcsOf adjOf n
  obtain ⟨D, out⟩ := Bc.bcBfs_out hA hsrc hidx hnd
  have sout := out.toSsOut hA
  have hR := bcUnitArcs_ren_id adjOf n hidx
  refine ⟨out.nd, out.mem, ?_, ?_, ?_⟩
  · rintro i j di dj hij ⟨x, hx, hdx⟩ ⟨y, hy, hdy⟩
    have hi : i < r.S.length := C03.lt_of_getElem? hx
    have hj : j < r.S.length := C03.lt_of_getElem? hy
    have hord := (List.pairwise_iff_getElem.1 out.ord) i j hi hj hij
    have ex : r.S[i] = x := by
      have := List.getElem?_eq_getElem hi
      rw [this] at hx; exact Option.some.inj hx
    have ey : r.S[j] = y := by
      have := List.getElem?_eq_getElem hj
      rw [this] at hy; exact Option.some.inj hy
    rw [ex, ey, Bc.dOf_of_lk ((out.dist x di).2 hdx), Bc.dOf_of_lk ((out.dist y dj).2 hdy)] at hord
    exact hord
  · intro w hw v
    show v ∈ Bc.gP r.P w ↔ _
    rw [out.pMem]
    obtain ⟨_, hlw⟩ := sout.dOf_nonneg hw
    constructor
    · rintro ⟨hvS, ⟨a, ha, ha1⟩, hl⟩
      obtain ⟨_, hlv⟩ := sout.dOf_nonneg hvS
      exact ⟨Bc.dOf D v, Bc.dOf D v + 1, (out.dist _ _).1 hlv, (out.dist _ _).1 hl, rfl,
        (hA v w 1).2 ⟨out.lt v hvS, rfl, a, ha, ha1⟩⟩
    · rintro ⟨dv, dw, hdv, hdw, e, harc⟩
      have hlv := (out.dist _ _).2 hdv
      obtain ⟨_, _, a, ha, ha1⟩ := (hA v w 1).1 harc
      refine ⟨(out.memD v).2 (by rw [hlv]; simp), ⟨a, ha, ha1⟩, ?_⟩
      rw [Bc.dOf_of_lk hlv, e]
      exact (out.dist _ _).2 hdw
  · intro w hw
    have hwn := out.lt w hw
    have h1 := sout.sigma_eq hR hsrc w hwn
    have h2 : r.sigma[w]? = some (getD0 r.sigma w) := by
      have : w < r.sigma.length := by rw [out.lenS]; exact hwn
      simp [getD0, this]
    rw [h2, h1, one_mul]
    rfl

/-! ## stages 2 and 3 for one source, over positions -/

/-- **stage 2**: with `r = bfs(source)`, `accumulate` adds to `bc[x]`, for every reachable `x ≠ source`, the dependency `δ x`,
    where `δ` solves Brandes' recursion  δ(v) = Σ_{w ∈ S, v ∈ P[w]} sigma(v)/sigma(w) · (1 + δ(w)) -/
theorem C05_accumulate_stage (adjOf : Nat → List Adj) (n source : Nat) (hsrc : source < n)
    (hidx : ∀ v, v < n → ∀ a ∈ adjOf v, a.1 < n)
    (hnd : ∀ v, v < n → (((adjOf v).map (fun a => a.1)).filter (fun j => j != v)).Nodup)
    (bc : List Rat) (hbc : bc.length = n) :
    let r := bcBfs adjOf n source
    ∃ δ : Nat → Rat,
      (∀ v, δ v = (r.S.map fun w =>
        if v ∈ r.P[w]?.getD [] then getD0 r.sigma v / getD0 r.sigma w * (1 + δ w) else 0).sum) ∧
      (accumulate bc r).length = n ∧
      ∀ x, x < n → getD0 (accumulate bc r) x = getD0 bc x + if x ∈ r.S ∧ x ≠ source then δ x else 0 := by
  intro r
  have hA := bcUnitArcs_arcsOf adjOf n
  obtain ⟨D, out⟩ := Bc.bcBfs_out hA hsrc hidx hnd
  have sout := out.toSsOut hA
  have hL := sout.leveled
  refine ⟨Bc.dlt (Bc.gP r.P) (getD0 r.sigma) r.S, ?_, ?_⟩
  · intro v
    rw [hL.dlt_rec v]
    apply Bc.sum_map_congr
    intro w _
    show (if v ∈ Bc.gP r.P w then _ else _) = if v ∈ Bc.gP r.P w then _ else _
    split
    · ring
    · rfl
  · have hacc := Bc.accumulate_bcAdd r n bc hbc (fun w => out.pNd w) (fun w v hv => out.lt v (sout.P_mem_S hv)) out.lt
    refine ⟨hacc.1, fun x hx => ?_⟩
    rw [hacc.2 x hx, out.rsrc]
    have := hL.bcAdd_eq (σ := getD0 r.sigma) source x
    unfold Bc.gP at this
    rw [this]
    rfl

/-- **stage 3**: the dependency of the source on `x` is the sum, over the targets `t`, of the fraction of the enumerated
    shortest source-`t` paths that contain `x` (the pair-dependency identity, in counted form) -/
theorem C05_dependency_stage (adjOf : Nat → List Adj) (n source : Nat) (hsrc : source < n)
    (hidx : ∀ v, v < n → ∀ a ∈ adjOf v, a.1 < n)
    (hnd : ∀ v, v < n → (((adjOf v).map (fun a => a.1)).filter (fun j => j != v)).Nodup)
    (bc : List Rat) (hbc : bc.length = n) :
    let r := bcBfs adjOf n source
    let arcs := bcUnitArcs adjOf n
    let d := Arcs.distFrom arcs n source
    ∀ x, x < n → getD0 (accumulate bc r) x = getD0 bc x +
      (r.S.map fun t =>
        if x = source ∨ x = t then 0
        else (((Arcs.tightPaths arcs d source n t).filter fun q => q.contains x).length : Rat) /
          ((Arcs.tightPaths arcs d source n t).length : Rat)).sum := by
  intro r arcs d x hx
  have hA := bcUnitArcs_arcsOf adjOf n
  obtain ⟨D, out⟩ := Bc.bcBfs_out hA hsrc hidx hnd
  have sout := out.toSsOut hA
  have hR := bcUnitArcs_ren_id adjOf n hidx
  have hacc := Bc.accumulate_bcAdd r n bc hbc (fun w => out.pNd w) (fun w v hv => out.lt v (sout.P_mem_S hv)) out.lt
  rw [hacc.2 x hx, out.rsrc]
  have := sout.bcAdd_eq hR hsrc hx
  unfold Bc.gP at this
  rw [this]
  rfl

/-! ## the store: positions vs names -/

/-- the name at a position (0 when out of range) -/
def Store.nameAt (s : Store) (i : Nat) : Nat := s.names[i]?.getD 0

theorem Store.names_nameAt (s : Store) {i : Nat} (hi : i < s.nodesVec.length) : s.names[i]? = some (s.nameAt i) := by
  have : i < s.names.length := by rw [C03.names_length]; exact hi
  simp [Store.nameAt, this]

theorem Store.names_eq_map_nameAt (s : Store) : s.names = (List.range s.nodesVec.length).map s.nameAt := by
  apply List.ext_getElem?
  intro i
  by_cases hi : i < s.nodesVec.length
  · rw [s.names_nameAt hi]
    simp [hi]
  · have h1 : s.names.length ≤ i := by rw [C03.names_length]; omega
    rw [List.getElem?_eq_none h1, List.getElem?_eq_none (by simpa using Nat.le_of_not_lt hi)]

theorem abs_arcs_unweighted (s : Store) (x y : Nat) (c : Int) :
    (x, y, c) ∈ s.abs.arcs s.specs.directed false ↔ (c = 1 ∧ s.hasEdge x y = true) := by
  unfold Abs.arcs Store.abs Store.hasEdge
  simp only [List.mem_flatMap, List.any_eq_true, Bool.or_eq_true, Bool.and_eq_true, beq_iff_eq, Bool.not_eq_true',
    Bool.false_eq_true, if_false]
  constructor
  · rintro ⟨e, he, hm⟩
    cases hd : s.specs.directed
    · rw [hd] at hm
      simp only [Bool.false_eq_true, if_false, List.mem_cons, Prod.mk.injEq, List.not_mem_nil, or_false] at hm
      rcases hm with ⟨rfl, rfl, rfl⟩ | ⟨rfl, rfl, rfl⟩
      · exact ⟨rfl, e, he, by simp⟩
      · exact ⟨rfl, e, he, by simp⟩
    · rw [hd] at hm
      simp only [if_true, List.mem_cons, Prod.mk.injEq, List.not_mem_nil, or_false] at hm
      obtain ⟨rfl, rfl, rfl⟩ := hm
      exact ⟨rfl, e, he, by simp⟩
  · rintro ⟨rfl, e, he, hm⟩
    refine ⟨e, he, ?_⟩
    cases hd : s.specs.directed
    · rw [hd] at hm
      simp only [Bool.false_eq_true, if_false, List.mem_cons, Prod.mk.injEq, List.not_mem_nil, or_false]
      rcases hm with ⟨rfl, rfl⟩ | ⟨⟨_, rfl⟩, rfl⟩
      · simp
      · simp
    · rw [hd] at hm
      simp only [if_true, List.mem_cons, Prod.mk.injEq, List.not_mem_nil, or_false]
      rcases hm with ⟨rfl, rfl⟩ | ⟨⟨h1, _⟩, _⟩
      · simp
      · cases h1

/-- **the traversal lists and the abstract arcs are the same relation** (C03 + the name index) -/
theorem store_ren (s : Store) (h : s.wf = true) :
    Bc.Ren s.nodesVec.length (bcUnitArcs (fun v => s.succVec[v]?.getD []) s.nodesVec.length)
      (s.abs.arcs s.specs.directed false) s.nameAt := by
  have hA := bcUnitArcs_arcsOf (fun v => s.succVec[v]?.getD []) s.nodesVec.length
  obtain ⟨hno, heo, _, _⟩ := C09M.wf_parts s h
  have hnd := C03.nodesOk_nodup s hno
  have eP := C03.edgesOk_read s heo
  have hlt : ∀ a ∈ bcUnitArcs (fun v => s.succVec[v]?.getD []) s.nodesVec.length,
      a.1 < s.nodesVec.length ∧ a.2.1 < s.nodesVec.length := by
    rintro ⟨u, w, c⟩ ha
    obtain ⟨hu, _, a', ha', rfl⟩ := (hA u w c).1 ha
    exact ⟨hu, C03_indexes_in_range s h u a' (Or.inl ha')⟩
  have hnames : ∀ x ∈ s.names, ∃ i, i < s.nodesVec.length ∧ x = s.nameAt i := by
    intro x hx
    obtain ⟨i, hi, e⟩ := List.getElem_of_mem hx
    have hi' : i < s.nodesVec.length := by rw [← C03.names_length]; exact hi
    refine ⟨i, hi', ?_⟩
    have := s.names_nameAt hi'
    rw [List.getElem?_eq_getElem hi, e] at this
    exact Option.some.inj this
  have harcs : ∀ i j c, i < s.nodesVec.length → j < s.nodesVec.length →
      ((i, j, c) ∈ bcUnitArcs (fun v => s.succVec[v]?.getD []) s.nodesVec.length ↔
        (s.nameAt i, s.nameAt j, c) ∈ s.abs.arcs s.specs.directed false) := by
    intro i j c hi hj
    rw [hA i j c, abs_arcs_unweighted]
    have := (C03_successors_match_store s h i j _ _ (s.names_nameAt hi) (s.names_nameAt hj)).1
    rw [← this]
    constructor
    · rintro ⟨_, hc, a, ha, rfl⟩
      exact ⟨hc, a.2, ha⟩
    · rintro ⟨hc, w, hw⟩
      exact ⟨hi, hc, (j, w), hw, rfl⟩
  refine
    { inj := fun i j hi hj e => C03.names_inj hnd (s.names_nameAt hi) (by rw [e]; exact s.names_nameAt hj)
      ltA := hlt
      posA := hA.unit.pos
      posB := ?_
      arcsAB := fun i j c hi hj _ hin => (harcs i j c hi hj).1 hin
      arcsBA := fun i j c hi hj _ hin => ⟨c, Int.le_refl _, (harcs i j c hi hj).2 hin⟩
      cover := ?_ }
  · rintro ⟨x, y, c⟩ ha
    have := ((abs_arcs_unweighted s x y c).1 ha).1
    subst this
    show (0 : Int) < 1
    decide
  · rintro ⟨x, y, c⟩ ha
    obtain ⟨_, he⟩ := (abs_arcs_unweighted s x y c).1 ha
    -- both endpoints of a stored edge are nodes
    have hxy : x ∈ s.names ∧ y ∈ s.names := by
      simp only [Store.hasEdge, List.any_eq_true, Bool.or_eq_true, Bool.and_eq_true, beq_iff_eq] at he
      obtain ⟨e, hein, hm⟩ := he
      obtain ⟨kv, hkv, hekv⟩ := (C03.mem_allEdges s e).1 hein
      have hkey := eP.key kv hkv e hekv
      have hl : alookup s.edges kv.1 = some kv.2 := C03.alookup_of_mem _ _ _ eP.nd hkv
      have hin := eP.inN kv.1 kv.2 hl
      rw [← hkey] at hin
      rcases hm with ⟨rfl, rfl⟩ | ⟨⟨_, rfl⟩, rfl⟩
      · exact hin
      · exact ⟨hin.2, hin.1⟩
    obtain ⟨i, hi, ei⟩ := hnames x hxy.1
    obtain ⟨j, hj, ej⟩ := hnames y hxy.2
    exact ⟨i, j, hi, hj, ei, ej⟩

/-! ## the sum over sources, model side -/

/-- **stages 1-3 for a list of sources**: folding `accumulate ∘ stage` over sources adds, for every position `x`, the pair
    terms of the definition for these sources (`stage` is `bfs` or `dijkstra`) -/
theorem bc_fold_stage {adjOf : Nat → List Adj} {n : Nat} {cost : Adj → Int} {κ : Rat} {A B : Arcs} {f : Nat → Nat}
    (hR : Bc.Ren n A B f) (stage : Nat → SSR)
    (hst : ∀ a, a < n → ∃ D, Bc.SsOut adjOf n a cost κ A D (stage a)) :
    ∀ (L : List Nat) (bc0 : List Rat), (∀ a ∈ L, a < n) → bc0.length = n →
      (L.foldl (fun bc src => accumulate bc (stage src)) bc0).length = n ∧
      ∀ x, x < n →
        getD0 (L.foldl (fun bc src => accumulate bc (stage src)) bc0) x =
          getD0 bc0 x + (L.map fun a => ((stage a).S.map fun t => Bc.pairTerm B f n a x t).sum).sum := by
  intro L
  induction L with
  | nil => intro bc0 _ hl; exact ⟨hl, fun x _ => by simp⟩
  | cons a L ih =>
    intro bc0 hL hl
    have ha : a < n := hL a (List.mem_cons_self ..)
    obtain ⟨D, out⟩ := hst a ha
    have hacc := Bc.accumulate_bcAdd (stage a) n bc0 hl
      (fun w => out.pNd w) (fun w v hv => out.lt v (out.P_mem_S hv)) out.lt
    obtain ⟨h1, h2⟩ := ih _ (fun b hb => hL b (List.mem_cons_of_mem _ hb)) hacc.1
    rw [List.foldl_cons]
    refine ⟨h1, fun x hx => ?_⟩
    rw [h2 x hx, hacc.2 x hx, out.rsrc, List.map_cons, List.sum_cons]
    have := out.bcAdd_eq hR ha hx
    unfold Bc.gP at this
    rw [this]
    ring

/-! ## the definition, unfolded -/

/-- the term of one ordered pair in `bcSpec` -/
def specTerm (v : Nat) (ps : List (List Nat)) : Rat :=
  match ps with
  | [] => 0
  | p :: _ =>
    if p.head? == some v || p.getLast? == some v then 0
    else ((ps.filter fun q => q.contains v).length : Rat) / (ps.length : Rat)

def specScale (n : Nat) (directed normalized : Bool) : Rat :=
  if normalized then (if n ≤ 2 then 1 else 1 / (((n : Rat) - 1) * ((n : Rat) - 2)))
  else if directed then 1 else 1 / 2

theorem bcSpec_unfold (nodes : List Nat) (arcs : Arcs) (directed normalized : Bool) :
    bcSpec nodes arcs directed normalized =
      nodes.map fun v => (v, sumRat ((nodes.flatMap fun s =>
        ((Arcs.distFrom arcs nodes.length s).filter fun kv => kv.1 != s).map fun kv =>
          Arcs.tightPaths arcs (Arcs.distFrom arcs nodes.length s) s nodes.length kv.1).map (specTerm v)) *
        specScale nodes.length directed normalized) := by
  rfl

theorem sumRat_eq_sum (l : List Rat) : sumRat l = l.sum := by
  unfold sumRat
  have : ∀ acc : Rat, l.foldl (· + ·) acc = acc + l.sum := by
    induction l with
    | nil => intro acc; simp
    | cons a l ih => intro acc; rw [List.foldl_cons, ih, List.sum_cons]; ring
  rw [this 0]; ring

theorem sum_flatMap_map {α β} (l : List α) (g : α → List β) (k : β → Rat) :
    ((l.flatMap g).map k).sum = (l.map fun a => ((g a).map k).sum).sum := by
  induction l with
  | nil => rfl
  | cons a l ih => simp only [List.flatMap_cons, List.map_append, List.sum_append, List.map_cons, List.sum_cons, ih]

theorem sum_filter_ite {α} (l : List α) (p : α → Bool) (k : α → Rat) :
    ((l.filter p).map k).sum = (l.map fun a => if p a then k a else 0).sum := by
  induction l with
  | nil => rfl
  | cons a l ih =>
    rw [List.filter_cons]
    by_cases hp : p a = true
    · simp only [hp, if_true, List.map_cons, List.sum_cons, ih]
    · have : p a = false := by simpa using hp
      simp only [this, Bool.false_eq_true, if_false, List.map_cons, List.sum_cons, ih, zero_add]

theorem specTerm_tp (B : Arcs) (d : List (Nat × Int)) (s n v t : Nat) :
    specTerm v (Arcs.tightPaths B d s n t) =
      if v = s ∨ v = t then 0 else Bc.thrH B d s n v t / Bc.sigH B d s n t := by
  unfold Bc.thrH Bc.sigH
  cases hps : Arcs.tightPaths B d s n t with
  | nil => simp [specTerm]
  | cons p rest =>
    have hmem : p ∈ Arcs.tightPaths B d s n t := by rw [hps]; exact List.mem_cons_self ..
    have hh := tightPaths_head B d s n t p hmem
    have hl := Bc.tightPaths_last B d s n t p hmem
    simp only [specTerm, hh, hl]
    by_cases e : v = s ∨ v = t
    · rw [if_pos e]
      rcases e with e | e <;> simp [e]
    · rw [if_neg e]
      have h1 : ¬ s = v := fun h => e (Or.inl h.symm)
      have h2 : ¬ t = v := fun h => e (Or.inr h.symm)
      simp [h1, h2]

theorem relaxStep_keys_nodup (d : List (Nat × Int)) (arc : Nat × Nat × Int) (h : (d.map (·.1)).Nodup) :
    ((relaxStep d arc).map (·.1)).Nodup := by
  unfold relaxStep
  split
  · exact h
  · split
    · exact AL.nodup_insert h _ _
    · simp only
      split
      · exact AL.nodup_insert h _ _
      · exact h

theorem distFrom_keys_nodup (B : Arcs) (rounds s : Nat) : ((Arcs.distFrom B rounds s).map (·.1)).Nodup := by
  unfold Arcs.distFrom
  apply foldl_const_inv (fun d : List (Nat × Int) => (d.map (·.1)).Nodup)
  · intro d hd
    rw [relaxRound_eq]
    have : ∀ (l : Arcs) (d : List (Nat × Int)), (d.map (·.1)).Nodup → ((l.foldl relaxStep d).map (·.1)).Nodup := by
      intro l
      induction l with
      | nil => intro d hd; exact hd
      | cons a l ih => intro d hd; exact ih _ (relaxStep_keys_nodup d a hd)
    exact this B d hd
  · simp

section source
variable {adjOf : Nat → List Adj} {n a : Nat} {cost : Adj → Int} {κ : Rat} {A B : Arcs} {f : Nat → Nat}
  {D : List (Option Int)} {r : SSR}

/-- the targets the definition enumerates for the source `f a` are the names of `S \ {a}` -/
theorem spec_targets_perm (hR : Bc.Ren n A B f) (ha : a < n) (out : Bc.SsOut adjOf n a cost κ A D r) :
    (((Arcs.distFrom B n (f a)).filter fun kv => kv.1 != f a).map (·.1)).Perm ((r.S.filter fun t => t != a).map f) := by
  have hE := hR.exactD ha
  have hkn := distFrom_keys_nodup B n (f a)
  have hnd1 : (((Arcs.distFrom B n (f a)).filter fun kv => kv.1 != f a).map (·.1)).Nodup :=
    hkn.sublist (List.filter_sublist.map _)
  have hnd2 : ((r.S.filter fun t => t != a).map f).Nodup :=
    (out.nd.filter _).map_on (fun x hx y hy e =>
      hR.inj x y (out.lt x (List.mem_filter.1 hx).1) (out.lt y (List.mem_filter.1 hy).1) e)
  rw [List.perm_ext_iff_of_nodup hnd1 hnd2]
  intro y
  simp only [List.mem_map, List.mem_filter, bne_iff_ne, ne_eq]
  constructor
  · rintro ⟨⟨y', k⟩, ⟨hin, hne⟩, rfl⟩
    simp only at hne ⊢
    have hl := AL.mem_lookup hkn hin
    obtain ⟨i, hi, e, hdi⟩ := hR.isDist_name ha ((hE y' k).1 hl)
    subst e
    refine ⟨i, ⟨(out.memD i).2 (by rw [(out.dist i k).2 hdi]; simp), fun e => hne (by rw [e])⟩, rfl⟩
  · rintro ⟨t, ⟨htS, hta⟩, rfl⟩
    have ht := out.lt t htS
    obtain ⟨_, hl⟩ := out.dOf_nonneg htS
    have := (out.label_iff hR ha ht _).2 hl
    refine ⟨(f t, Bc.dOf D t), ⟨AL.lookup_mem this, fun e => hta (hR.inj t a ht ha e)⟩, rfl⟩

/-- **one source, specification side**: the definition's pair terms for the source `f a` and the node `f x` -/
theorem spec_source_sum (hR : Bc.Ren n A B f) (ha : a < n) (out : Bc.SsOut adjOf n a cost κ A D r)
    {x : Nat} (hx : x < n) :
    ((((Arcs.distFrom B n (f a)).filter fun kv => kv.1 != f a).map fun kv =>
        Arcs.tightPaths B (Arcs.distFrom B n (f a)) (f a) n kv.1).map (specTerm (f x))).sum =
      (r.S.map fun t => Bc.pairTerm B f n a x t).sum := by
  have hTp := hR.tpEq ha
  have h1 : (((Arcs.distFrom B n (f a)).filter fun kv => kv.1 != f a).map fun kv =>
        Arcs.tightPaths B (Arcs.distFrom B n (f a)) (f a) n kv.1).map (specTerm (f x)) =
      (((Arcs.distFrom B n (f a)).filter fun kv => kv.1 != f a).map (·.1)).map fun y =>
        specTerm (f x) (Arcs.tightPaths B (Arcs.distFrom B n (f a)) (f a) n y) := by
    rw [List.map_map, List.map_map]; rfl
  rw [h1, ((spec_targets_perm hR ha out).map _).sum_eq, List.map_map, sum_filter_ite]
  apply Bc.sum_map_congr
  intro t htS
  have ht := out.lt t htS
  by_cases hta : t = a
  · subst hta
    have : (t != t) = false := by simp
    rw [this]
    simp only [Bool.false_eq_true, if_false]
    unfold Bc.pairTerm
    by_cases e : x = t ∨ x = t
    · rw [if_pos e]
    · rw [if_neg e]
      have hxt : x ≠ t := fun h => e (Or.inl h)
      have hfx : f x ≠ f t := fun h => hxt (hR.inj x t hx ht h)
      rw [Bc.thrH_source hTp, if_neg hfx]; simp
  · have : (t != a) = true := by simpa using hta
    rw [this]
    simp only [if_true, Function.comp]
    rw [specTerm_tp]
    unfold Bc.pairTerm
    have hiff : (f x = f a ∨ f x = f t) ↔ (x = a ∨ x = t) := by
      constructor
      · rintro (e | e)
        · exact Or.inl (hR.inj x a hx ha e)
        · exact Or.inr (hR.inj x t hx ht e)
      · rintro (e | e)
        · exact Or.inl (by rw [e])
        · exact Or.inr (by rw [e])
    by_cases e : x = a ∨ x = t
    · rw [if_pos e, if_pos (hiff.2 e)]
    · rw [if_neg e, if_neg (fun h => e (hiff.1 h))]

end source

/-! ## the last loop of `betweenness_centrality`: positions to names -/

theorem names_fold (s : Store) (h : s.wf = true) :
    ∀ (F : Outcome (List (Nat × Rat)) → Rat × Nat → Outcome (List (Nat × Rat))),
      (∀ acc v i nd, s.getNodeByIndex i = some nd → F (.ok acc) (v, i) = .ok (ainsert acc nd.name v)) →
      ∀ (l : List Rat) (k : Nat) (acc : List (Nat × Rat)), k + l.length = s.nodesVec.length →
        acc.map (·.1) = (List.range k).map s.nameAt →
        (l.zipIdx k).foldl F (.ok acc) = .ok (acc ++ (l.zipIdx k).map fun p => (s.nameAt p.2, p.1)) := by
  intro F hF l
  obtain ⟨hno, _, _, _⟩ := C09M.wf_parts s h
  have hnd := C03.nodesOk_nodup s hno
  induction l with
  | nil => intro k acc _ _; simp
  | cons v l ih =>
    intro k acc hk hacc
    have hkn : k < s.nodesVec.length := by simp at hk; omega
    have hget : s.getNodeByIndex k = some s.nodesVec[k] := by
      rw [C02_getNodeByIndex s h k]
      exact List.getElem?_eq_getElem hkn
    have hname : s.nodesVec[k].name = s.nameAt k := by
      have := s.names_nameAt hkn
      simp only [Store.names, List.getElem?_map, List.getElem?_eq_getElem hkn, Option.map_some] at this
      exact Option.some.inj this
    have hfresh : s.nameAt k ∉ acc.map (·.1) := by
      rw [hacc, List.mem_map]
      rintro ⟨j, hj, e⟩
      have hjk := List.mem_range.1 hj
      have := C03.names_inj hnd (s.names_nameAt (by omega : j < s.nodesVec.length)) (by rw [e]; exact s.names_nameAt hkn)
      omega
    rw [List.zipIdx_cons, List.foldl_cons, hF acc v k _ hget, hname, C09M.ainsert_fresh acc _ _ hfresh,
      ih (k + 1) _ (by simp at hk ⊢; omega) (by simp [hacc, List.range_succ])]
    simp

theorem Store.betweenness_names (s : Store) (h : s.wf = true) (bc : List Rat) (hl : bc.length = s.nodesVec.length) :
    bc.zipIdx.foldl (fun acc p => do
      let out ← acc
      let nd ← Outcome.ofOption "betweenness: get_node_by_index().unwrap()" (s.getNodeByIndex p.2)
      .ok (ainsert out nd.name p.1)) (.ok []) = .ok (bc.zipIdx.map fun p => (s.nameAt p.2, p.1)) := by
  have := names_fold s h (fun (acc : Outcome (List (Nat × Rat))) (p : Rat × Nat) => do
      let out ← acc
      let nd ← Outcome.ofOption "betweenness: get_node_by_index().unwrap()" (s.getNodeByIndex p.2)
      .ok (ainsert out nd.name p.1)) (by
    intro acc v i nd hnd
    simp [bind, Outcome.bind, Outcome.ofOption, hnd]) bc 0 [] (by simpa using hl) (by simp)
  simpa using this

theorem alookup_zipIdx_names (s : Store) (h : s.wf = true) (bc : List Rat) (hl : bc.length = s.nodesVec.length) :
    (∀ i, i < s.nodesVec.length → alookup (bc.zipIdx.map fun p => (s.nameAt p.2, p.1)) (s.nameAt i) = some (getD0 bc i)) ∧
    (∀ v, v ∉ s.names → alookup (bc.zipIdx.map fun p => (s.nameAt p.2, p.1)) v = none) := by
  obtain ⟨hno, _, _, _⟩ := C09M.wf_parts s h
  have hnd := C03.nodesOk_nodup s hno
  have hkeys : (bc.zipIdx.map fun p => (s.nameAt p.2, p.1)).map (·.1) = s.names := by
    rw [List.map_map, s.names_eq_map_nameAt]
    have : ((fun x : Nat × Rat => x.1) ∘ fun p : Rat × Nat => (s.nameAt p.2, p.1)) = s.nameAt ∘ (fun p : Rat × Nat => p.2) := rfl
    rw [this, ← List.map_map, List.zipIdx_map_snd, hl, List.range_eq_range']
  constructor
  · intro i hi
    apply C03.alookup_of_mem _ _ _ (by rw [hkeys]; exact hnd)
    rw [List.mem_map]
    have hi' : i < bc.length := by rw [hl]; exact hi
    refine ⟨(bc[i], i), List.mem_zipIdx_iff_getElem?.2 (List.getElem?_eq_getElem hi'), ?_⟩
    simp [getD0, hi']
  · intro v hv
    rw [AL.lookup_none_iff, hkeys]; exact hv

/-- the rescaling step of `betweenness_centrality` against the scale of the definition -/
theorem bcScale_apply (n : Nat) (normalized directed : Bool) (bc : List Rat) :
    (match bcScale n normalized directed with
      | some sc => bc.map (· * sc)
      | none => bc).length = bc.length ∧
    ∀ i, getD0 (match bcScale n normalized directed with
      | some sc => bc.map (· * sc)
      | none => bc) i = getD0 bc i * specScale n directed normalized := by
  have hmap : ∀ sc : Rat, ∀ i, getD0 (bc.map (· * sc)) i = getD0 bc i * sc := by
    intro sc i
    unfold getD0
    rw [List.getElem?_map]
    cases bc[i]? <;> simp
  unfold bcScale specScale
  cases normalized
  · cases directed
    · simp only [Bool.false_eq_true, if_false]
      exact ⟨by simp, fun i => hmap _ i⟩
    · simp only [Bool.false_eq_true, if_false, if_true]
      exact ⟨trivial, fun i => by simp⟩
  · by_cases hn : n ≤ 2
    · simp only [if_true, if_pos hn]
      exact ⟨trivial, fun i => by simp⟩
    · simp only [if_true, if_neg hn]
      exact ⟨by simp, fun i => hmap _ i⟩

/-- **the generic assembly**: whenever the single-source stage delivers its facts (`SsOut`) for every source and the traversal
    arcs `A` match the abstract arcs under the name index (`Ren`), the model of `betweenness_centrality` equals the definition -/
theorem betweenness_eq_spec_of_stage (s : Store) (h : s.wf = true) (weighted normalized : Bool)
    {cost : Adj → Int} {κ : Rat} {A : Arcs}
    (hR : Bc.Ren s.nodesVec.length A (s.abs.arcs s.specs.directed weighted) s.nameAt)
    (hst : ∀ a, a < s.nodesVec.length → ∃ D, Bc.SsOut (fun v => s.succVec[v]?.getD []) s.nodesVec.length a cost κ A D
      (if weighted then bcDijkstra (fun v => s.succVec[v]?.getD []) s.nodesVec.length s.totalAdj a
       else bcBfs (fun v => s.succVec[v]?.getD []) s.nodesVec.length a))
    (m : List (Nat × Rat)) (hm : s.betweenness weighted normalized = .ok m) :
    ∀ v, alookup m v = alookup (bcSpec s.getAllNodeNames (s.abs.arcs s.specs.directed weighted) s.specs.directed normalized) v := by
  obtain ⟨hno, _, _, _⟩ := C09M.wf_parts s h
  have hnd := C03.nodesOk_nodup s hno
  -- the model, stage by stage
  obtain ⟨hF1, hF2⟩ := bc_fold_stage hR
    (fun a => if weighted then bcDijkstra (fun v => s.succVec[v]?.getD []) s.nodesVec.length s.totalAdj a
       else bcBfs (fun v => s.succVec[v]?.getD []) s.nodesVec.length a) hst
    (List.range s.nodesVec.length) (List.replicate s.nodesVec.length 0)
    (fun a ha => List.mem_range.1 ha) (by simp)
  obtain ⟨hS1, hS2⟩ := bcScale_apply s.nodesVec.length normalized s.specs.directed
    ((List.range s.nodesVec.length).foldl (fun bc src =>
      accumulate bc (if weighted then bcDijkstra (fun v => s.succVec[v]?.getD []) s.nodesVec.length s.totalAdj src
       else bcBfs (fun v => s.succVec[v]?.getD []) s.nodesVec.length src)) (List.replicate s.nodesVec.length 0))
  rw [hF1] at hS1
  have hm2 := Store.betweenness_names s h _ hS1
  have hm3 : Outcome.ok m = Outcome.ok _ := hm.symm.trans hm2
  have hm4 := Outcome.ok.inj hm3
  obtain ⟨hL1, hL2⟩ := alookup_zipIdx_names s h _ hS1
  rw [← hm4] at hL1 hL2
  -- the definition
  have hnames : s.getAllNodeNames = s.names := rfl
  have hlen : s.names.length = s.nodesVec.length := C03.names_length s
  intro v
  rw [bcSpec_unfold, hnames, C09M.alookup_map_self]
  by_cases hv : v ∈ s.names
  · rw [if_pos hv]
    obtain ⟨i, hi, e⟩ := List.getElem_of_mem hv
    have hi' : i < s.nodesVec.length := by rw [← hlen]; exact hi
    have hvi : v = s.nameAt i := by
      have := s.names_nameAt hi'
      rw [List.getElem?_eq_getElem hi, e] at this
      exact Option.some.inj this
    rw [hvi, hL1 i hi', hS2 i, hF2 i hi', hlen]
    congr 2
    rw [sumRat_eq_sum, sum_flatMap_map]
    conv => rhs; rw [s.names_eq_map_nameAt, List.map_map]
    have h0 : getD0 (List.replicate s.nodesVec.length (0 : Rat)) i = 0 := by simp [getD0, hi']
    rw [h0, zero_add]
    apply Bc.sum_map_congr
    intro a ha
    have ha' := List.mem_range.1 ha
    obtain ⟨D, out⟩ := hst a ha'
    exact (spec_source_sum hR ha' out hi').symm
  · rw [if_neg hv]
    exact hL2 v hv

/- ORIGINAL STATEMENT (false as stated: `Store.wf` does not constrain the multiplicity of the entries of a `succVec` row):

   theorem C05_model_eq_spec_unweighted (s : Store) (h : s.wf = true) (normalized : Bool) (m : List (Nat × Rat))
       (hm : s.betweenness false normalized = .ok m) :
       ∀ v, alookup m v = alookup (bcSpec s.getAllNodeNames (s.abs.arcs s.specs.directed false) s.specs.directed normalized) v

   Counterexample (`C05_model_eq_spec_unweighted_counterexample` below): the directed diamond 0→1, 0→2, 1→3, 2→3 built through
   the API, with the entry `(1, none)` of row 0 of `succVec` duplicated by hand.  `wf` still holds (membership and minimum
   weight per neighbour are unchanged) but the BFS counts the arc 0→1 twice: the model answers 2/3, 1/3 for the nodes 1, 2
   where the definition gives 1/2, 1/2.  The corrected theorem adds the hypothesis that a row lists every neighbour other
   than the node itself at most once; `C05_rows_nodup_reachable` shows that every store built through the mutation API
   satisfies it, and `C05_model_eq_spec_unweighted_reachable` is the resulting unconditional statement for all histories. -/

/-- **the model of unweighted betweenness = the definition**, on every well-formed store whose traversal rows list every
    neighbour (other than the node itself) once -/
theorem C05_model_eq_spec_unweighted_corrected (s : Store) (h : s.wf = true)
    (hrows : ∀ v, v < s.nodesVec.length →
      (((s.succVec[v]?.getD []).map (fun a => a.1)).filter (fun j => j != v)).Nodup)
    (normalized : Bool) (m : List (Nat × Rat))
    (hm : s.betweenness false normalized = .ok m) :
    ∀ v, alookup m v = alookup (bcSpec s.getAllNodeNames (s.abs.arcs s.specs.directed false) s.specs.directed normalized) v := by
  have hA := bcUnitArcs_arcsOf (fun v => s.succVec[v]?.getD []) s.nodesVec.length
  have hidx : ∀ v, v < s.nodesVec.length → ∀ a ∈ (fun v => s.succVec[v]?.getD []) v, a.1 < s.nodesVec.length :=
    fun v _ a ha => C03_indexes_in_range s h v a (Or.inl ha)
  refine betweenness_eq_spec_of_stage s h false normalized (cost := fun _ => 1) (κ := 1) (store_ren s h) ?_ m hm
  intro a ha
  obtain ⟨D, out⟩ := Bc.bcBfs_out hA ha hidx hrows
  exact ⟨D, out.toSsOut hA⟩

/-! ## the extra hypothesis holds on every store built through the mutation API -/

/-- well-formed, every traversal row lists every neighbour other than the node itself once, and every traversal weight is
    the weight of a stored edge between the two nodes -/
def Store.wfRows (s : Store) : Prop := s.wf = true ∧ Bc.RowsNd s ∧ Bc.RowsW s

theorem wfRows_addNode (s : Store) (n : Node) (h : s.wfRows) : (s.addNode n).wfRows :=
  ⟨Core_addNode_wf s n h.1, Bc.addNode_rowsNd s n h.2.1, Bc.addNode_rowsW s n (C03.pre_of_wf s h.1) h.2.2⟩

theorem wfRows_addEdge (s : Store) (e : Edge) (h : s.wfRows) : (s.addEdge e).1.wfRows :=
  ⟨Core_addEdge_wf s e h.1, Bc.addEdge_rowsNd s e (C03.pre_of_wf s h.1) h.2.1, Bc.addEdge_rowsW s e h.1 h.2.2⟩

theorem wfRows_addNodes (ns : List Node) : ∀ (s : Store), s.wfRows → (s.addNodes ns).wfRows := by
  induction ns with
  | nil => intro s h; simpa [Store.addNodes] using h
  | cons n ns ih =>
    intro s h
    have := ih (s.addNode n) (wfRows_addNode s n h)
    simpa [Store.addNodes, List.foldl_cons] using this

theorem wfRows_addEdges (es : List Edge) : ∀ (s : Store), s.wfRows → (s.addEdges es).1.wfRows := by
  induction es with
  | nil => intro s h; simpa [Store.addEdges] using h
  | cons e es ih =>
    intro s h
    have hw := wfRows_addEdge s e h
    unfold Store.addEdges
    cases hr : s.addEdge e with
    | mk s' r =>
      rw [hr] at hw
      cases r with
      | none => exact ih s' hw
      | some k => exact hw

theorem wfRows_new (sp : Specs) : (Store.new sp).wfRows :=
  ⟨C01_new_wf sp, Bc.rowsNdV_nil, by
    intro i j x y _ _ a ha _
    have : (Store.new sp).succVec = [] := rfl
    rw [this] at ha
    simp at ha⟩

theorem wfRows_step (s : Store) (op : Op) (h : s.wfRows) : (s.step op).1.wfRows := by
  cases op with
  | addNode n => exact wfRows_addNode s n h
  | addNodes ns => exact wfRows_addNodes ns s h
  | addEdge e => exact wfRows_addEdge s e h
  | addEdgeTuple u v => exact wfRows_addEdge s _ h
  | addEdges es => exact wfRows_addEdges es s h
  | addEdgeTuples es => exact wfRows_addEdges _ s h
  | newFrom ns es =>
    have hall := wfRows_addEdges es _ (wfRows_addNodes ns _ (wfRows_new s.specs))
    simp only [Store.step, Store.newFrom]
    cases hr : ((Store.new s.specs).addNodes ns).addEdges es with
    | mk s' r =>
      rw [hr] at hall
      cases r with
      | none => simpa using hall
      | some k => simpa using h

theorem wfRows_run (sp : Specs) (ops : List Op) : (Store.run sp ops).1.wfRows := by
  unfold Store.run
  have key : ∀ (ops : List Op) (acc : Store × List (Option ErrKind)), acc.1.wfRows →
      (ops.foldl (fun (acc : Store × List (Option ErrKind)) op =>
        let (s', r) := acc.1.step op
        (s', acc.2 ++ [r])) acc).1.wfRows := by
    intro ops
    induction ops with
    | nil => intro acc h; exact h
    | cons op ops ih =>
      intro acc h
      rw [List.foldl_cons]
      exact ih _ (wfRows_step acc.1 op h)
  exact key ops _ (wfRows_new sp)

/-- **every store reachable through the mutation API has duplicate-free traversal rows** (self entries aside) -/
theorem C05_rows_nodup_reachable (sp : Specs) (ops : List Op) :
    ∀ v : Nat, ((((Store.run sp ops).1.succVec[v]?.getD []).map (fun (a : Adj) => a.1)).filter (fun j => j != v)).Nodup :=
  (wfRows_run sp ops).2.1

/-- **the model of unweighted betweenness = the definition, for every GraphSpecs record and every history of API calls** -/
theorem C05_model_eq_spec_unweighted_reachable (sp : Specs) (ops : List Op) (normalized : Bool) (m : List (Nat × Rat))
    (hm : (Store.run sp ops).1.betweenness false normalized = .ok m) :
    ∀ v, alookup m v = alookup (bcSpec (Store.run sp ops).1.getAllNodeNames
      ((Store.run sp ops).1.abs.arcs (Store.run sp ops).1.specs.directed false)
      (Store.run sp ops).1.specs.directed normalized) v :=
  C05_model_eq_spec_unweighted_corrected _ (wfRows_run sp ops).1 (fun v _ => (wfRows_run sp ops).2.1 v) normalized m hm

/-- on a well-formed store the betweenness model never fails (no error, no panic site): it returns a map -/
theorem C05_model_ok (s : Store) (h : s.wf = true) (weighted normalized : Bool) :
    ∃ m, s.betweenness weighted normalized = .ok m := by
  obtain ⟨l, hl⟩ : ∃ l : List Rat, l.length = s.nodesVec.length ∧ s.betweenness weighted normalized =
      l.zipIdx.foldl (fun acc p => do
        let out ← acc
        let nd ← Outcome.ofOption "betweenness: get_node_by_index().unwrap()" (s.getNodeByIndex p.2)
        .ok (ainsert out nd.name p.1)) (.ok []) := by
    have hlen : ∀ (L : List Nat) (bc0 : List Rat), bc0.length = s.nodesVec.length →
        (L.foldl (fun bc src => accumulate bc (if weighted then bcDijkstra (fun v => s.succVec[v]?.getD [])
          s.nodesVec.length s.totalAdj src else bcBfs (fun v => s.succVec[v]?.getD []) s.nodesVec.length src)) bc0).length
          = s.nodesVec.length := by
      intro L
      induction L with
      | nil => intro bc0 h0; exact h0
      | cons a L ih => intro bc0 h0; rw [List.foldl_cons]; exact ih _ (by rw [C05_accumulate_length]; exact h0)
    have h1 := (bcScale_apply s.nodesVec.length normalized s.specs.directed
      ((List.range s.nodesVec.length).foldl (fun bc src =>
        accumulate bc (if weighted then bcDijkstra (fun v => s.succVec[v]?.getD []) s.nodesVec.length s.totalAdj src
          else bcBfs (fun v => s.succVec[v]?.getD []) s.nodesVec.length src))
        (List.replicate s.nodesVec.length 0))).1
    rw [hlen _ _ (by simp)] at h1
    exact ⟨_, h1, rfl⟩
  exact ⟨_, hl.2.trans (Store.betweenness_names s h l hl.1)⟩

/-- the counterexample to the original statement: a well-formed store (not reachable through the API) on which the model and the
    definition disagree -/
def c05BadStore : Store :=
  let s := (Store.run ⟨true, false, true, .keepLast, .create, .drop⟩
    [Op.addNodes [⟨0, none⟩, ⟨1, none⟩, ⟨2, none⟩, ⟨3, none⟩],
     Op.addEdges [⟨0, 1, none, none⟩, ⟨0, 2, none, none⟩, ⟨1, 3, none, none⟩, ⟨2, 3, none, none⟩]]).1
  { s with succVec := [[(1, none), (1, none), (2, none)], [(3, none)], [(3, none)], []] }

theorem C05_model_eq_spec_unweighted_counterexample :
    c05BadStore.wf = true ∧
    (match c05BadStore.betweenness false false with | .ok m => alookup m 1 | _ => none) = some ((2 : Rat) / 3) ∧
    alookup (bcSpec c05BadStore.getAllNodeNames (c05BadStore.abs.arcs c05BadStore.specs.directed false)
      c05BadStore.specs.directed false) 1 = some ((1 : Rat) / 2) := by
  decide +kernel

/-! ## the weighted case (positive weights): `dijkstra` of betweenness.rs -/

/-- the arcs the weighted stage traverses: one per adjacency entry, with the entry's weight -/
def bcCostArcs (adjOf : Nat → List Adj) (n : Nat) : Arcs :=
  (List.range n).flatMap fun v => (adjOf v).map fun a => (v, a.1, Bc.djCost a)

theorem bcCostArcs_arcsOf (adjOf : Nat → List Adj) (n : Nat) : Bc.ArcsOfC adjOf n Bc.djCost (bcCostArcs adjOf n) := by
  intro u w c
  unfold bcCostArcs
  simp only [List.mem_flatMap, List.mem_range, List.mem_map, Prod.mk.injEq]
  constructor
  · rintro ⟨v, hv, a, ha, rfl, rfl, rfl⟩
    exact ⟨hv, a, ha, rfl, rfl⟩
  · rintro ⟨hu, a, ha, rfl, rfl⟩
    exact ⟨u, hu, a, ha, rfl, rfl, rfl⟩

theorem abs_arcs_weighted (s : Store) (x y : Nat) (c : Int) :
    (x, y, c) ∈ s.abs.arcs s.specs.directed true ↔
      ∃ e ∈ s.allEdges, e.w = some c ∧ Abs.sameKey s.specs.directed e x y = true := by
  unfold Abs.arcs Store.abs Abs.sameKey
  simp only [List.mem_flatMap, if_true, Bool.or_eq_true, Bool.and_eq_true, beq_iff_eq, Bool.not_eq_true']
  constructor
  · rintro ⟨e, he, hm⟩
    cases hw : e.w with
    | none => rw [hw] at hm; simp at hm
    | some c' =>
      rw [hw] at hm
      simp only at hm
      cases hd : s.specs.directed
      · rw [hd] at hm
        simp only [Bool.false_eq_true, if_false, List.mem_cons, Prod.mk.injEq, List.not_mem_nil, or_false] at hm
        rcases hm with ⟨rfl, rfl, rfl⟩ | ⟨rfl, rfl, rfl⟩
        · exact ⟨e, he, hw, by simp⟩
        · exact ⟨e, he, hw, by simp⟩
      · rw [hd] at hm
        simp only [if_true, List.mem_cons, Prod.mk.injEq, List.not_mem_nil, or_false] at hm
        obtain ⟨rfl, rfl, rfl⟩ := hm
        exact ⟨e, he, hw, by simp⟩
  · rintro ⟨e, he, hw, hm⟩
    refine ⟨e, he, ?_⟩
    rw [hw]
    simp only
    cases hd : s.specs.directed
    · rw [hd] at hm
      simp only [Bool.false_eq_true, if_false, List.mem_cons, Prod.mk.injEq, List.not_mem_nil, or_false]
      rcases hm with ⟨rfl, rfl⟩ | ⟨⟨_, rfl⟩, rfl⟩
      · simp
      · simp
    · rw [hd] at hm
      simp only [if_true, List.mem_cons, Prod.mk.injEq, List.not_mem_nil, or_false]
      rcases hm with ⟨rfl, rfl⟩ | ⟨⟨h1, _⟩, _⟩
      · simp
      · cases h1

/-! #### the minimum of a list of weights -/

theorem foldl_minW_none (ws : List W) : ws.foldl (fun m x => if W.lt x m then x else m) none = none := by
  induction ws with
  | nil => rfl
  | cons y ys ih =>
    rw [List.foldl_cons]
    have : W.lt y none = false := by cases y <;> rfl
    rw [this]; exact ih

theorem foldl_minW_spec (ws : List W) (w : W) :
    ws.foldl (fun m x => if W.lt x m then x else m) w ∈ w :: ws ∧
    ∀ x ∈ w :: ws, W.lt x (ws.foldl (fun m x => if W.lt x m then x else m) w) = false := by
  induction ws generalizing w with
  | nil =>
    refine ⟨by simp, fun x hx => ?_⟩
    simp at hx; subst hx
    cases x <;> simp [W.lt]
  | cons y ys ih =>
    rw [List.foldl_cons]
    obtain ⟨h1, h2⟩ := ih (if W.lt y w then y else w)
    refine ⟨?_, ?_⟩
    · rcases List.mem_cons.1 h1 with h | h
      · rw [h]
        split
        · simp
        · simp
      · exact List.mem_cons_of_mem _ (List.mem_cons_of_mem _ h)
    · intro x hx
      rcases List.mem_cons.1 hx with hx | hx
      · -- x = w
        subst hx
        by_cases hlt : W.lt y x = true
        · rw [if_pos hlt] at h2 ⊢
          have hy := h2 y (List.mem_cons_self ..)
          cases x with
          | none => cases y <;> simp [W.lt] at hlt
          | some b =>
            cases y with
            | none => simp [W.lt] at hlt
            | some c =>
              simp only [W.lt, decide_eq_true_eq] at hlt
              cases hr : ys.foldl (fun m x => if W.lt x m then x else m) (some c) with
              | none => rfl
              | some d =>
                rw [hr] at hy
                simp only [W.lt, decide_eq_false_iff_not] at hy ⊢
                omega
        · rw [if_neg hlt] at h2 ⊢
          exact h2 x (List.mem_cons_self ..)
      · rcases List.mem_cons.1 hx with hx | hx
        · -- x = y
          subst hx
          by_cases hlt : W.lt x w = true
          · rw [if_pos hlt] at h2 ⊢
            exact h2 x (List.mem_cons_self ..)
          · rw [if_neg hlt] at h2 ⊢
            have hw := h2 w (List.mem_cons_self ..)
            cases x with
            | none => cases (ys.foldl (fun m x => if W.lt x m then x else m) w) <;> rfl
            | some c =>
              cases w with
              | none => rw [foldl_minW_none]; rfl
              | some b =>
                simp only [W.lt, decide_eq_true_eq] at hlt
                cases hr : ys.foldl (fun m x => if W.lt x m then x else m) (some b) with
                | none => rfl
                | some d =>
                  rw [hr] at hw
                  simp only [W.lt, decide_eq_false_iff_not] at hw ⊢
                  omega
        · exact h2 x (List.mem_cons_of_mem _ hx)

theorem minW_spec (l : List W) (m : W) (h : Abs.minW l = some m) : m ∈ l ∧ ∀ x ∈ l, W.lt x m = false := by
  cases l with
  | nil => simp [Abs.minW] at h
  | cons w ws =>
    simp only [Abs.minW, Option.some.injEq] at h
    rw [← h]
    exact foldl_minW_spec ws w

/-- a row that lists every other position at most once has exactly one entry for a listed neighbour -/
theorem filter_fst_singleton (row : List Adj) (i j : Nat) (hij : j ≠ i)
    (hnd : ((row.map (fun a => a.1)).filter (fun k => k != i)).Nodup) (a : Adj) (ha : a ∈ row) (haj : a.1 = j) :
    row.filter (fun b => b.1 == j) = [a] := by
  induction row with
  | nil => cases ha
  | cons b row ih =>
    rw [List.map_cons, List.filter_cons] at hnd
    by_cases hb : b.1 = j
    · have hbi : (b.1 != i) = true := by rw [hb]; simpa using hij
      rw [hbi] at hnd
      simp only [if_true, List.nodup_cons] at hnd
      have hnone : row.filter (fun b => b.1 == j) = [] := by
        rw [List.filter_eq_nil_iff]
        intro c hc hcj
        apply hnd.1
        rw [List.mem_filter]
        have hcj' : c.1 = j := by simpa using hcj
        exact ⟨List.mem_map.2 ⟨c, hc, by rw [hcj', hb]⟩, hbi⟩
      rw [List.filter_cons, show (b.1 == j) = true by simpa using hb, if_pos rfl, hnone]
      rcases List.mem_cons.1 ha with e | e
      · rw [e]
      · exfalso
        have : a ∈ row.filter (fun b => b.1 == j) := List.mem_filter.2 ⟨e, by simpa using haj⟩
        rw [hnone] at this; cases this
    · have hbj : (b.1 == j) = false := by simpa using hb
      rw [List.filter_cons, hbj]
      simp only [Bool.false_eq_true, if_false]
      have ha' : a ∈ row := by
        rcases List.mem_cons.1 ha with e | e
        · exact absurd (e ▸ haj) hb
        · exact e
      apply ih _ ha'
      split at hnd
      · exact (List.nodup_cons.1 hnd).2
      · exact hnd

/-- the identity renaming for the weighted arcs of the traversal lists -/
theorem bcCostArcs_ren_id (adjOf : Nat → List Adj) (n : Nat) (hidx : ∀ v, v < n → ∀ a ∈ adjOf v, a.1 < n)
    (hpos : ∀ v, v < n → ∀ a ∈ adjOf v, 0 < Bc.djCost a) :
    Bc.Ren n (bcCostArcs adjOf n) (bcCostArcs adjOf n) id := by
  have hA := bcCostArcs_arcsOf adjOf n
  have hlt : ∀ a ∈ bcCostArcs adjOf n, a.1 < n ∧ a.2.1 < n := by
    rintro ⟨u, w, c⟩ ha
    obtain ⟨hu, a', ha', rfl, _⟩ := (hA u w c).1 ha
    exact ⟨hu, hidx u hu a' ha'⟩
  have hposA : Bc.PosArcs (bcCostArcs adjOf n) := by
    rintro ⟨u, w, c⟩ ha
    obtain ⟨hu, a', ha', _, hc⟩ := (hA u w c).1 ha
    simp only
    rw [← hc]; exact hpos u hu a' ha'
  exact
    { inj := fun _ _ _ _ e => e
      ltA := hlt
      posA := hposA
      posB := hposA
      arcsAB := fun _ _ _ _ _ _ h => h
      arcsBA := fun _ _ c _ _ _ h => ⟨c, Int.le_refl _, h⟩
      cover := fun a ha => ⟨a.1, a.2.1, (hlt a ha).1, (hlt a ha).2, rfl, rfl⟩ }

/-- **stage 1 (positive weights)**: after `dijkstra`, S lists exactly the reachable nodes, each once, in non-decreasing distance;
    P[w] is exactly the set of tight predecessors of w; sigma[w] is twice the number of shortest paths from the source to w
    (the stage leaves `sigma[source] = 2`; only ratios of `sigma` are used afterwards) -/
theorem C05_dijkstra_stage (adjOf : Nat → List Adj) (n source total : Nat) (hsrc : source < n)
    (hidx : ∀ v, v < n → ∀ a ∈ adjOf v, a.1 < n)
    (hpos : ∀ v, v < n → ∀ a ∈ adjOf v, 0 < a.2.getD 0)
    (hnd : ∀ v, v < n → (((adjOf v).map (fun a => a.1)).filter (fun j => j != v)).Nodup)
    (htot : Bc.pendN adjOf n (List.replicate n none) ≤ total) :
    let r := bcDijkstra adjOf n total source
    let arcs := bcCostArcs adjOf n
    r.S.Nodup ∧ (∀ v, v ∈ r.S ↔ Reachable arcs source v) ∧
    (∀ (i j : Nat) (di dj : Int), i < j → (∃ x, r.S[i]? = some x ∧ IsDist arcs source x di) → (∃ y, r.S[j]? = some y ∧ IsDist arcs source y dj) → di ≤ dj) ∧
    (∀ w ∈ r.S, ∀ v, v ∈ (r.P[w]?.getD []) ↔ (∃ dv dw c, IsDist arcs source v dv ∧ IsDist arcs source w dw ∧ dv + c = dw ∧ (v, w, c) ∈ arcs)) ∧
    (∀ w ∈ r.S, r.sigma[w]? = some (2 * ((sigmaSpec arcs n source w : Nat) : Rat))) := by
  intro r arcs
  have hA := bcCostArcs_arcsOf adjOf n
  obtain ⟨D, out⟩ := Bc.bcDijkstra_out hA hsrc hidx hpos hnd total htot
  have hR := bcCostArcs_ren_id adjOf n hidx hpos
  refine ⟨out.nd, ?_, ?_, ?_, ?_⟩
  · intro v
    rw [out.memD]
    constructor
    · intro hv
      cases hl : lk D v with
      | none => exact absurd hl hv
      | some d => exact ⟨d, ((out.dist v d).1 hl).1⟩
    · intro hv
      obtain ⟨d, hd⟩ := Bc.isDist_exists_pos out.posA hv
      rw [(out.dist v d).2 hd]; simp
  · rintro i j di dj hij ⟨x, hx, hdx⟩ ⟨y, hy, hdy⟩
    have hi : i < r.S.length := C03.lt_of_getElem? hx
    have hj : j < r.S.length := C03.lt_of_getElem? hy
    have hord := (List.pairwise_iff_getElem.1 out.ord) i j hi hj hij
    have ex : r.S[i] = x := by
      have := List.getElem?_eq_getElem hi
      rw [this] at hx; exact Option.some.inj hx
    have ey : r.S[j] = y := by
      have := List.getElem?_eq_getElem hj
      rw [this] at hy; exact Option.some.inj hy
    rw [ex, ey, Bc.dOf_of_lk ((out.dist x di).2 hdx), Bc.dOf_of_lk ((out.dist y dj).2 hdy)] at hord
    exact hord
  · intro w hw v
    show v ∈ Bc.gP r.P w ↔ _
    rw [out.pMem]
    constructor
    · rintro ⟨hvS, a, ha, ha1, hl⟩
      obtain ⟨_, hlv⟩ := out.dOf_nonneg hvS
      exact ⟨Bc.dOf D v, Bc.dOf D v + Bc.djCost a, Bc.djCost a, (out.dist _ _).1 hlv, (out.dist _ _).1 hl, rfl,
        (hA v w _).2 ⟨out.lt v hvS, a, ha, ha1, rfl⟩⟩
    · rintro ⟨dv, dw, c, hdv, hdw, e, harc⟩
      have hlv := (out.dist _ _).2 hdv
      obtain ⟨_, a, ha, ha1, hc⟩ := (hA v w c).1 harc
      refine ⟨(out.memD v).2 (by rw [hlv]; simp), a, ha, ha1, ?_⟩
      rw [Bc.dOf_of_lk hlv, hc, e]
      exact (out.dist _ _).2 hdw
  · intro w hw
    have hwn := out.lt w hw
    have h1 := out.sigma_eq hR hsrc w hwn
    have h2 : r.sigma[w]? = some (getD0 r.sigma w) := by
      have : w < r.sigma.length := by rw [out.lenS]; exact hwn
      simp [getD0, this]
    rw [h2, h1]
    rfl

/-- **the weighted traversal lists and the weighted abstract arcs carry the same distances** (C03: the entry for a
    neighbour holds the minimum stored weight) -/
theorem store_ren_weighted (s : Store) (h : s.wf = true)
    (hrows : ∀ v, v < s.nodesVec.length →
      (((s.succVec[v]?.getD []).map (fun a => a.1)).filter (fun j => j != v)).Nodup)
    (hwpos : ∀ v, v < s.nodesVec.length → ∀ a ∈ s.succVec[v]?.getD [], 0 < Bc.djCost a)
    (hepos : ∀ e ∈ s.allEdges, ∃ w, e.w = some w ∧ 0 < w) :
    Bc.Ren s.nodesVec.length (bcCostArcs (fun v => s.succVec[v]?.getD []) s.nodesVec.length)
      (s.abs.arcs s.specs.directed true) s.nameAt := by
  have hA := bcCostArcs_arcsOf (fun v => s.succVec[v]?.getD []) s.nodesVec.length
  obtain ⟨hno, heo, _, _⟩ := C09M.wf_parts s h
  have hnd := C03.nodesOk_nodup s hno
  have eP := C03.edgesOk_read s heo
  have hlt : ∀ a ∈ bcCostArcs (fun v => s.succVec[v]?.getD []) s.nodesVec.length,
      a.1 < s.nodesVec.length ∧ a.2.1 < s.nodesVec.length := by
    rintro ⟨u, w, c⟩ ha
    obtain ⟨hu, a', ha', rfl, _⟩ := (hA u w c).1 ha
    exact ⟨hu, C03_indexes_in_range s h u a' (Or.inl ha')⟩
  have hnames : ∀ x ∈ s.names, ∃ i, i < s.nodesVec.length ∧ x = s.nameAt i := by
    intro x hx
    obtain ⟨i, hi, e⟩ := List.getElem_of_mem hx
    have hi' : i < s.nodesVec.length := by rw [← C03.names_length]; exact hi
    refine ⟨i, hi', ?_⟩
    have := s.names_nameAt hi'
    rw [List.getElem?_eq_getElem hi, e] at this
    exact Option.some.inj this
  -- the unique entry for a neighbour carries the minimum stored weight
  have hentry : ∀ i j, i < s.nodesVec.length → j < s.nodesVec.length → i ≠ j → ∀ a ∈ s.succVec[i]?.getD [], a.1 = j →
      Abs.minW ((s.abs.between s.specs.directed (s.nameAt i) (s.nameAt j)).map (·.w)) = some a.2 := by
    intro i j hi hj hij a ha haj
    have h2 := (C03_successors_match_store s h i j _ _ (s.names_nameAt hi) (s.names_nameAt hj)).2 ⟨a.2, by rw [← haj]; exact ha⟩
    rw [filter_fst_singleton _ i j (fun e => hij e.symm) (hrows i hi) a ha haj] at h2
    rw [← h2]; rfl
  have hbetween : ∀ x y (e : Edge), e ∈ s.abs.between s.specs.directed x y ↔
      (e ∈ s.allEdges ∧ Abs.sameKey s.specs.directed e x y = true) := by
    intro x y e
    simp [Abs.between, Store.abs]
  refine
    { inj := fun i j hi hj e => C03.names_inj hnd (s.names_nameAt hi) (by rw [e]; exact s.names_nameAt hj)
      ltA := hlt
      posA := ?_, posB := ?_, arcsAB := ?_, arcsBA := ?_, cover := ?_ }
  · rintro ⟨u, w, c⟩ ha
    obtain ⟨hu, a', ha', _, hc⟩ := (hA u w c).1 ha
    simp only
    rw [← hc]; exact hwpos u hu a' ha'
  · rintro ⟨x, y, c⟩ ha
    obtain ⟨e, he, hw, _⟩ := (abs_arcs_weighted s x y c).1 ha
    obtain ⟨w', hw', hpos⟩ := hepos e he
    rw [hw] at hw'; cases hw'
    exact hpos
  · intro i j c hi hj hij hin
    obtain ⟨_, a, ha, haj, hc⟩ := (hA i j c).1 hin
    have hm := hentry i j hi hj hij a ha haj
    obtain ⟨hmem, _⟩ := minW_spec _ _ hm
    rw [List.mem_map] at hmem
    obtain ⟨e, he, hew⟩ := hmem
    obtain ⟨heA, hkey⟩ := (hbetween _ _ e).1 he
    obtain ⟨w', hw', _⟩ := hepos e heA
    rw [abs_arcs_weighted]
    refine ⟨e, heA, ?_, hkey⟩
    rw [hw']
    have : a.2 = some w' := by rw [← hew, hw']
    simp only [Bc.djCost, this, Option.getD_some] at hc
    rw [hc]
  · intro i j c hi hj hij hin
    obtain ⟨e, heA, hew, hkey⟩ := (abs_arcs_weighted s _ _ c).1 hin
    have hhas : s.hasEdge (s.nameAt i) (s.nameAt j) = true := by
      simp only [Store.hasEdge, List.any_eq_true]
      exact ⟨e, heA, by simpa [Abs.sameKey] using hkey⟩
    obtain ⟨w, hw⟩ := (C03_successors_match_store s h i j _ _ (s.names_nameAt hi) (s.names_nameAt hj)).1.2 hhas
    have hm := hentry i j hi hj hij (j, w) hw rfl
    obtain ⟨_, hle⟩ := minW_spec _ _ hm
    have hlt' := hle e.w (List.mem_map.2 ⟨e, (hbetween _ _ e).2 ⟨heA, hkey⟩, rfl⟩)
    have hcpos := hwpos i hi (j, w) hw
    simp only [Bc.djCost] at hcpos
    cases w with
    | none => simp at hcpos
    | some c' =>
      simp only [Option.getD_some] at hcpos
      rw [hew] at hlt'
      simp only [W.lt, decide_eq_false_iff_not] at hlt'
      exact ⟨c', by omega, (hA i j c').2 ⟨hi, (j, some c'), hw, rfl, rfl⟩⟩
  · rintro ⟨x, y, c⟩ ha
    obtain ⟨e, hein, _, hm⟩ := (abs_arcs_weighted s x y c).1 ha
    have hxy : x ∈ s.names ∧ y ∈ s.names := by
      obtain ⟨kv, hkv, hekv⟩ := (C03.mem_allEdges s e).1 hein
      have hkey := eP.key kv hkv e hekv
      have hl : alookup s.edges kv.1 = some kv.2 := C03.alookup_of_mem _ _ _ eP.nd hkv
      have hin := eP.inN kv.1 kv.2 hl
      rw [← hkey] at hin
      simp only [Abs.sameKey, Bool.or_eq_true, Bool.and_eq_true, beq_iff_eq, Bool.not_eq_true'] at hm
      rcases hm with ⟨rfl, rfl⟩ | ⟨⟨_, rfl⟩, rfl⟩
      · exact hin
      · exact ⟨hin.2, hin.1⟩
    obtain ⟨i, hi, ei⟩ := hnames x hxy.1
    obtain ⟨j, hj, ej⟩ := hnames y hxy.2
    exact ⟨i, j, hi, hj, ei, ej⟩

theorem pendN_le_totalAdj (s : Store) (h : s.wf = true) :
    Bc.pendN (fun v => s.succVec[v]?.getD []) s.nodesVec.length (List.replicate s.nodesVec.length none) ≤ s.totalAdj := by
  obtain ⟨hno, _, _, _⟩ := C09M.wf_parts s h
  have hlen : s.succVec.length = s.nodesVec.length := by
    rw [(C03.nodesOk_len s hno).1, C03.names_length]
  unfold Bc.pendN Store.totalAdj
  rw [C09M.sumNat_eq_sum]
  have : ((List.range s.nodesVec.length).map fun u =>
      if lk (List.replicate s.nodesVec.length none) u = none then ((fun v => s.succVec[v]?.getD []) u).length else 0) =
      s.succVec.map List.length := by
    apply List.ext_getElem?
    intro i
    rw [List.getElem?_map, List.getElem?_map]
    by_cases hi : i < s.nodesVec.length
    · have hi' : i < s.succVec.length := by rw [hlen]; exact hi
      simp [hi, hi', lk_replicate_none]
    · have hi' : s.succVec.length ≤ i := by rw [hlen]; omega
      simp [List.getElem?_eq_none hi', hi]
  rw [this]

/-- **the model of weighted betweenness = the definition** (positive weights): on every well-formed store whose traversal
    rows list every other neighbour once and carry positive weights, all stored weights being positive -/
theorem C05_model_eq_spec_weighted (s : Store) (h : s.wf = true)
    (hrows : ∀ v, v < s.nodesVec.length →
      (((s.succVec[v]?.getD []).map (fun a => a.1)).filter (fun j => j != v)).Nodup)
    (hwpos : ∀ v, v < s.nodesVec.length → ∀ a ∈ s.succVec[v]?.getD [], 0 < a.2.getD 0)
    (hepos : ∀ e ∈ s.allEdges, ∃ w, e.w = some w ∧ 0 < w)
    (normalized : Bool) (m : List (Nat × Rat))
    (hm : s.betweenness true normalized = .ok m) :
    ∀ v, alookup m v = alookup (bcSpec s.getAllNodeNames (s.abs.arcs s.specs.directed true) s.specs.directed normalized) v := by
  have hA := bcCostArcs_arcsOf (fun v => s.succVec[v]?.getD []) s.nodesVec.length
  have hidx : ∀ v, v < s.nodesVec.length → ∀ a ∈ (fun v => s.succVec[v]?.getD []) v, a.1 < s.nodesVec.length :=
    fun v _ a ha => C03_indexes_in_range s h v a (Or.inl ha)
  refine betweenness_eq_spec_of_stage s h true normalized (cost := Bc.djCost) (κ := 2)
    (store_ren_weighted s h hrows hwpos hepos) ?_ m hm
  intro a ha
  exact Bc.bcDijkstra_out hA ha hidx hwpos hrows s.totalAdj (pendN_le_totalAdj s h)

/-! ## the meaning of the definition's enumeration -/

/-- **the definition enumerates every shortest path exactly once** (hop counts): for every node `x` of a well-formed store
    and every target `t`, the list `tightPaths` used by `bcSpec` has no duplicates and contains exactly the node sequences
    from `x` to `t` that `walkCost` accepts with the distance as their cost -/
theorem C05_spec_enumerates_shortest_paths (s : Store) (h : s.wf = true) (x : Nat) (hx : x ∈ s.getAllNodeNames) (t : Nat) :
    let B := s.abs.arcs s.specs.directed false
    let n := s.getAllNodeNames.length
    (Arcs.tightPaths B (Arcs.distFrom B n x) x n t).Nodup ∧
    ∀ p, p ∈ Arcs.tightPaths B (Arcs.distFrom B n x) x n t ↔ Bc.ShortestPath B x t p := by
  intro B n
  have hR := store_ren s h
  have hn : n = s.nodesVec.length := C03.names_length s
  obtain ⟨i, hi, e⟩ := List.getElem_of_mem hx
  have hi' : i < s.nodesVec.length := by rw [← hn]; exact hi
  have hxi : x = s.nameAt i := by
    have := s.names_nameAt hi'
    have h2 : s.names[i]? = some x := by
      show s.getAllNodeNames[i]? = some x
      rw [List.getElem?_eq_getElem hi]; exact congrArg some e
    rw [h2] at this
    exact Option.some.inj this
  rw [hn, hxi]
  have hU : Bc.UnitArcs B := by
    rintro ⟨x', y', c⟩ ha
    exact ((abs_arcs_unweighted s x' y' c).1 ha).1
  refine Bc.tightPaths_exact hU (hR.exactD hi') _ ?_ t
  intro t' k hk
  have := Bc.isDist_lt_nodes hU ((List.range s.nodesVec.length).map s.nameAt)
    (List.mem_map.2 ⟨i, List.mem_range.2 hi', rfl⟩) hR.nodes_cover hk
  simpa using this

/-- the same over positions: `sigmaSpec` counts the shortest paths of the traversal lists -/
theorem C05_sigmaSpec_counts_shortest_paths (adjOf : Nat → List Adj) (n source : Nat) (hsrc : source < n)
    (hidx : ∀ v, v < n → ∀ a ∈ adjOf v, a.1 < n) (t : Nat) :
    let arcs := bcUnitArcs adjOf n
    ∃ l : List (List Nat), l.Nodup ∧ (∀ p, p ∈ l ↔ Bc.ShortestPath arcs source t p) ∧ sigmaSpec arcs n source t = l.length := by
  intro arcs
  have hR := bcUnitArcs_ren_id adjOf n hidx
  have hU := (bcUnitArcs_arcsOf adjOf n).unit
  have hn : ∀ t' k, IsDist arcs source t' k → k < (n : Int) := by
    intro t' k hk
    have := Bc.isDist_lt_nodes hU ((List.range n).map id)
      (List.mem_map.2 ⟨source, List.mem_range.2 hsrc, rfl⟩) hR.nodes_cover hk
    simpa using this
  have := Bc.tightPaths_exact hU (hR.exactD hsrc) n hn t
  exact ⟨_, this.1, this.2, rfl⟩

/-! ## the weighted case on every store built through the mutation API -/

/-- with all stored weights positive, all traversal weights are positive (every traversal weight is a stored weight) -/
theorem traversal_weights_pos (s : Store) (h : s.wfRows) (hepos : ∀ e ∈ s.allEdges, ∃ w, e.w = some w ∧ 0 < w) :
    ∀ v, v < s.nodesVec.length → ∀ a ∈ s.succVec[v]?.getD [], 0 < a.2.getD 0 := by
  intro v hv a ha
  have hj := C03_indexes_in_range s h.1 v a (Or.inl ha)
  obtain ⟨e, he, _, hw⟩ := h.2.2 v a.1 _ _ (s.names_nameAt hv) (s.names_nameAt hj) a ha rfl
  obtain ⟨w, hw', hpos⟩ := hepos e he
  rw [← hw, hw']
  exact hpos

/-- **the model of weighted betweenness = the definition, for every GraphSpecs record and every history of API calls that
    leaves only positive weights in the graph** -/
theorem C05_model_eq_spec_weighted_reachable (sp : Specs) (ops : List Op)
    (hepos : ∀ e ∈ (Store.run sp ops).1.allEdges, ∃ w, e.w = some w ∧ 0 < w)
    (normalized : Bool) (m : List (Nat × Rat))
    (hm : (Store.run sp ops).1.betweenness true normalized = .ok m) :
    ∀ v, alookup m v = alookup (bcSpec (Store.run sp ops).1.getAllNodeNames
      ((Store.run sp ops).1.abs.arcs (Store.run sp ops).1.specs.directed true)
      (Store.run sp ops).1.specs.directed normalized) v :=
  C05_model_eq_spec_weighted _ (wfRows_run sp ops).1 (fun v _ => (wfRows_run sp ops).2.1 v)
    (traversal_weights_pos _ (wfRows_run sp ops) hepos) hepos normalized m hm

/-- the keys of the model's answer are the node names, each once -/
theorem betweenness_keys (s : Store) (h : s.wf = true) (weighted normalized : Bool) (out : List (Nat × Rat))
    (hm : s.betweenness weighted normalized = .ok out) : out.map (·.1) = s.names := by
  obtain ⟨l, hl1, hl2⟩ : ∃ l : List Rat, l.length = s.nodesVec.length ∧
      out = l.zipIdx.map fun p => (s.nameAt p.2, p.1) := by
    have hlen : ∀ (L : List Nat) (bc0 : List Rat), bc0.length = s.nodesVec.length →
        (L.foldl (fun bc src => accumulate bc (if weighted then bcDijkstra (fun v => s.succVec[v]?.getD [])
          s.nodesVec.length s.totalAdj src else bcBfs (fun v => s.succVec[v]?.getD []) s.nodesVec.length src)) bc0).length
          = s.nodesVec.length := by
      intro L
      induction L with
      | nil => intro bc0 h0; exact h0
      | cons a L ih => intro bc0 h0; rw [List.foldl_cons]; exact ih _ (by rw [C05_accumulate_length]; exact h0)
    have h1 := (bcScale_apply s.nodesVec.length normalized s.specs.directed
      ((List.range s.nodesVec.length).foldl (fun bc src =>
        accumulate bc (if weighted then bcDijkstra (fun v => s.succVec[v]?.getD []) s.nodesVec.length s.totalAdj src
          else bcBfs (fun v => s.succVec[v]?.getD []) s.nodesVec.length src))
        (List.replicate s.nodesVec.length 0))).1
    rw [hlen _ _ (by simp)] at h1
    have h2 := Store.betweenness_names s h _ h1
    have h3 : Outcome.ok out = Outcome.ok _ := hm.symm.trans h2
    exact ⟨_, h1, Outcome.ok.inj h3⟩
  rw [hl2, List.map_map, Store.names_eq_map_nameAt]
  have : ((fun x : Nat × Rat => x.1) ∘ fun p : Rat × Nat => (s.nameAt p.2, p.1)) =
      s.nameAt ∘ (fun p : Rat × Nat => p.2) := rfl
  rw [this, ← List.map_map, List.zipIdx_map_snd, hl1, List.range_eq_range']

/-- **`C05_full_statement` (Props/C05.lean) on every store built through the mutation API**: with hop counts, or with positive
    weights, every entry of the model's answer is the value of the definition.  (The statement in Props/C05.lean quantifies
    over arbitrary `Store` records, which is too much: it needs the coupling invariant and the row facts proved above.) -/
theorem C05_full_statement_reachable (sp : Specs) (ops : List Op) (weighted normalized : Bool)
    (hw : weighted = true → ∀ e ∈ (Store.run sp ops).1.allEdges, ∃ w, e.w = some w ∧ 0 < w)
    (out : List (Nat × Rat)) (hm : (Store.run sp ops).1.betweenness weighted normalized = .ok out) :
    ∀ kv ∈ out, alookup (bcSpec (Store.run sp ops).1.getAllNodeNames
      ((Store.run sp ops).1.abs.arcs (Store.run sp ops).1.specs.directed weighted)
      (Store.run sp ops).1.specs.directed normalized) kv.1 = some kv.2 := by
  intro kv hkv
  have hwr := wfRows_run sp ops
  obtain ⟨hno, _, _, _⟩ := C09M.wf_parts _ hwr.1
  have hnd := C03.nodesOk_nodup _ hno
  have hkeys := betweenness_keys _ hwr.1 weighted normalized out hm
  have hlook : alookup out kv.1 = some kv.2 := C03.alookup_of_mem _ _ _ (by rw [hkeys]; exact hnd) hkv
  cases weighted with
  | false => rw [← C05_model_eq_spec_unweighted_reachable sp ops normalized out hm kv.1]; exact hlook
  | true => rw [← C05_model_eq_spec_weighted_reachable sp ops (hw rfl) normalized out hm kv.1]; exact hlook

/-- the unweighted instance, unconditionally for all histories -/
theorem C05_full_statement_unweighted_reachable (sp : Specs) (ops : List Op) (normalized : Bool) (out : List (Nat × Rat))
    (hm : (Store.run sp ops).1.betweenness false normalized = .ok out) :
    ∀ kv ∈ out, alookup (bcSpec (Store.run sp ops).1.getAllNodeNames
      ((Store.run sp ops).1.abs.arcs (Store.run sp ops).1.specs.directed false)
      (Store.run sp ops).1.specs.directed normalized) kv.1 = some kv.2 :=
  C05_full_statement_reachable sp ops false normalized (fun h => by cases h) out hm

end Graphrs
