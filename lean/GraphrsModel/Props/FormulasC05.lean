/-
  Source tie for C05 (translator `tools/formulas.py`): `get_scale` of src/algorithms/centrality/betweenness.rs,
  regenerated into `Generated/FormulasC05.lean`, is the model's `bcScale`.
-/
import GraphrsModel.Generated.FormulasC05
import GraphrsModel.Model.Centrality
import Mathlib.Tactic.Ring
import Mathlib.Algebra.Order.Field.Rat
namespace Graphrs

theorem C05_src_scale (n : Nat) (normalized directed : Bool) :
    bcScale n normalized directed =
      (if normalized then (if Src.C05.scaleTrivial n = true then none else some (Src.C05.scaleNormalized n))
       else if directed then none else some Src.C05.scaleUndirected) := by
  unfold bcScale Src.C05.scaleTrivial Src.C05.scaleNormalized Src.C05.scaleUndirected
  simp only [decide_eq_true_eq]

end Graphrs
