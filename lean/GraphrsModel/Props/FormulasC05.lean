/-
  Source tie for C05 (translator `tools/formulas.py`): `get_scale` of src/algorithms/centrality/betweenness.rs,
  regenerated into `Generated/FormulasC05.lean`, is the model's `bcScale`.
-/
import GraphrsModel.Generated.FormulasC05
import GraphrsModel.Model.Centrality
import Mathlib.Tactic.Ring
import Mathlib.Algebra.Order.Field.Rat
import Mathlib.Data.Rat.Cast.Order
namespace Graphrs

theorem C05_src_scale (n : Nat) (normalized directed : Bool) :
    bcScale n normalized directed =
      (if normalized then (if Src.C05.scaleTrivial n = true then none else some (Src.C05.scaleNormalized n))
       else if directed then none else some Src.C05.scaleUndirected) := by
  unfold bcScale Src.C05.scaleTrivial Src.C05.scaleNormalized Src.C05.scaleUndirected
  simp only [decide_eq_true_eq]

/-- `accumulate_betweenness` with the coefficient, the dependency increment and the endpoint test taken from the source -/
def accumulateSrc (bc : List Rat) (r : SSR) : List Rat :=
  let (bc, _) := r.S.reverse.foldl (fun (acc : List Rat × List Rat) w =>
    let (bc, delta) := acc
    let coeff := Src.C05.accCoeff (getD0 delta w) (getD0 r.sigma w)
    let delta := (r.P[w]?.getD []).foldl (fun delta v => delta.set v (getD0 delta v + Src.C05.accDelta (getD0 r.sigma v) coeff)) delta
    let bc := if Src.C05.accSkipSource w r.source then bc.set w (getD0 bc w + getD0 delta w) else bc
    (bc, delta)) (bc, List.replicate bc.length (0 : Rat))
  bc

/-- **Brandes' accumulation in the model is the source's**: `coeff = (1 + δ[w]) / σ[w]`, `δ[v] += σ[v]·coeff`, and the
    source is never credited -/
theorem C05_src_accumulate (bc : List Rat) (r : SSR) : accumulate bc r = accumulateSrc bc r := by
  unfold accumulate accumulateSrc Src.C05.accCoeff Src.C05.accDelta Src.C05.accSkipSource
  simp only [bne_iff_ne, ne_eq, decide_not, Bool.not_eq_eq_eq_not, Bool.not_true, decide_eq_false_iff_not]


/-! ### the weighted search stage: the tests of the source, with `f64::MAX` as the "not yet" sentinel -/

/-- how the model's `Option` reads as the f64 of the code: `none` is the sentinel `f64::MAX` -/
def C05emb (fmax : Rat) : Option Int → Rat
  | none => fmax
  | some x => (x : Rat)

theorem C05_src_stageDist (dist cost : Int) : ((dist + cost : Int) : Rat) = Src.C05.stageDist dist cost := by
  unfold Src.C05.stageDist; push_cast; ring

/-- **the improvement test of the model is the source's** `D[w] == f64::MAX && (seen[w] == f64::MAX || vw_dist < seen[w])`,
    for every value `fmax` of the sentinel that no stored label takes -/
theorem C05_src_stageImproves (fmax : Rat) (dW seenW : Option Int) (vw : Int)
    (hd : ∀ x, dW = some x → (x : Rat) ≠ fmax) (hs : ∀ x, seenW = some x → (x : Rat) ≠ fmax) :
    (dW.isNone && (match seenW with | none => true | some sw => decide (vw < sw)))
      = Src.C05.stageImproves (C05emb fmax dW) (C05emb fmax seenW) (vw : Rat) fmax := by
  unfold Src.C05.stageImproves
  cases dW with
  | some x => simp [C05emb, hd x rfl]
  | none =>
    cases seenW with
    | none => simp [C05emb]
    | some sw => simp [C05emb, hs sw rfl, Int.cast_lt]

/-- the tie test `vw_dist == seen[w]` (a tentative distance is never the sentinel) -/
theorem C05_src_stageTie (fmax : Rat) (seenW : Option Int) (vw : Int) (hv : (vw : Rat) ≠ fmax) :
    (seenW == some vw) = Src.C05.stageTie (vw : Rat) (C05emb fmax seenW) := by
  unfold Src.C05.stageTie
  cases seenW with
  | none => simp [C05emb, hv]
  | some sw =>
    rw [Bool.eq_iff_iff]
    simp only [C05emb, beq_iff_eq, Option.some.injEq, decide_eq_true_eq, Int.cast_inj]
    exact eq_comm

/-- the path-count bookkeeping: reset to `0.0` when a strictly shorter route is found (dropping this reset is the defect class
    of seeds S07 / S106 / S211), `sigma[w] += sigma[v]` on a tie -/
theorem C05_src_stageSigma (sw sv : Rat) : (0 : Rat) = Src.C05.stageSigmaReset ∧ sw + sv = sw + Src.C05.stageSigmaTie sv := by
  unfold Src.C05.stageSigmaReset Src.C05.stageSigmaTie; exact ⟨rfl, rfl⟩

end Graphrs
