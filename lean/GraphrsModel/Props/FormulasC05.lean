/-
  Source tie for C05 (translator `tools/formulas.py`): `get_scale` of src/algorithms/centrality/betweenness.rs,
  regenerated into `Generated/FormulasC05.lean`, is the model's `bcScale`.
-/
import GraphrsModel.Generated.FormulasC05
import GraphrsModel.Model.Centrality
import Mathlib.Tactic.Ring
import Mathlib.Algebra.Order.Field.Rat
namespace Graphrs

theorem C05_src_scale (n : Nat) (normalized directed : Bool) :
    bcScale n normalized directed =
      (if normalized then (if Src.C05.scaleTrivial n = true then none else some (Src.C05.scaleNormalized n))
       else if directed then none else some Src.C05.scaleUndirected) := by
  unfold bcScale Src.C05.scaleTrivial Src.C05.scaleNormalized Src.C05.scaleUndirected
  simp only [decide_eq_true_eq]

/-- `accumulate_betweenness` with the coefficient, the dependency increment and the endpoint test taken from the source -/
def accumulateSrc (bc : List Rat) (r : SSR) : List Rat :=
  let (bc, _) := r.S.reverse.foldl (fun (acc : List Rat × List Rat) w =>
    let (bc, delta) := acc
    let coeff := Src.C05.accCoeff (getD0 delta w) (getD0 r.sigma w)
    let delta := (r.P[w]?.getD []).foldl (fun delta v => delta.set v (getD0 delta v + Src.C05.accDelta (getD0 r.sigma v) coeff)) delta
    let bc := if Src.C05.accSkipSource w r.source then bc.set w (getD0 bc w + getD0 delta w) else bc
    (bc, delta)) (bc, List.replicate bc.length (0 : Rat))
  bc

/-- **Brandes' accumulation in the model is the source's**: `coeff = (1 + δ[w]) / σ[w]`, `δ[v] += σ[v]·coeff`, and the
    source is never credited -/
theorem C05_src_accumulate (bc : List Rat) (r : SSR) : accumulate bc r = accumulateSrc bc r := by
  unfold accumulate accumulateSrc Src.C05.accCoeff Src.C05.accDelta Src.C05.accSkipSource
  simp only [bne_iff_ne, ne_eq, decide_not, Bool.not_eq_eq_eq_not, Bool.not_true, decide_eq_false_iff_not]

end Graphrs
