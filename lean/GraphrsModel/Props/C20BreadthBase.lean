/-
  C20 breadth, part 0: the combinators the breadth theorems share.

  * `isPanic = false` through `bind`, through `Outcome` folds (with an invariant on the accumulator) and through
    `unwrap` / `map'` / `namesOf`;
  * on a well-formed store every name a neighbour query returns is a node of the graph (so the next query on it
    cannot fail either).
-/
import GraphrsModel.Props.C20
import GraphrsModel.Props.C18Model
import GraphrsModel.Model.Cluster
import GraphrsModel.Lemmas.C10Base
namespace Graphrs
namespace C20B

/-! ### outcomes -/

theorem np_ok {α} (a : α) : (Outcome.ok a).isPanic = false := rfl
theorem np_err {α} (k : ErrKind) : (Outcome.err k : Outcome α).isPanic = false := rfl

theorem np_of_ok {α} {o : Outcome α} (h : ∃ v, o = .ok v) : o.isPanic = false := by
  obtain ⟨v, rfl⟩ := h; rfl

theorem np_of_eq_ok {α} {o : Outcome α} {v : α} (h : o = .ok v) : o.isPanic = false := by
  subst h; rfl

theorem np_of_eq_err {α} {o : Outcome α} {k : ErrKind} (h : o = .err k) : o.isPanic = false := by
  subst h; rfl

/-- `x >>= f` does not panic when `x` does not and `f` does not on the value of `x` -/
theorem np_bind {α β} {x : Outcome α} {f : α → Outcome β} (hx : x.isPanic = false)
    (hf : ∀ a, x = .ok a → (f a).isPanic = false) : (x >>= f).isPanic = false := by
  cases x with
  | ok a => exact hf a rfl
  | err k => rfl
  | panic s => cases hx

theorem np_bind' {α β} {x : Outcome α} {f : α → Outcome β} (hx : x.isPanic = false)
    (hf : ∀ a, x = .ok a → (f a).isPanic = false) : (Outcome.bind x f).isPanic = false :=
  np_bind hx hf

/-- an `Outcome`-valued fold: if one step from an `ok` accumulator satisfying `P` neither panics nor leaves `P`, and an
    error accumulator stays an error, the fold does not panic and its value satisfies `P` -/
theorem np_foldl {α β} (l : List α) (step : Outcome β → α → Outcome β) (P : β → Prop)
    (hstep : ∀ b a, a ∈ l → P b → (step (.ok b) a).isPanic = false ∧ ∀ b', step (.ok b) a = .ok b' → P b')
    (herr : ∀ k a, step (.err k) a = .err k) (init : Outcome β)
    (hinit : init.isPanic = false ∧ ∀ b, init = .ok b → P b) :
    (l.foldl step init).isPanic = false ∧ ∀ b', l.foldl step init = .ok b' → P b' := by
  induction l generalizing init with
  | nil => exact hinit
  | cons a l ih =>
    rw [List.foldl_cons]
    apply ih (fun b a' ha' => hstep b a' (List.mem_cons_of_mem _ ha'))
    cases init with
    | ok b => exact hstep b a (by simp) (hinit.2 b rfl)
    | err k => rw [herr]; exact ⟨rfl, fun b h => by cases h⟩
    | panic s => exact absurd hinit.1 (by simp [Outcome.isPanic])

/-- the same without an invariant -/
theorem np_foldl' {α β} (l : List α) (step : Outcome β → α → Outcome β)
    (hstep : ∀ b a, a ∈ l → (step (.ok b) a).isPanic = false)
    (herr : ∀ k a, step (.err k) a = .err k) (b0 : β) :
    (l.foldl step (.ok b0)).isPanic = false :=
  (np_foldl l step (fun _ => True) (fun b a ha _ => ⟨hstep b a ha, fun _ _ => trivial⟩) herr (.ok b0)
    ⟨rfl, fun _ _ => trivial⟩).1

theorem np_map' {α β} (f : α → β) {x : Outcome α} (hx : x.isPanic = false) : (x.map' f).isPanic = false := by
  cases x with
  | ok a => rfl
  | err k => rfl
  | panic s => cases hx

theorem unwrap_ok {α} (site : String) {x : Outcome α} {a : α} (h : x = .ok a) : x.unwrap site = .ok a := by
  subst h; rfl

theorem namesOf_ok {x : Outcome (List Node)} {l : List Node} (h : x = .ok l) :
    Store.namesOf x = .ok (l.map (·.name)) := by
  subst h; rfl

/-! ### names -/

theorem hasNode_iff (s : Store) (h : s.wf = true) (x : Nat) : s.hasNode x = true ↔ x ∈ s.names :=
  NP.hasNode_iff (NP.wf_parts' h).1 x

theorem hasNode_false (s : Store) (h : s.wf = true) (x : Nat) : s.hasNode x = false ↔ x ∉ s.names := by
  rw [← hasNode_iff s h x]; simp

theorem hasNodes_iff (s : Store) (h : s.wf = true) (l : List Nat) : s.hasNodes l = true ↔ ∀ x ∈ l, x ∈ s.names := by
  unfold Store.hasNodes
  rw [List.all_eq_true]
  exact forall₂_congr fun x _ => hasNode_iff s h x

theorem hasEdge_names (s : Store) (h : s.wf = true) {x y : Nat} (hxy : s.hasEdge x y = true) :
    x ∈ s.names ∧ y ∈ s.names := by
  obtain ⟨_, he, _, _⟩ := NP.wf_parts' h
  unfold Store.hasEdge at hxy
  rw [List.any_eq_true] at hxy
  obtain ⟨e, hm, hcond⟩ := hxy
  have hv := Store.allEdges_valid he hm
  simp only [Bool.or_eq_true, Bool.and_eq_true, beq_iff_eq] at hcond
  rcases hcond with ⟨h1, h2⟩ | ⟨⟨_, h1⟩, h2⟩
  · rw [← h1, ← h2]; exact ⟨hv.1, hv.2.1⟩
  · rw [← h1, ← h2]; exact ⟨hv.2.1, hv.1⟩

/-- `get_successors_or_neighbors` on an existing name: a value, all of whose names are nodes -/
theorem succOrNbrs (s : Store) (h : s.wf = true) (x : Nat) (hx : x ∈ s.names) :
    ∃ l, s.getSuccessorsOrNeighbors x = .ok l ∧ ∀ y ∈ l.map (·.name), y ∈ s.names := by
  obtain ⟨l, hl, hm, _⟩ := succOrNbrs_ok s h x ((hasNode_iff s h x).2 hx)
  exact ⟨l, hl, fun y hy => (hasEdge_names s h ((hm y).1 hy)).2⟩

/-- `get_neighbor_nodes` on an existing name: a value, all of whose names are nodes -/
theorem nbrNodes (s : Store) (h : s.wf = true) (x : Nat) (hx : x ∈ s.names) :
    ∃ l, s.getNeighborNodes x = .ok l ∧ ∀ y ∈ l.map (·.name), y ∈ s.names := by
  obtain ⟨l, hl, hm, _⟩ := C02_neighborNodes s h x ((hasNode_iff s h x).2 hx)
  refine ⟨l, hl, fun y hy => ?_⟩
  have := (hm y).1 hy
  unfold Abs.nbrs at this
  rw [C02.mem_dedup, List.mem_append] at this
  rcases this with h1 | h1
  · exact (C10M.succ_names s h h1).2
  · exact (C10M.pred_names s h h1).2

end C20B
end Graphrs
