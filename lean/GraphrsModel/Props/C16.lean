/-
  C16 — generators produce the graph family they name.
  * complete_graph: the pair enumerations are exactly the unordered / ordered pairs of distinct nodes, each once;
  * karate_club_graph: the adjacency table extracted from the *current* source (Generated/Karate.lean, regenerated
    on every run) is 34 x 34, symmetric, zero on the diagonal and has 156 ones, i.e. 78 undirected edges;
  * fast_gnp_random_graph: for EVERY sequence of geometric skips the model emits only pairs of distinct nodes in
    range, in strictly increasing slot order - hence no self-loop and no repeated pair (the deterministic content of
    the skipping scheme; the distribution itself is probability theory + library code, see DESIGN.md).
-/
import GraphrsModel.ObsGen
import Mathlib.Tactic.Ring
namespace Graphrs

theorem C16_combos2_mem (n i j : Nat) : (i, j) ∈ combos2 n ↔ i < j ∧ j < n := by
  simp only [combos2, List.mem_flatMap, List.mem_map, List.mem_filter, List.mem_range, Prod.mk.injEq,
    decide_eq_true_eq]
  constructor
  · rintro ⟨a, ha, b, ⟨hb, hab⟩, rfl, rfl⟩; omega
  · rintro ⟨h1, h2⟩; exact ⟨i, by omega, j, ⟨h2, h1⟩, rfl, rfl⟩

private theorem nodup_pairs (n : Nat) (p : Nat → Nat → Bool) :
    ((List.range n).flatMap fun i => ((List.range n).filter (p i)).map fun j => (i, j)).Nodup := by
  unfold List.Nodup
  rw [List.pairwise_flatMap]
  refine ⟨fun i _ => ?_, ?_⟩
  · rw [List.pairwise_map]
    exact List.Pairwise.imp (fun h => by simpa using h) (List.Pairwise.filter _ List.nodup_range)
  · refine List.Pairwise.imp ?_ (List.nodup_range (n := n))
    intro a b hab x hx y hy
    simp only [List.mem_map] at hx hy
    obtain ⟨_, _, rfl⟩ := hx
    obtain ⟨_, _, rfl⟩ := hy
    intro h; exact hab (by simpa using congrArg Prod.fst h)

theorem C16_combos2_nodup (n : Nat) : (combos2 n).Nodup := nodup_pairs n (fun i j => decide (j > i))

theorem C16_perms2_mem (n i j : Nat) : (i, j) ∈ perms2 n ↔ i < n ∧ j < n ∧ i ≠ j := by
  simp only [perms2, List.mem_flatMap, List.mem_map, List.mem_filter, List.mem_range, Prod.mk.injEq,
    bne_iff_ne, ne_eq]
  constructor
  · rintro ⟨a, ha, b, ⟨hb, hab⟩, rfl, rfl⟩; exact ⟨ha, hb, fun h => hab h.symm⟩
  · rintro ⟨h1, h2, h3⟩; exact ⟨i, h1, j, ⟨h2, fun h => h3 h.symm⟩, rfl, rfl⟩

theorem C16_perms2_nodup (n : Nat) : (perms2 n).Nodup := nodup_pairs n (fun i j => j != i)



private theorem addNodes_fresh (a : Abs) (l : List Nat) (hl : l.Nodup) (hf : ∀ x ∈ l, a.hasNode x = false) :
    a.addNodes (l.map fun i => (⟨i, none⟩ : Node)) = { a with nodes := a.nodes ++ l.map fun i => (⟨i, none⟩ : Node) } := by
  induction l generalizing a with
  | nil => simp [Abs.addNodes]
  | cons x l ih =>
    have hnd := List.nodup_cons.mp hl
    have hx := hf x (by simp)
    have h1 : a.addNode ⟨x, none⟩ = { a with nodes := a.nodes ++ [⟨x, none⟩] } := by
      simp [Abs.addNode, hx]
    have := ih (a.addNode ⟨x, none⟩) hnd.2 (by
      intro y hy
      have hy' := hf y (by simp [hy])
      have hne : x ≠ y := fun h => hnd.1 (h ▸ hy)
      rw [h1]
      simp only [Abs.hasNode, List.any_append, List.any_cons, List.any_nil] at hy' ⊢
      simp [hy', hne])
    simp only [Abs.addNodes, List.map_cons, List.foldl_cons] at this ⊢
    rw [this, h1]; simp

private theorem hasNode_range (n x : Nat) (es : List Edge) :
    Abs.hasNode { nodes := (List.range n).map fun i => (⟨i, none⟩ : Node), edges := es } x = decide (x < n) := by
  simp only [Abs.hasNode, List.any_map]
  rw [Bool.eq_iff_iff]
  simp [List.any_eq_true]

private theorem addEdges_fresh (directed : Bool) (a : Abs) (ps : List (Nat × Nat))
    (hloop : ∀ p ∈ ps, p.1 ≠ p.2) (hnode : ∀ p ∈ ps, a.hasNode p.1 = true ∧ a.hasNode p.2 = true)
    (hcanon : ∀ p ∈ ps, directed = false → p.1 ≤ p.2)
    (hfresh : ∀ p ∈ ps, ∀ e ∈ a.edges, Abs.sameKey directed e p.1 p.2 = false)
    (hpw : ps.Pairwise fun p q => Abs.sameKey directed (Edge.tuple p.1 p.2) q.1 q.2 = false) :
    Abs.addEdges (completeSpecs directed) a (ps.map fun p => Edge.tuple p.1 p.2)
      = ({ a with edges := a.edges ++ ps.map fun p => Edge.tuple p.1 p.2 }, none) := by
  induction ps generalizing a with
  | nil => simp [Abs.addEdges]
  | cons p ps ih =>
    have hpw' := List.pairwise_cons.mp hpw
    have hl := hloop p (by simp)
    have hn := hnode p (by simp)
    have hfr := hfresh p (by simp)
    have hc : Abs.canon directed (Edge.tuple p.1 p.2) = Edge.tuple p.1 p.2 := by
      cases directed
      · have := hcanon p (by simp) rfl
        have hng : ¬ ((Edge.tuple p.1 p.2).u > (Edge.tuple p.1 p.2).v) := by
          show ¬ (p.1 > p.2); omega
        simp only [Abs.canon, Edge.ordered, Bool.false_eq_true, if_false, if_neg hng]
      · simp [Abs.canon]
    have hdup : (a.edges.any fun e' => Abs.sameKey directed e' p.1 p.2) = false := by
      rw [List.any_eq_false]; intro e he; simp [hfr e he]
    have h1 : Abs.addEdge (completeSpecs directed) a (Edge.tuple p.1 p.2)
        = ({ a with edges := a.edges ++ [Edge.tuple p.1 p.2] }, none) := by
      have e1 : (Edge.tuple p.1 p.2).u = p.1 := rfl
      have e2 : (Edge.tuple p.1 p.2).v = p.2 := rfl
      simp only [Abs.addEdge, completeSpecs, e1, e2, hn.1, hn.2, hc]
      simp [hl, hn.2]
      intro x hx; exact hfr x hx
    simp only [List.map_cons, Abs.addEdges, h1]
    rw [ih]
    · simp
    · exact fun q hq => hloop q (by simp [hq])
    · intro q hq; have := hnode q (by simp [hq]); simpa [Abs.hasNode] using this
    · exact fun q hq => hcanon q (by simp [hq])
    · intro q hq e he
      simp only [List.mem_append, List.mem_singleton] at he
      rcases he with he | rfl
      · exact hfresh q (by simp [hq]) e he
      · exact hpw'.1 q hq
    · exact hpw'.2

/-- the abstract machine, given the nodes 0..n-1 and the pair enumeration, stores every pair exactly as given -/
theorem C16_complete_abs (n : Nat) (directed : Bool) :
    Abs.addEdges (completeSpecs directed) (({} : Abs).addNodes ((List.range n).map fun i => (⟨i, none⟩ : Node)))
        ((if directed then perms2 n else combos2 n).map fun p => Edge.tuple p.1 p.2) =
      ({ nodes := (List.range n).map fun i => (⟨i, none⟩ : Node),
         edges := (if directed then perms2 n else combos2 n).map fun p => Edge.tuple p.1 p.2 }, none) := by
  rw [addNodes_fresh _ _ List.nodup_range (by intro x _; simp [Abs.hasNode])]
  have hkey : ∀ p q : Nat × Nat, p ≠ q → (directed = false → p.1 < p.2 ∧ q.1 < q.2) →
      Abs.sameKey directed (Edge.tuple p.1 p.2) q.1 q.2 = false := by
    intro p q hne hlt
    have e1 : (Edge.tuple p.1 p.2).u = p.1 := rfl
    have e2 : (Edge.tuple p.1 p.2).v = p.2 := rfl
    have h1 : ¬ (p.1 = q.1 ∧ p.2 = q.2) := fun h => hne (Prod.ext h.1 h.2)
    cases directed
    · have := hlt rfl
      simp only [Abs.sameKey, e1, e2]
      simp; omega
    · simp only [Abs.sameKey, e1, e2]
      simp; omega
  have hnd : (if directed then perms2 n else combos2 n).Nodup := by
    cases directed
    · exact C16_combos2_nodup n
    · exact C16_perms2_nodup n
  have hmem : ∀ p ∈ (if directed then perms2 n else combos2 n),
      p.1 < n ∧ p.2 < n ∧ p.1 ≠ p.2 ∧ (directed = false → p.1 < p.2) := by
    intro p hp
    cases directed
    · have := (C16_combos2_mem n p.1 p.2).mp hp
      exact ⟨by omega, by omega, by omega, fun _ => this.1⟩
    · have := (C16_perms2_mem n p.1 p.2).mp hp
      exact ⟨this.1, this.2.1, this.2.2, fun h => by simp at h⟩
  rw [addEdges_fresh]
  · simp
  · exact fun p hp => (hmem p hp).2.2.1
  · intro p hp
    have := hmem p hp
    simp only [List.nil_append, hasNode_range, decide_eq_true_eq]
    exact ⟨this.1, this.2.1⟩
  · intro p hp hd; have := (hmem p hp).2.2.2 hd; omega
  · intro p _ e he; simp at he
  · refine List.Pairwise.imp_of_mem ?_ hnd
    intro p q hp hq hne
    exact hkey p q hne (fun hd => ⟨(hmem p hp).2.2.2 hd, (hmem q hq).2.2.2 hd⟩)

/-- the Zachary table in the source, as extracted on this run -/
theorem C16_karate_table :
    karateRows.length = 34 ∧ karateRows.all (fun r => r.length == 34) = true ∧
    (List.range 34).all (fun i => (List.range 34).all fun j =>
      ((karateRows[i]?.bind (·[j]?)) == (karateRows[j]?.bind (·[i]?)))) = true ∧
    (List.range 34).all (fun i => (karateRows[i]?.bind (·[i]?)) == some 0) = true ∧
    sumNat (karateRows.map sumNat) = 156 ∧ karateNodeCount = 34 := by
  decide +kernel


/-- slot number of a pair in the undirected scheme (lower triangle, row by row) -/
def slotUnd (p : Int × Int) : Int := p.1 * (p.1 - 1) / 2 + p.2
/-- slot number of a pair in the directed scheme (row-major) -/
def slotDir (n : Int) (p : Int × Int) : Int := p.1 * n + p.2

/-! ### G(n,p): helper lemmas

  Loop invariants.  Undirected: `1 ≤ v`, `-1 ≤ w`, `v < n → w < v`, every emitted pair has slot `≤ slot (v, w)`;
  the row loop preserves `slot (v, w)` (`tri (v+1) + (w - v) = tri v + w`) and the skip raises it by at least one.
  Directed: `0 ≤ v`, `-1 ≤ w`, `v < n → w < n`; the row loop never lowers `v * n + w` and keeps `v ≠ w`.
  Saturation: for `n ≤ i64Max + 1` (undirected) / `n ≤ i64Max` (directed) the additions `w + 1` never saturate
  because `w < n`; for larger `n` the counter `w ≤ i64Max` can never carry `v` up to `n`, so the generator never
  returns `some _` and the statements hold vacuously (`und_big`, `dir_big`). -/

private theorem satAdd_le (a b : Int) : satAdd a b ≤ i64Max := by
  unfold satAdd; split <;> omega
private theorem satAdd_eq (a b : Int) (h : a + b ≤ i64Max) : satAdd a b = a + b := by
  unfold satAdd; split <;> omega
private theorem satAdd_ge (a b : Int) (ha : a ≤ i64Max) (hb : 0 ≤ b) : a ≤ satAdd a b := by
  unfold satAdd; split <;> omega

private def tri (v : Int) : Int := v * (v - 1) / 2
private theorem tri_succ (v : Int) : tri (v + 1) = tri v + v := by
  unfold tri
  have : (v + 1) * (v + 1 - 1) = v * (v - 1) + v * 2 := by ring
  rw [this, Int.add_mul_ediv_right _ _ (by decide)]
private theorem slotUnd_eq (p : Int × Int) : slotUnd p = tri p.1 + p.2 := rfl

private theorem undRow_spec (n : Int) : ∀ (fuel : Nat) (v w v' w' : Int),
    gnpUndRow n fuel v w = (v', w') → 1 ≤ v →
    v ≤ v' ∧ tri v' + w' = tri v + w ∧ (0 ≤ w → 0 ≤ w') ∧ (v ≤ n → v' ≤ n) ∧
    (∀ M : Int, w ≤ M → v ≤ M + 1 → v' ≤ M + 1) ∧
    (n - v < fuel → ¬ (w' ≥ v' ∧ v' < n)) := by
  intro fuel
  induction fuel with
  | zero =>
    intro v w v' w' h hv
    simp only [gnpUndRow, Prod.mk.injEq] at h
    obtain ⟨rfl, rfl⟩ := h
    refine ⟨by omega, rfl, id, id, fun M _ h => h, ?_⟩
    intro h; omega
  | succ fuel ih =>
    intro v w v' w' h hv
    rw [gnpUndRow] at h
    by_cases hc : w ≥ v ∧ v < n
    · rw [if_pos (by simpa using hc)] at h
      obtain ⟨h1, h2, h3, h4, h5, h6⟩ := ih (v + 1) (w - v) v' w' h (by omega)
      rw [tri_succ] at h2
      refine ⟨by omega, by omega, fun h => h3 (by omega), fun _ => h4 (by omega), ?_, fun h => h6 (by omega)⟩
      intro M hM hvM
      exact h5 M (by omega) (by omega)
    · rw [if_neg (by simpa using hc)] at h
      simp only [Prod.mk.injEq] at h
      obtain ⟨rfl, rfl⟩ := h
      exact ⟨by omega, rfl, id, id, fun M _ h => h, fun _ => hc⟩

private theorem und_main (n : Int) (hn : n ≤ i64Max + 1) : ∀ (fuel : Nat) (skips : List Int) (v w : Int)
    (acc es : List (Int × Int)),
    (∀ k ∈ skips, 0 ≤ k) → 1 ≤ v → -1 ≤ w → (v < n → w < v) →
    (∀ p ∈ acc, (0 ≤ p.2 ∧ p.2 < p.1 ∧ p.1 < n) ∧ slotUnd p ≤ tri v + w) →
    acc.Pairwise (fun a b => slotUnd a < slotUnd b) →
    gnpUndirected n fuel skips v w acc = some es →
    (∀ p ∈ es, 0 ≤ p.2 ∧ p.2 < p.1 ∧ p.1 < n) ∧ es.Pairwise (fun a b => slotUnd a < slotUnd b) := by
  intro fuel
  induction fuel with
  | zero => intro skips v w acc es _ _ _ _ _ _ h; simp [gnpUndirected] at h
  | succ fuel ih =>
    intro skips v w acc es hs hv hw hwv hacc hpw h
    unfold gnpUndirected at h
    by_cases hvn : v < n
    · rw [if_pos hvn] at h
      cases skips with
      | nil => simp at h
      | cons sk rest =>
        simp only at h
        have hsk := hs sk (by simp)
        have hwlt := hwv hvn
        have e1 : satAdd w 1 = w + 1 := satAdd_eq _ _ (by omega)
        have hw1 : w + 1 ≤ satAdd (satAdd w 1) sk := by
          rw [e1]; exact satAdd_ge _ _ (by omega) hsk
        generalize satAdd (satAdd w 1) sk = w1 at h hw1
        generalize hrow : gnpUndRow n (n.toNat + 1) v w1 = r at h
        obtain ⟨v', w'⟩ := r
        simp only at h
        obtain ⟨h1, h2, h3, h4, _, h6⟩ := undRow_spec n _ v w1 v' w' hrow hv
        have hexit := h6 (by omega)
        have hw' := h3 (by omega)
        refine ih rest v' w' _ es (fun k hk => hs k (by simp [hk])) (by omega) (by omega)
          (fun h => by omega) ?_ ?_ h
        · intro p hp
          by_cases hv'n : v' < n
          · rw [if_pos hv'n] at hp
            rcases List.mem_append.mp hp with hp | hp
            · have := hacc p hp
              exact ⟨this.1, by omega⟩
            · simp only [List.mem_singleton] at hp
              subst hp
              exact ⟨⟨hw', by omega, hv'n⟩, by rw [slotUnd_eq]⟩
          · rw [if_neg hv'n] at hp
            have := hacc p hp
            exact ⟨this.1, by omega⟩
        · by_cases hv'n : v' < n
          · rw [if_pos hv'n, List.pairwise_append]
            refine ⟨hpw, by simp, ?_⟩
            intro a ha b hb
            simp only [List.mem_singleton] at hb
            subst hb
            have := (hacc a ha).2
            rw [slotUnd_eq (v', w')]; show slotUnd a < tri v' + w'; omega
          · rw [if_neg hv'n]; exact hpw
    · rw [if_neg hvn] at h
      simp only [Option.some.injEq] at h
      subst h
      exact ⟨fun p hp => (hacc p hp).1, hpw⟩

private theorem und_big (n : Int) (hn : i64Max + 1 < n) : ∀ (fuel : Nat) (skips : List Int) (v w : Int)
    (acc : List (Int × Int)), 1 ≤ v → v ≤ i64Max + 1 → gnpUndirected n fuel skips v w acc = none := by
  intro fuel
  induction fuel with
  | zero => intros; simp [gnpUndirected]
  | succ fuel ih =>
    intro skips v w acc hv hvM
    unfold gnpUndirected; rw [if_pos (by omega)]
    cases skips with
    | nil => rfl
    | cons sk rest =>
      simp only
      have hw1 := satAdd_le (satAdd w 1) sk
      generalize satAdd (satAdd w 1) sk = w1 at hw1
      generalize hrow : gnpUndRow n (n.toNat + 1) v w1 = r
      obtain ⟨v', w'⟩ := r
      obtain ⟨h1, _, _, _, h5, _⟩ := undRow_spec n _ v w1 v' w' hrow hv
      exact ih rest v' w' _ (by omega) (h5 i64Max hw1 hvM)

private theorem succ_mul' (v n : Int) : (v + 1) * n = v * n + n := by ring

private theorem dirRow_spec (n : Int) : ∀ (fuel : Nat) (v w v' w' : Int),
    gnpDirRow n fuel v w = (v', w') → 0 ≤ v → 0 ≤ w → v ≠ w →
    v ≤ v' ∧ v * n + w ≤ v' * n + w' ∧ 0 ≤ w' ∧ v' ≠ w' ∧ (v ≤ n → v' ≤ n) ∧
    (n - v < fuel → ¬ (v' < n ∧ n ≤ w')) := by
  intro fuel
  induction fuel with
  | zero =>
    intro v w v' w' h hv hw hne
    simp only [gnpDirRow, Prod.mk.injEq] at h
    obtain ⟨rfl, rfl⟩ := h
    exact ⟨by omega, by omega, hw, hne, id, fun h => by omega⟩
  | succ fuel ih =>
    intro v w v' w' h hv hw hne
    rw [gnpDirRow] at h
    by_cases hc : v < n ∧ n ≤ w
    · rw [if_pos (by simpa using hc)] at h
      simp only at h
      have hm := succ_mul' v n
      by_cases hd : v + 1 = w - n
      · rw [if_pos (by simpa using hd)] at h
        obtain ⟨h1, h2, h3, h4, h5, h6⟩ := ih (v + 1) (w - n + 1) v' w' h (by omega) (by omega) (by omega)
        exact ⟨by omega, by omega, h3, h4, fun _ => h5 (by omega), fun h => h6 (by omega)⟩
      · rw [if_neg (by simpa using hd)] at h
        obtain ⟨h1, h2, h3, h4, h5, h6⟩ := ih (v + 1) (w - n) v' w' h (by omega) (by omega) hd
        exact ⟨by omega, by omega, h3, h4, fun _ => h5 (by omega), fun h => h6 (by omega)⟩
    · rw [if_neg (by simpa using hc)] at h
      simp only [Prod.mk.injEq] at h
      obtain ⟨rfl, rfl⟩ := h
      exact ⟨by omega, by omega, hw, hne, id, fun _ => hc⟩

private theorem dir_main (n : Int) (hn : n ≤ i64Max) : ∀ (fuel : Nat) (skips : List Int) (v w : Int)
    (acc es : List (Int × Int)),
    (∀ k ∈ skips, 0 ≤ k) → 0 ≤ v → -1 ≤ w → (v < n → w < n) →
    (∀ p ∈ acc, (0 ≤ p.1 ∧ p.1 < n ∧ 0 ≤ p.2 ∧ p.2 < n ∧ p.1 ≠ p.2) ∧ slotDir n p ≤ v * n + w) →
    acc.Pairwise (fun a b => slotDir n a < slotDir n b) →
    gnpDirected n fuel skips v w acc = some es →
    (∀ p ∈ es, 0 ≤ p.1 ∧ p.1 < n ∧ 0 ≤ p.2 ∧ p.2 < n ∧ p.1 ≠ p.2) ∧
      es.Pairwise (fun a b => slotDir n a < slotDir n b) := by
  intro fuel
  induction fuel with
  | zero => intro skips v w acc es _ _ _ _ _ _ h; simp [gnpDirected] at h
  | succ fuel ih =>
    intro skips v w acc es hs hv hw hwv hacc hpw h
    unfold gnpDirected at h
    by_cases hvn : v < n
    · rw [if_pos hvn] at h
      cases skips with
      | nil => simp at h
      | cons sk rest =>
        simp only at h
        have hsk := hs sk (by simp)
        have hwlt := hwv hvn
        have e1 : satAdd w 1 = w + 1 := satAdd_eq _ _ (by omega)
        have hw1 : w + 1 ≤ satAdd (satAdd w 1) sk := by
          rw [e1]; exact satAdd_ge _ _ (by omega) hsk
        have hw1' := satAdd_le (satAdd w 1) sk
        generalize satAdd (satAdd w 1) sk = w1 at h hw1 hw1'
        have hw2 : ∃ w2, (if (v == w1) = true then satAdd w1 1 else w1) = w2 ∧ w1 ≤ w2 ∧ v ≠ w2 := by
          by_cases hd : v = w1
          · rw [if_pos (by simpa using hd), satAdd_eq _ _ (by omega)]
            exact ⟨_, rfl, by omega, by omega⟩
          · rw [if_neg (by simpa using hd)]
            exact ⟨_, rfl, by omega, hd⟩
        obtain ⟨w2, e2, hw2, hne2⟩ := hw2
        rw [e2] at h
        generalize hrow : gnpDirRow n (n.toNat + 1) v w2 = r at h
        obtain ⟨v', w'⟩ := r
        simp only at h
        obtain ⟨h1, h2, h3, h4, h5, h6⟩ := dirRow_spec n _ v w2 v' w' hrow hv (by omega) hne2
        have hexit := h6 (by omega)
        refine ih rest v' w' _ es (fun k hk => hs k (by simp [hk])) (by omega) (by omega)
          (fun h => by omega) ?_ ?_ h
        · intro p hp
          by_cases hv'n : v' < n
          · rw [if_pos hv'n] at hp
            rcases List.mem_append.mp hp with hp | hp
            · have := hacc p hp
              exact ⟨this.1, by omega⟩
            · simp only [List.mem_singleton] at hp
              subst hp
              exact ⟨⟨by omega, hv'n, h3, by omega, h4⟩, Int.le_refl _⟩
          · rw [if_neg hv'n] at hp
            have := hacc p hp
            exact ⟨this.1, by omega⟩
        · by_cases hv'n : v' < n
          · rw [if_pos hv'n, List.pairwise_append]
            refine ⟨hpw, by simp, ?_⟩
            intro a ha b hb
            simp only [List.mem_singleton] at hb
            subst hb
            have := (hacc a ha).2
            show slotDir n a < v' * n + w'; omega
          · rw [if_neg hv'n]; exact hpw
    · rw [if_neg hvn] at h
      simp only [Option.some.injEq] at h
      subst h
      exact ⟨fun p hp => (hacc p hp).1, hpw⟩

private theorem dir_big (n : Int) (hn : i64Max < n) : ∀ (fuel : Nat) (skips : List Int) (w : Int)
    (acc : List (Int × Int)), gnpDirected n fuel skips 0 w acc = none := by
  intro fuel
  induction fuel with
  | zero => intros; simp [gnpDirected]
  | succ fuel ih =>
    intro skips w acc
    have hM : (0 : Int) < i64Max := by unfold i64Max; omega
    unfold gnpDirected; rw [if_pos (by omega)]
    cases skips with
    | nil => rfl
    | cons sk rest =>
      simp only
      have hw2 : ∃ w2, (if ((0 : Int) == satAdd (satAdd w 1) sk) = true then satAdd (satAdd (satAdd w 1) sk) 1
          else satAdd (satAdd w 1) sk) = w2 ∧ w2 ≤ i64Max := by
        split
        · exact ⟨_, rfl, satAdd_le _ _⟩
        · exact ⟨_, rfl, satAdd_le _ _⟩
      obtain ⟨w2, e2, hw2⟩ := hw2
      rw [e2]
      have hrow : gnpDirRow n (n.toNat + 1) 0 w2 = (0, w2) := by
        rw [gnpDirRow, if_neg]
        simp; omega
      rw [hrow]
      exact ih rest w2 _


/-- **undirected G(n,p), every skip sequence**: every emitted pair (v, w) has 0 ≤ w < v < n, and pairs come in
    strictly increasing slot order -/
theorem C16_gnp_undirected_structure (n : Int) (skips : List Int) (es : List (Int × Int))
    (hs : ∀ k ∈ skips, 0 ≤ k)
    (h : gnpUndirected n (skips.length + 1) skips 1 (-1) [] = some es) :
    (∀ p ∈ es, 0 ≤ p.2 ∧ p.2 < p.1 ∧ p.1 < n) ∧ es.Pairwise (fun a b => slotUnd a < slotUnd b) := by
  by_cases hn : n ≤ i64Max + 1
  · exact und_main n hn _ skips 1 (-1) [] es hs (by omega) (by omega) (by intro; omega) (by simp) (by simp) h
  · rw [und_big n (by omega) _ skips 1 (-1) [] (by omega) (by unfold i64Max; omega)] at h
    simp at h

/-- **directed G(n,p), every skip sequence**: every emitted pair (v, w) has 0 ≤ v < n, 0 ≤ w < n, v ≠ w, and pairs
    come in strictly increasing slot order -/
theorem C16_gnp_directed_structure (n : Int) (skips : List Int) (es : List (Int × Int))
    (hs : ∀ k ∈ skips, 0 ≤ k)
    (h : gnpDirected n (skips.length + 1) skips 0 (-1) [] = some es) :
    (∀ p ∈ es, 0 ≤ p.1 ∧ p.1 < n ∧ 0 ≤ p.2 ∧ p.2 < n ∧ p.1 ≠ p.2) ∧ es.Pairwise (fun a b => slotDir n a < slotDir n b) := by
  by_cases hn : n ≤ i64Max
  · exact dir_main n hn _ skips 0 (-1) [] es hs (by omega) (by omega) (by intro; omega) (by simp) (by simp) h
  · rw [dir_big n (by omega)] at h
    simp at h

/-- hence no pair is repeated -/
theorem C16_gnp_no_repeats (n : Int) (skips : List Int) (es : List (Int × Int)) (hs : ∀ k ∈ skips, 0 ≤ k) :
    (gnpUndirected n (skips.length + 1) skips 1 (-1) [] = some es → es.Nodup) ∧
    (gnpDirected n (skips.length + 1) skips 0 (-1) [] = some es → es.Nodup) := by
  constructor
  · intro h
    exact ((C16_gnp_undirected_structure n skips es hs h).2).imp (fun hab heq => by rw [heq] at hab; omega)
  · intro h
    exact ((C16_gnp_directed_structure n skips es hs h).2).imp (fun hab heq => by rw [heq] at hab; omega)

/-- non-vacuity: n = 4, skips hit slots 0, 2 and 5 of the lower triangle, then run off the end -/
example : gnpUndirected 4 5 [0, 1, 2, 100] 1 (-1) [] = some [(1, 0), (2, 1), (3, 2)] := by
  decide +kernel

end Graphrs
