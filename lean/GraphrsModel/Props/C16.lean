import GraphrsModel.ObsGen
namespace Graphrs
/-- the table extracted from the current source has 34 rows of 34 entries -/
theorem C16_karate_shape : karateRows.length = 34 ∧ karateRows.all (fun r => r.length == 34) = true := by decide
end Graphrs
