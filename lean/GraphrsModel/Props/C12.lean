/-
  C12 — is_partition accepts exactly the true partitions, and anything else is rejected by
  modularity with NotAPartition.
-/
import GraphrsModel.Model.Community
import Mathlib.Data.List.Perm.Subperm
namespace Graphrs

/-! ### `sinsert` / `dedup` / `sumNat` -/

theorem mem_sinsert {α} [DecidableEq α] (s : List α) (x y : α) :
    y ∈ sinsert s x ↔ y ∈ s ∨ y = x := by
  unfold sinsert
  by_cases h : x ∈ s
  · rw [if_pos h]
    constructor
    · exact Or.inl
    · rintro (h' | rfl)
      · exact h'
      · exact h
  · rw [if_neg h]; simp

theorem nodup_sinsert {α} [DecidableEq α] (s : List α) (x : α) (hs : s.Nodup) :
    (sinsert s x).Nodup := by
  unfold sinsert
  by_cases h : x ∈ s
  · rw [if_pos h]; exact hs
  · rw [if_neg h]
    rw [List.nodup_append]
    refine ⟨hs, by simp, ?_⟩
    intro a ha b hb
    rw [List.mem_singleton] at hb
    subst hb
    intro hab
    subst hab
    exact h ha

theorem mem_foldl_sinsert {α} [DecidableEq α] (l acc : List α) (y : α) :
    y ∈ l.foldl sinsert acc ↔ y ∈ acc ∨ y ∈ l := by
  induction l generalizing acc with
  | nil => simp
  | cons x xs ih =>
    rw [List.foldl_cons, ih, mem_sinsert, List.mem_cons]
    constructor
    · rintro ((h | h) | h)
      · exact Or.inl h
      · exact Or.inr (Or.inl h)
      · exact Or.inr (Or.inr h)
    · rintro (h | h | h)
      · exact Or.inl (Or.inl h)
      · exact Or.inl (Or.inr h)
      · exact Or.inr h

theorem nodup_foldl_sinsert {α} [DecidableEq α] (l acc : List α) (hacc : acc.Nodup) :
    (l.foldl sinsert acc).Nodup := by
  induction l generalizing acc with
  | nil => exact hacc
  | cons x xs ih => exact ih _ (nodup_sinsert acc x hacc)

theorem mem_dedup {α} [DecidableEq α] (l : List α) (y : α) : y ∈ dedup l ↔ y ∈ l := by
  unfold dedup
  rw [mem_foldl_sinsert]
  simp

theorem nodup_dedup {α} [DecidableEq α] (l : List α) : (dedup l).Nodup :=
  nodup_foldl_sinsert l [] List.nodup_nil

theorem dedup_subperm {α} [DecidableEq α] (l : List α) : (dedup l).Subperm l :=
  (nodup_dedup l).subperm (fun x hx => (mem_dedup l x).mp hx)

theorem length_dedup_le {α} [DecidableEq α] (l : List α) : (dedup l).length ≤ l.length :=
  (dedup_subperm l).length_le

theorem length_dedup_eq_iff {α} [DecidableEq α] (l : List α) :
    (dedup l).length = l.length ↔ l.Nodup := by
  constructor
  · intro h
    have hp : (dedup l).Perm l := (dedup_subperm l).perm_of_length_le (Nat.le_of_eq h.symm)
    exact hp.nodup_iff.mp (nodup_dedup l)
  · intro h
    have hp : (dedup l).Perm l :=
      (List.perm_ext_iff_of_nodup (nodup_dedup l) h).mpr (fun x => mem_dedup l x)
    exact hp.length_eq

private theorem foldl_add_eq (l : List Nat) (a : Nat) :
    l.foldl (· + ·) a = a + l.foldl (· + ·) 0 := by
  induction l generalizing a with
  | nil => simp
  | cons x xs ih =>
    rw [List.foldl_cons, List.foldl_cons, ih (a + x), ih (0 + x)]
    omega

theorem sumNat_map_length {α} (comms : List (List α)) :
    sumNat (comms.map List.length) = (comms.flatMap id).length := by
  unfold sumNat
  induction comms with
  | nil => rfl
  | cons c cs ih =>
    rw [List.map_cons, List.foldl_cons, foldl_add_eq, ih, List.flatMap_cons, List.length_append]
    simp

/-- the counting lemma: a duplicate-free list inside a duplicate-free list of the same length
    covers it -/
theorem subset_of_nodup_of_length {α} [DecidableEq α] (l names : List α) (hl : l.Nodup)
    (hsub : ∀ x ∈ l, x ∈ names) (hlen : l.length = names.length) : ∀ x ∈ names, x ∈ l := by
  have hp : l.Perm names := (hl.subperm hsub).perm_of_length_le (Nat.le_of_eq hlen.symm)
  intro x hx
  exact hp.symm.subset hx


/-- The specification predicate is the statement of C12, literally. -/
theorem C12_isPartitionSpec_iff (a : Abs) (comms : List (List Nat)) :
    a.isPartitionSpec comms = true ↔
      ((comms.flatMap id).Nodup ∧ (∀ x ∈ comms.flatMap id, a.hasNode x = true) ∧
       (∀ x ∈ a.nodeNames, x ∈ comms.flatMap id)) := by
  unfold Abs.isPartitionSpec
  simp only [Bool.and_eq_true, beq_iff_eq, List.all_eq_true, List.contains_iff_mem]
  rw [eq_comm, length_dedup_eq_iff]
  exact and_assoc

/-- **The model of the (repaired) `is_partition` accepts exactly the true partitions.**
    Hypotheses: node names are pairwise distinct and `get_node` finds exactly them (both hold on
    every reachable store), and every community is a set. -/
theorem C12_is_partition_iff (s : Store) (comms : List (List Nat))
    (hnd : s.getAllNodeNames.Nodup)
    (hget : ∀ x, (s.getNode x).isSome = true ↔ x ∈ s.getAllNodeNames)
    (hsets : ∀ c ∈ comms, c.Nodup) :
    s.isPartition comms = true ↔
      ((comms.flatMap id).Nodup ∧ (∀ x ∈ comms.flatMap id, x ∈ s.getAllNodeNames) ∧
       (∀ x ∈ s.getAllNodeNames, x ∈ comms.flatMap id)) := by
  -- `hsets` is not needed: the two counts already force every community to be a set
  have _ := hsets
  have hn : s.getAllNodes.length = s.getAllNodeNames.length := by
    simp [Store.getAllNodes, Store.getAllNodeNames]
  have hsum := sumNat_map_length comms
  unfold Store.isPartition
  simp only [Bool.and_eq_true, beq_iff_eq]
  rw [hsum, hn]
  generalize hflat : comms.flatMap id = flat
  generalize hnames : s.getAllNodeNames = names at *
  have hfilt_le := List.length_filter_le (fun n => (s.getNode n).isSome) flat
  have hded_le := length_dedup_le (flat.filter fun n => (s.getNode n).isSome)
  constructor
  · rintro ⟨h1, h2⟩
    have hfl : (flat.filter fun n => (s.getNode n).isSome).length = flat.length := by omega
    have hdl : (dedup (flat.filter fun n => (s.getNode n).isSome)).length
        = (flat.filter fun n => (s.getNode n).isSome).length := by omega
    have hall := List.length_filter_eq_length_iff.mp hfl
    have hfeq : flat.filter (fun n => (s.getNode n).isSome) = flat := List.filter_eq_self.mpr hall
    have hnd_flat : flat.Nodup := by
      have := (length_dedup_eq_iff _).mp hdl
      rwa [hfeq] at this
    have hsub : ∀ x ∈ flat, x ∈ names := fun x hx => (hget x).mp (hall x hx)
    exact ⟨hnd_flat, hsub, subset_of_nodup_of_length flat names hnd_flat hsub h2⟩
  · rintro ⟨hnd_flat, hsub, hcov⟩
    have hp : flat.Perm names :=
      (List.perm_ext_iff_of_nodup hnd_flat hnd).mpr (fun x => ⟨hsub x, hcov x⟩)
    have hfeq : flat.filter (fun n => (s.getNode n).isSome) = flat :=
      List.filter_eq_self.mpr (fun x hx => (hget x).mpr (hsub x hx))
    rw [hfeq, (length_dedup_eq_iff flat).mpr hnd_flat]
    exact ⟨hp.length_eq, hp.length_eq⟩

/-- the counting check of the unrepaired code accepted the family [{a,b},{a}] on nodes {a,b,c}:
    an overlap and an omission cancel -/
theorem C12_old_count_check_unsound :
    let names := [1, 2, 3]
    let comms := [[1, 2], [1]]
    ((comms.flatMap id).filter (fun x => names.contains x)).length = names.length ∧
    sumNat (comms.map List.length) = names.length ∧ ¬ (comms.flatMap id).Nodup := by
  decide

/-- anything that is not a partition is rejected with NotAPartition -/
theorem C12_not_a_partition (s : Store) (comms : List (List Nat)) (weighted : Bool) (res : Rat)
    (h : s.isPartition comms = false) :
    (match s.modularity comms weighted res with | .err .NotAPartition => True | _ => False) := by
  unfold Store.modularity
  simp [h]

end Graphrs
