import GraphrsModel.ObsComm
namespace Graphrs
/-- placeholder while the framework is brought up: replaced by the property theorems -/
theorem C12_coarsens_nil (c : List (List Nat)) : coarsens c [] = true := rfl
end Graphrs
