/-
  C14 — GraphML write-then-read reproduces the graph (event level).

  `Xml.writeEvents` is the sequence of quick-xml events `write_graphml_string` emits and
  `Xml.readLoop` the reader; reading back what was written collects exactly the node names in
  order and exactly the stored edges with their weights (an unweighted edge stays unweighted),
  and the declared directedness - for every store, whatever its contents.
-/
import GraphrsModel.ObsXml
namespace Graphrs
open Xml

/-! ### helper lemmas: the reader loop walked over the writer's output piece by piece -/

private theorem setLastWeight_append (l : List Edge) (e : Edge) (w : W) :
    setLastWeight (l ++ [e]) w = l ++ [{ e with w := w }] := by
  simp [setLastWeight]

/-- the three prefix events: `<graphml>`, the weight `<key/>`, `<graph edgedefault=..>` -/
private theorem read_prefix (d : Bool) (rest : List Event) :
    readLoop {} (Event.start 0 (some []) ::
        Event.empty sKey (some [(sId, sWeight), (sFor, sEdge), (sAttrName, sWeight), (0, 0)]) ::
        Event.start sGraph (some [(sEdgeDefault, if d then sDirected else sUndirected)]) :: rest) =
      readLoop ⟨d, [], [], 0, sWeight, false⟩ rest := by
  cases d <;>
    simp [readLoop, readStep, keyElem, graphElem, attrGet, sNode, sEdge, sKey, sGraph, sData, sId, sFor,
      sAttrName, sEdgeDefault, sWeight, sDirected, sUndirected]

/-- one `<node id=../>` per node -/
private theorem read_nodes (l : List Node) (d : Bool) (ns : List Node) (es : List Edge) (le wk : Nat) (rest : List Event) :
    readLoop ⟨d, ns, es, le, wk, false⟩ (l.map (fun n => Event.empty sNode (some [(sId, n.name)])) ++ rest) =
      readLoop ⟨d, ns ++ l.map (fun n => (⟨n.name, none⟩ : Node)), es, le, wk, false⟩ rest := by
  induction l generalizing ns with
  | nil => simp
  | cons n l ih =>
    simp only [List.map_cons, List.cons_append, readLoop]
    have : readStep ⟨d, ns, es, le, wk, false⟩ (Event.empty sNode (some [(sId, n.name)])) =
        .ok (some ⟨d, ns ++ [⟨n.name, none⟩], es, le, wk, false⟩) := by
      simp [readStep, addNode, attrGet]
    rw [this]
    simp only []
    rw [ih]
    simp

/-- the events the writer emits for one edge -/
private abbrev edgeEvents (e : Edge) : List Event :=
    [Event.start sEdge (some [(sSource, e.u), (sTarget, e.v)])] ++
    (match e.w with
     | none => []
     | some w => [Event.start sData (some [(sKey, sWeight)]), Event.text (some (some w)), Event.endTag sData]) ++
    [Event.endTag sEdge]

private theorem read_edge (e : Edge) (d : Bool) (ns : List Node) (es : List Edge) (le : Nat) (rest : List Event) :
    readLoop ⟨d, ns, es, le, sWeight, false⟩ (edgeEvents e ++ rest) =
      readLoop ⟨d, ns, es ++ [⟨e.u, e.v, e.w, none⟩], sEdge, sWeight, false⟩ rest := by
  obtain ⟨u, v, w, a⟩ := e
  cases w with
  | none =>
    simp [edgeEvents, readLoop, readStep, addEdge, attrGet, sNode, sEdge, sGraph, sSource, sTarget]
  | some w =>
    simp [edgeEvents, readLoop, readStep, addEdge, attrGet, setLastWeight_append, sNode, sEdge, sKey, sGraph, sData,
      sSource, sTarget, sWeight]

private theorem read_edges (l : List Edge) (d : Bool) (ns : List Node) (es : List Edge) (le : Nat) (rest : List Event) :
    ∃ le', readLoop ⟨d, ns, es, le, sWeight, false⟩ (l.flatMap edgeEvents ++ rest) =
      readLoop ⟨d, ns, es ++ l.map (fun e => (⟨e.u, e.v, e.w, none⟩ : Edge)), le', sWeight, false⟩ rest := by
  induction l generalizing es le with
  | nil => exact ⟨le, by simp⟩
  | cons e l ih =>
    obtain ⟨le', h⟩ := ih (es ++ [⟨e.u, e.v, e.w, none⟩]) sEdge
    refine ⟨le', ?_⟩
    rw [List.flatMap_cons, List.append_assoc, read_edge, h]
    simp

/-- `</graph>`, `</graphml>`, `Eof` -/
private theorem read_suffix (st : RState) (h : st.expecting = false) :
    readLoop st [Event.endTag sGraph, Event.endTag 0, Event.eof] = .ok st := by
  obtain ⟨d, ns, es, le, wk, ex⟩ := st
  simp at h; subst h
  simp [readLoop, readStep]

theorem C14_read_write_events (s : Store) :
    ∃ st, readLoop {} (writeEvents s) = .ok st ∧
      st.directed = s.specs.directed ∧
      st.nodes = s.nodesVec.map (fun n => (⟨n.name, none⟩ : Node)) ∧
      st.edges = s.allEdges.map (fun e => (⟨e.u, e.v, e.w, none⟩ : Edge)) := by
  obtain ⟨le', h⟩ := read_edges s.allEdges s.specs.directed
    ([] ++ s.nodesVec.map (fun n => (⟨n.name, none⟩ : Node))) [] 0 [Event.endTag sGraph, Event.endTag 0, Event.eof]
  refine ⟨⟨s.specs.directed, s.nodesVec.map (fun n => (⟨n.name, none⟩ : Node)),
    s.allEdges.map (fun e => (⟨e.u, e.v, e.w, none⟩ : Edge)), le', sWeight, false⟩, ?_, rfl, rfl, rfl⟩
  have hw : writeEvents s =
      Event.start 0 (some []) ::
      Event.empty sKey (some [(sId, sWeight), (sFor, sEdge), (sAttrName, sWeight), (0, 0)]) ::
      Event.start sGraph (some [(sEdgeDefault, if s.specs.directed then sDirected else sUndirected)]) ::
      (s.nodesVec.map (fun n => Event.empty sNode (some [(sId, n.name)])) ++
        (s.allEdges.flatMap edgeEvents ++ [Event.endTag sGraph, Event.endTag 0, Event.eof])) := by
    unfold writeEvents
    simp only [List.append_assoc]
    rfl
  rw [hw, read_prefix, read_nodes, h, read_suffix _ rfl]
  simp

/-- hence the read-back graph is `new_from_nodes_and_edges` of the original's nodes and stored edges under the same specs -/
theorem C14_roundtrip_is_rebuild (s : Store) :
    readEvents s.specs (writeEvents s) =
      Store.newFrom s.specs (s.nodesVec.map (fun n => (⟨n.name, none⟩ : Node)))
        (s.allEdges.map (fun e => (⟨e.u, e.v, e.w, none⟩ : Edge))) := by
  obtain ⟨st, h, hd, hn, he⟩ := C14_read_write_events s
  unfold readEvents
  rw [h]
  simp only [hd, hn, he]

/-- Boolean form of the comparison in the non-vacuity example -/
private def sameNE : Outcome Store → List Node → List Edge → Bool
  | .ok t, ns, es => t.nodesVec == ns && t.allEdges == es
  | _, _, _ => false

private theorem sameNE_sound (r : Outcome Store) (ns : List Node) (es : List Edge) (h : sameNE r ns es = true) :
    ∃ t, r = .ok t ∧ t.nodesVec = ns ∧ t.allEdges = es := by
  cases r <;> simp [sameNE] at h
  exact ⟨_, rfl, h⟩

/-- non-vacuity: parallel edges, a self-loop and an unweighted edge.
    (A single `decide` on the whole statement times out: the unevaluated store term is duplicated into every
    projection. The proof evaluates the history once, uses `C14_roundtrip_is_rebuild`, then evaluates the rebuild.) -/
example :
    let sp : Specs := ⟨false, true, true, .error, .create, .error⟩
    let s := (Store.run sp [Op.addEdge ⟨7, 3, some 1, none⟩, Op.addEdge ⟨3, 7, some 2, none⟩, Op.addEdgeTuple 7 7]).1
    (match readEvents sp (writeEvents s) with
     | .ok t => t.nodesVec = s.nodesVec ∧ t.allEdges = s.allEdges
     | _ => False) := by
  intro sp s
  have h1 : s.specs = sp := by decide
  have h2 : s.nodesVec = [⟨7, none⟩, ⟨3, none⟩] := by decide
  have h3 : s.allEdges = [⟨3, 7, some 1, none⟩, ⟨3, 7, some 2, none⟩, ⟨7, 7, none, none⟩] := by decide
  have hr := C14_roundtrip_is_rebuild s
  rw [h1, h2, h3] at hr
  simp only [List.map_cons, List.map_nil] at hr
  rw [hr, h2, h3]
  have key : sameNE (Store.newFrom sp [⟨7, none⟩, ⟨3, none⟩] [⟨3, 7, some 1, none⟩, ⟨3, 7, some 2, none⟩, ⟨7, 7, none, none⟩])
      [⟨7, none⟩, ⟨3, none⟩] [⟨3, 7, some 1, none⟩, ⟨3, 7, some 2, none⟩, ⟨7, 7, none, none⟩] = true := by decide
  -- (`have ⟨..⟩`, not `obtain`: `rcases` would try `subst` on `ht` and evaluate `Store.newFrom ..` with `whnf`)
  have ⟨t, ht, hn, he⟩ := sameNE_sound _ _ _ key
  rw [ht]
  exact ⟨hn, he⟩

end Graphrs
