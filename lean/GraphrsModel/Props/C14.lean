import GraphrsModel.ObsXml
namespace Graphrs
/-- placeholder while the framework is brought up: replaced by the property theorems -/
theorem C14_readLoop_nil (st : Xml.RState) : (Xml.readLoop st []).isOk = true := rfl
end Graphrs
