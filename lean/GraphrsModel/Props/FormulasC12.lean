/-
  Source tie for C12 (translator `tools/formulas.py`): the per-community expression of `modularity` in
  src/algorithms/community/partitions.rs together with its `m` and `norm`, regenerated into `Generated/FormulasC12.lean`,
  is Newman's term (`Louvain.termDirected` / `termUndirected`, the summand of `Abs.modularitySpec`), and it is the
  expression the model `Store.modularity` evaluates.
-/
import GraphrsModel.Generated.FormulasC12
import GraphrsModel.Model.Louvain
import Mathlib.Tactic.Ring
import Mathlib.Tactic.FieldSimp
import Mathlib.Algebra.Order.Field.Rat
namespace Graphrs

/-- directed: L_c/m − γ·out_c·in_c/m² -/
theorem C12_src_contribution_directed (lc m res o i : Rat) (hm : m ≠ 0) :
    Src.C12.contribution lc m res o i (Src.C12.normDirected m) = Louvain.termDirected m res lc o i := by
  unfold Src.C12.contribution Src.C12.normDirected Louvain.termDirected
  field_simp

/-- undirected: with m = Σdeg/2 and out = in = deg_c: L_c/m − γ·(deg_c/2m)² -/
theorem C12_src_contribution_undirected (lc degSum res d : Rat) (h : degSum ≠ 0) :
    Src.C12.contribution lc (Src.C12.mUndirected degSum) res d d (Src.C12.normUndirected degSum) =
      Louvain.termUndirected (Src.C12.mUndirected degSum) res lc d := by
  unfold Src.C12.contribution Src.C12.normUndirected Src.C12.mUndirected Louvain.termUndirected
  field_simp

/-- the expressions as `Store.modularity` (Model/Community.lean) writes them -/
theorem C12_src_model_expressions (lc m res o i nm degSum : Rat) :
    Src.C12.contribution lc m res o i nm = lc / m - res * o * i * nm ∧
    Src.C12.normDirected m = (if m == 0 then (0 : Rat) else (1 / m) * (1 / m)) ∧
    Src.C12.mUndirected degSum = degSum / 2 ∧
    Src.C12.normUndirected degSum = (if degSum == 0 then (0 : Rat) else (1 / degSum) * (1 / degSum)) := by
  refine ⟨rfl, ?_, rfl, ?_⟩
  · unfold Src.C12.normDirected
    by_cases h : m = 0
    · subst h; simp
    · rw [if_neg (by simpa using h)]; ring
  · unfold Src.C12.normUndirected
    by_cases h : degSum = 0
    · subst h; simp
    · rw [if_neg (by simpa using h)]; ring

end Graphrs
