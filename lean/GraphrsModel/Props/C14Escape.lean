/-
  C14, the escaping layer: for *every* byte string, the attribute value the writer emits for a node name cannot end the
  attribute early and is unescaped by the reader to the original name. (Model: Model/Escape.lean, quick-xml's `escape`
  and `unescape`, tied to the library by the `esc` correspondence family.)
-/
import GraphrsModel.Model.Escape
namespace Graphrs
open Esc

private theorem step_escByte (b : Nat) (rest : List Nat) :
    unescapeGo none (escByte b ++ rest) = (unescapeGo none rest).map (b :: ·) := by
  unfold escByte
  split
  · next h => have : b = 60 := by simpa using h
              subst this; simp [unescapeGo, resolve, resolveNamed]
  split
  · next h => have : b = 62 := by simpa using h
              subst this; simp [unescapeGo, resolve, resolveNamed]
  split
  · next h => have : b = 39 := by simpa using h
              subst this; simp [unescapeGo, resolve, resolveNamed]
  split
  · next h => have : b = 38 := by simpa using h
              subst this; simp [unescapeGo, resolve, resolveNamed]
  split
  · next h => have : b = 34 := by simpa using h
              subst this; simp [unescapeGo, resolve, resolveNamed]
  · next h1 h2 h3 h4 h5 =>
    have : (b == 38) = false := by simpa using h4
    simp [unescapeGo, this]

/-- **unescape ∘ escape = id**, for every byte string (XML-special characters, whitespace, text that looks like an
    entity, any UTF-8) -/
theorem C14_unescape_escape (bs : List Nat) : unescape (escape bs) = some bs := by
  unfold unescape escape
  induction bs with
  | nil => simp [unescapeGo]
  | cons b bs ih => simp [List.flatMap_cons, step_escByte, ih]

/-- the escaped value contains no quote and no angle bracket -/
theorem C14_escape_no_markup (bs : List Nat) :
    ∀ b ∈ escape bs, b ≠ 34 ∧ b ≠ 39 ∧ b ≠ 60 ∧ b ≠ 62 := by
  intro b hb
  unfold escape at hb
  obtain ⟨a, _, hba⟩ := List.mem_flatMap.mp hb
  unfold escByte at hba
  repeat' split at hba
  all_goals simp at hba
  all_goals first
    | (rcases hba with h | h | h | h | h | h <;> subst h <;> decide)
    | (rcases hba with h | h | h | h | h <;> subst h <;> decide)
    | (rcases hba with h | h | h | h <;> subst h <;> decide)
    | (subst hba; simp_all)

/-- hence the reader's attribute tokenizer (the value ends at the first `"`) returns the whole escaped value, whatever
    follows the closing quote -/
theorem C14_quoted_value_whole (bs rest : List Nat) : quotedValue (escape bs ++ 34 :: rest) = escape bs := by
  unfold quotedValue
  rw [List.takeWhile_append_of_pos]
  · simp
  · intro b hb
    have := (C14_escape_no_markup bs b hb).1
    simpa using this

/-- **a node name survives the write/read of its attribute**: written as `id="<escape name>"...`, tokenized and unescaped -/
theorem C14_name_roundtrip (name rest : List Nat) :
    unescape (quotedValue (escape name ++ 34 :: rest)) = some name := by
  rw [C14_quoted_value_whole, C14_unescape_escape]

/-- distinct names are written as distinct attribute values -/
theorem C14_escape_injective (a b : List Nat) (h : escape a = escape b) : a = b := by
  have := C14_unescape_escape a
  rw [h, C14_unescape_escape] at this
  exact (Option.some.inj this).symm

/-- non-vacuity / examples: `R&D <"é">` and text that already looks like an entity -/
example : escape [82, 38, 68] = [82, 38, 97, 109, 112, 59, 68] ∧ unescape [38, 35, 120, 52, 49, 59] = some [65] ∧
    unescape [38, 97, 109, 112] = none ∧ unescape (escape [38, 108, 116, 59]) = some [38, 108, 116, 59] := by decide

end Graphrs
