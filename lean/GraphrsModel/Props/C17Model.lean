/-
  C17 (model level) — in the step-level Louvain model (Model/LouvainFull.lean) the visit of a node does not depend on
  the order in which the candidate map `weights2com : HashMap<usize, f64>` hands over its entries: the scan and the
  index guards go through the list sorted by community id, `risky` is an `any/any`.  The candidate map the model
  builds has pairwise distinct keys; hence replacing `get_neighbor_weights` by anything that returns a reordering of
  its result changes neither a visit nor `compute_one_level`.
-/
import GraphrsModel.Props.C17
import GraphrsModel.Model.LouvainFull
import GraphrsModel.Lemmas.LouvainVisit
namespace Graphrs
open LouvainFull

private theorem any_perm {α : Type} {l1 l2 : List α} (h : l1.Perm l2) (p : α → Bool) : l1.any p = l2.any p := by
  rw [Bool.eq_iff_iff, List.any_eq_true, List.any_eq_true]
  constructor
  · rintro ⟨x, hx, hp⟩; exact ⟨x, h.subset hx, hp⟩
  · rintro ⟨x, hx, hp⟩; exact ⟨x, h.symm.subset hx, hp⟩

/-- **whatever order the hash map yields its entries in, the visit does the same thing** -/
theorem C17_visit_order_independent (lv : Level) (m res : Rat) (st : LState) (u cur : Nat)
    (w1 w2 : List (Nat × Rat)) (hperm : w1.Perm w2) (hkeys : (w1.map (·.1)).Nodup) :
    visitWith lv m res st u cur w1 = visitWith lv m res st u cur w2 := by
  have hS := isort_key_perm_eq w1 w2 hperm hkeys
  have hU : ∀ (gain : Nat → Rat → Rat) (best : Nat × Rat), Louvain.updateBest gain w1 best = Louvain.updateBest gain w2 best :=
    fun gain best => C17_updateBest_order_independent gain w1 w2 best hperm hkeys
  have hA : ∀ p : Nat × Rat → Bool, w1.any p = w2.any p := any_perm hperm
  unfold visitWith
  simp only [hS, hU, hA]

/-- the association list `neighborWeights` returns has distinct keys (it is built with `ainsert`), so the hypothesis
    `hkeys` above is met by the real candidate map - and by every reordering of it -/
theorem C17_neighborWeights_keys_nodup (g : Store) (u : Nat) (node2com : List (Nat × Nat)) (w2c : List (Nat × Rat))
    (h : neighborWeights g u node2com = .ok w2c) :
    (w2c.map (·.1)).Nodup ∧ ∀ w' : List (Nat × Rat), w'.Perm w2c → (w'.map (·.1)).Nodup := by
  have hk := LF.neighborWeights_keys_nodup h
  exact ⟨hk, fun w' hp => ((hp.map (·.1)).nodup_iff).2 hk⟩

/-! ### replacing `get_neighbor_weights` by any reordering of its result -/

/-- `visit` with the candidate map handed over in the order `ρ` puts it -/
def visitR (ρ : List (Nat × Rat) → List (Nat × Rat)) (lv : Level) (m res : Rat) (st : LState) (u : Nat) : Outcome LState := do
  let cur ← Outcome.ofOption "compute_one_level: node2com.get(u).unwrap()" (alookup st.node2com u)
  let w2c ← neighborWeights lv.g u st.node2com
  visitWith lv m res st u cur (ρ w2c)

/-- `sweeps` over `visitR` -/
def sweepsR (ρ : List (Nat × Rat) → List (Nat × Rat)) (lv : Level) (m res : Rat) (order : List Nat) :
    Nat → LState → Outcome (Option LState)
  | 0, _ => .ok none
  | fuel + 1, st => do
    let st' ← order.foldl (fun acc u => do let s ← acc; visitR ρ lv m res s u) (.ok { st with moves := 0 })
    if st'.moves > 0 then sweepsR ρ lv m res order fuel st' else .ok (some st')

/-- `computeOneLevel` over `sweepsR` -/
def computeOneLevelR (ρ : List (Nat × Rat) → List (Nat × Rat)) (lv : Level) (m res : Rat) (partition : List (List Nat))
    (perm : List Nat) (fuel : Nat) : Outcome (Option (List (List Nat) × List (List Nat) × Bool)) := do
  let names := sortNat lv.g.getAllNodeNames
  let di ← degreeInformation lv.g partition.length
  let base := lv.g.getAllNodeNames
  let order := perm.filterMap fun i => base[i]?
  let st0 : LState := { part := partition, inner := names.map fun n => [n], node2com := names.map fun n => (n, n),
                        di := di, improvement := false, moves := 0 }
  match ← sweepsR ρ lv m res order fuel st0 with
  | none => .ok none
  | some st => if st.risky then .ok none else .ok (some (st.part.filter (!·.isEmpty), st.inner.filter (!·.isEmpty), st.improvement))

/-- a visit is the same whatever reordering `ρ` of the candidate map it is given -/
theorem C17_visit_reorder (ρ : List (Nat × Rat) → List (Nat × Rat)) (hρ : ∀ l, (ρ l).Perm l)
    (lv : Level) (m res : Rat) (st : LState) (u : Nat) : visitR ρ lv m res st u = visit lv m res st u := by
  unfold visitR visit
  simp only [bind, Outcome.bind]
  cases h1 : Outcome.ofOption "compute_one_level: node2com.get(u).unwrap()" (alookup st.node2com u) with
  | err k => rfl
  | panic k => rfl
  | ok cur =>
    cases h2 : neighborWeights lv.g u st.node2com with
    | err k => rfl
    | panic k => rfl
    | ok w2c =>
      simp only
      exact C17_visit_order_independent lv m res st u cur (ρ w2c) w2c (hρ w2c)
        ((C17_neighborWeights_keys_nodup lv.g u st.node2com w2c h2).2 _ (hρ w2c))

theorem C17_sweeps_reorder (ρ : List (Nat × Rat) → List (Nat × Rat)) (hρ : ∀ l, (ρ l).Perm l)
    (lv : Level) (m res : Rat) (order : List Nat) (fuel : Nat) (st : LState) :
    sweepsR ρ lv m res order fuel st = sweeps lv m res order fuel st := by
  have hv : visitR ρ lv m res = visit lv m res := by
    funext s u; exact C17_visit_reorder ρ hρ lv m res s u
  induction fuel generalizing st with
  | zero => rfl
  | succ fuel ih =>
    unfold sweepsR sweeps
    simp only [hv, ih]

/-- **`compute_one_level` does not depend on the order in which `get_neighbor_weights` returns the candidates** -/
theorem C17_computeOneLevel_reorder (ρ : List (Nat × Rat) → List (Nat × Rat)) (hρ : ∀ l, (ρ l).Perm l)
    (lv : Level) (m res : Rat) (partition : List (List Nat)) (perm : List Nat) (fuel : Nat) :
    computeOneLevelR ρ lv m res partition perm fuel = computeOneLevel lv m res partition perm fuel := by
  unfold computeOneLevelR computeOneLevel
  simp only [C17_sweeps_reorder ρ hρ]
  -- the two `match`es are different auxiliary matchers with the same unfolding
  rfl

/-! ### the whole seeded run: level loop and `louvain_partitions` -/

/-- `levelLoop` over `computeOneLevelR` -/
def levelLoopR (ρ : List (Nat × Rat) → List (Nat × Rat)) (weighted : Bool) (res threshold m : Rat) (perms : List (List Nat))
    (sweepFuel : Nat) :
    Nat → Level → List (List Nat) → List (List Nat) → Bool → Rat → List (List (List Nat)) → Outcome (Option (List (List (List Nat))))
  | 0, _, _, _, _, _, _ => .ok none
  | fuel + 1, lv, partition, inner, improvement, modularity, acc =>
    if !improvement then .ok (some acc)
    else do
      let acc := acc ++ [partition]
      match ← (lv.g.modularity inner weighted res).unwrap "louvain_partitions: modularity().unwrap()" with
      | none => .ok none
      | some newMod =>
        if newMod - modularity ≤ threshold then .ok (some acc)
        else do
          let lv' ← generateGraph lv inner
          let perm := perms[lv'.g.numNodes]?.getD []
          match ← computeOneLevelR ρ lv' m res partition perm sweepFuel with
          | none => .ok none
          | some (p, i, imp) => levelLoopR ρ weighted res threshold m perms sweepFuel fuel lv' p i imp newMod acc

/-- `louvainPartitions` with every candidate map handed over in the order `ρ` puts it -/
def louvainPartitionsR (ρ : List (Nat × Rat) → List (Nat × Rat)) (s : Store) (weighted : Bool) (res threshold : Rat)
    (perms : List (List Nat)) : Outcome (Option (List (List (List Nat)))) := do
  let lv ← convertGraph s weighted
  let n := lv.g.numNodes
  let partition : List (List Nat) := (List.range n).map fun i => [i]
  match ← (lv.g.modularity partition weighted res).unwrap "louvain_partitions: modularity().unwrap()" with
  | none => .ok none
  | some mod0 =>
    let m : Rat := if weighted then ratW lv.g.sizeWeighted else (lv.g.sizeUnweighted : Rat)
    let sweepFuel := 4 * n * n + 16
    match ← computeOneLevelR ρ lv m res partition (perms[n]?.getD []) sweepFuel with
    | none => .ok none
    | some (p, i, _) => levelLoopR ρ weighted res threshold m perms sweepFuel (n + 2) lv p i true mod0 []

theorem C17_levelLoop_reorder (ρ : List (Nat × Rat) → List (Nat × Rat)) (hρ : ∀ l, (ρ l).Perm l)
    (weighted : Bool) (res threshold m : Rat) (perms : List (List Nat)) (sweepFuel fuel : Nat) (lv : Level)
    (partition inner : List (List Nat)) (improvement : Bool) (modularity : Rat) (acc : List (List (List Nat))) :
    levelLoopR ρ weighted res threshold m perms sweepFuel fuel lv partition inner improvement modularity acc
      = levelLoop weighted res threshold m perms sweepFuel fuel lv partition inner improvement modularity acc := by
  have hc : computeOneLevelR ρ = computeOneLevel := by
    funext lv m res p perm f; exact C17_computeOneLevel_reorder ρ hρ lv m res p perm f
  induction fuel generalizing lv partition inner improvement modularity acc with
  | zero => rfl
  | succ fuel ih =>
    unfold levelLoopR levelLoop
    simp only [hc, ih]
    rfl

/-- **the seeded run as a whole — every level of `louvain_partitions` — is the same for every order in which the
    candidate maps yield their entries**: with the seed's shuffles `perms` fixed, the model's answer is a function of the
    graph and the arguments alone -/
theorem C17_louvainPartitions_reorder (ρ : List (Nat × Rat) → List (Nat × Rat)) (hρ : ∀ l, (ρ l).Perm l)
    (s : Store) (weighted : Bool) (res threshold : Rat) (perms : List (List Nat)) :
    louvainPartitionsR ρ s weighted res threshold perms = louvainPartitions s weighted res threshold perms := by
  have hc : computeOneLevelR ρ = computeOneLevel := by
    funext lv m res p perm f; exact C17_computeOneLevel_reorder ρ hρ lv m res p perm f
  have hl : levelLoopR ρ = levelLoop := by
    funext w r t m ps sf f lv p i imp md acc; exact C17_levelLoop_reorder ρ hρ w r t m ps sf f lv p i imp md acc
  unfold louvainPartitionsR louvainPartitions
  simp only [hc, hl]
  rfl

/-- two calls (two processes, two hash seeds) that hand their candidate maps over in different orders agree -/
theorem C17_louvainPartitions_two_orders (ρ₁ ρ₂ : List (Nat × Rat) → List (Nat × Rat))
    (h₁ : ∀ l, (ρ₁ l).Perm l) (h₂ : ∀ l, (ρ₂ l).Perm l)
    (s : Store) (weighted : Bool) (res threshold : Rat) (perms : List (List Nat)) :
    louvainPartitionsR ρ₁ s weighted res threshold perms = louvainPartitionsR ρ₂ s weighted res threshold perms := by
  rw [C17_louvainPartitions_reorder ρ₁ h₁, C17_louvainPartitions_reorder ρ₂ h₂]

/-- non-vacuity: reversing the candidate map is such a reordering -/
example : ∀ l : List (Nat × Rat), (List.reverse l).Perm l := fun l => List.reverse_perm l

end Graphrs
