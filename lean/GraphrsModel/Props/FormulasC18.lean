/-
  Source tie for C18 (translator `tools/formulas.py`, generic-scalar mode): the expressions of
  src/algorithms/centrality/eigenvector.rs - the start value `1.0 / nnodes as f64`, the choice of the unit weight, the
  contribution `xlast[n] * w`, the squared entry, the square root, the zero-norm guard, the absolute change per entry and the
  stopping test `y < nnodes as f64 * tolerance` - are re-read from the source on every run as terms over the `Scalar` record
  (`Generated/FormulasC18.lean`) and are the expressions of the generic model, for *every* scalar instance: the `Float` instance
  the driver runs and the real instance the C18 theorems are about.
-/
import GraphrsModel.Generated.FormulasC18
import GraphrsModel.Model.Centrality
namespace Graphrs

variable {α : Type}

/-- `match !weighted || edge.weight.is_nan() { true => 1.0, false => edge.weight }` -/
theorem C18_src_weight (S : Scalar α) (weighted : Bool) (e : Edge) :
    eigWeightG S weighted e = if Src.C18.unitWeight weighted e.w.isNan then S.one else S.ofW e.w := rfl

/-- the inner loop body with the contribution taken from the source -/
def Store.eigInnerSrc (S : Scalar α) (s : Store) (weighted : Bool) (kv : Nat × α)
    (acc2 : Outcome (List (Nat × α))) (nbr : Node) : Outcome (List (Nat × α)) := do
  let x ← acc2
  let e ← (s.getEdge kv.1 nbr.name).unwrap "eigenvector: get_edge().unwrap()"
  let w : α := if Src.C18.unitWeight weighted e.w.isNan then S.one else S.ofW e.w
  match alookup x nbr.name with
  | some old => .ok (ainsert x nbr.name (S.add old (Src.C18.contribution S kv.2 w)))
  | none => .panic "eigenvector: x.get_mut().unwrap()"

theorem C18_src_inner (S : Scalar α) (s : Store) (weighted : Bool) (kv : Nat × α)
    (acc2 : Outcome (List (Nat × α))) (nbr : Node) :
    s.eigInnerG S weighted kv acc2 nbr = s.eigInnerSrc S weighted kv acc2 nbr := rfl

/-- `norm = sqrt(Σ v.powf(2.0))`, `norm == 0.0 ⇒ 1.0`, `v /= norm` with the source's expressions -/
def eigNormaliseSrc (S : Scalar α) (x : List (Nat × α)) : List (Nat × α) :=
  let norm := Src.C18.normRoot S (sumG S (x.map fun kv => Src.C18.square S kv.2))
  let norm := if Src.C18.normIsZero S norm then S.one else norm
  x.map fun kv => (kv.1, S.div kv.2 norm)

theorem C18_src_normalise (S : Scalar α) (x : List (Nat × α)) : eigNormaliseG S x = eigNormaliseSrc S x := rfl

/-- `y = Σ |v - xlast[k]|` -/
theorem C18_src_delta (S : Scalar α) (xlast x : List (Nat × α)) :
    eigDeltaG S xlast x = sumG S (x.map fun kv => Src.C18.change S kv.2 ((alookup xlast kv.1).getD S.zero)) := rfl

/-- **the stopping test of the model is the source's** -/
theorem C18_src_converged (S : Scalar α) (nnodes : Nat) (tol : α) (xlast x : List (Nat × α)) :
    eigConvergedG S nnodes tol xlast x = Src.C18.converged S (eigDeltaG S xlast x) nnodes tol := rfl

/-- the start vector `1.0 / nnodes as f64` -/
theorem C18_src_start (S : Scalar α) (s : Store) (weighted : Bool) (maxIter : Nat) (tol margin0 : α) :
    s.eigenvectorG S weighted maxIter tol margin0 =
      (do s.ensureNotMulti
          let n := s.getAllNodes.length
          let x0 := s.getAllNodes.foldl (fun l nd => ainsert l nd.name (Src.C18.start S n)) []
          eigLoopG S s weighted n tol maxIter 0 x0 margin0) := rfl

end Graphrs
