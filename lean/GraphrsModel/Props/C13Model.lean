/-
  C13 (model level) — the step-level model of Louvain (Model/LouvainFull.lean) returns, whenever it returns, a
  non-empty list of levels, each a partition of the node ranks into non-empty communities, each level a coarsening
  of the previous one - for every graph, every resolution / threshold and EVERY family of shuffle permutations.
-/
import GraphrsModel.Props.Core
import GraphrsModel.Model.LouvainFull
import GraphrsModel.Props.C13
import GraphrsModel.Lemmas.LouvainVisit
import GraphrsModel.Lemmas.LouvainSweep
import GraphrsModel.Lemmas.LouvainGraphs
import GraphrsModel.Lemmas.LouvainNoPanic
import Mathlib.Data.List.Chain
namespace Graphrs
open LouvainFull

/-- `l` is a partition of `{0, …, n-1}` into non-empty sets -/
def IsPartitionOfRange (n : Nat) (l : List (List Nat)) : Prop :=
  (∀ c ∈ l, c ≠ []) ∧ (l.flatMap id).Nodup ∧ ∀ x, x ∈ l.flatMap id ↔ x < n

/-- every set of `fine` lies inside one set of `coarse` -/
def Coarsens (coarse fine : List (List Nat)) : Prop := ∀ f ∈ fine, ∃ c ∈ coarse, ∀ x ∈ f, x ∈ c

/-- one visit keeps the bookkeeping consistent: `part`/`inner`/`node2com` still describe one assignment of nodes to communities -/
theorem C13_visit_preserves_assignment (lv : Level) (m res : Rat) (st st' : LState) (u : Nat)
    (hv : visit lv m res st u = .ok st')
    (hcons : ∀ x c, alookup st.node2com x = some c → x ∈ (st.inner[c]?.getD [])) :
    ∀ x c, alookup st'.node2com x = some c → x ∈ (st'.inner[c]?.getD []) := by
  obtain ⟨cur, w2c, best, hcur, hw, hbest, -, -, -, -, -, -, hcase⟩ := LF.visit_ok hv
  rcases hcase with ⟨hne, hst⟩ | ⟨-, hst⟩
  · have hbk : best ∈ w2c.map (·.1) := by
      rcases hbest with h | h
      · exact absurd h hne
      · exact h
    obtain ⟨v, hv2⟩ := LF.neighborWeights_keys hw best hbk
    have hbl : best < st.inner.length := LF.lt_length_of_mem_getD (hcons v best hv2)
    have hcl : cur < st.inner.length := LF.lt_length_of_mem_getD (hcons u cur hcur)
    intro x c hx
    rw [hst] at hx ⊢
    simp only [LF.moved] at hx ⊢
    rw [AL.lookup_insert] at hx
    rw [LF.getD_set, LF.getD_set, List.length_set]
    by_cases hux : u = x
    · rw [if_pos hux] at hx
      cases hx
      subst hux
      rw [if_pos ⟨rfl, hbl⟩, mem_sinsert]
      exact Or.inr rfl
    · rw [if_neg hux] at hx
      have hmem := hcons x c hx
      by_cases hbc : best = c
      · subst hbc
        rw [if_pos ⟨rfl, hbl⟩, mem_sinsert, if_neg (by intro h; exact hne h.1.symm)]
        exact Or.inl hmem
      · rw [if_neg (by intro h; exact hbc h.1), LF.getD_set]
        by_cases hcc : cur = c
        · subst hcc
          rw [if_pos ⟨rfl, hcl⟩, List.mem_filter]
          refine ⟨hmem, ?_⟩
          simp only [bne_iff_ne, ne_eq]
          exact fun h => hux h.symm
        · rw [if_neg (by intro h; exact hcc h.1)]
          exact hmem
  · intro x c hx
    rw [hst] at hx ⊢
    exact hcons x c hx

namespace LF


theorem levelLoop_inv (weighted : Bool) (res threshold m : Rat) (perms : List (List Nat)) (sweepFuel n : Nat) :
    ∀ (fuel : Nat) (lv : Level) (k : Nat) (partition inner : List (List Nat)) (improvement : Bool) (modularity : Rat)
      (acc levels : List (List (List Nat))),
    GoodLevel lv n k → lv.g.wf = true → PI lv k partition inner →
    (∀ l ∈ acc, PartOfRange n l) → List.IsChain (fun fine coarse => Coarsens coarse fine) acc →
    (∀ x ∈ acc.getLast?, Coarsens partition x) →
    levelLoop weighted res threshold m perms sweepFuel fuel lv partition inner improvement modularity acc = .ok (some levels) →
    (∀ l ∈ levels, PartOfRange n l) ∧ List.IsChain (fun fine coarse => Coarsens coarse fine) levels ∧
    ((improvement = true ∨ acc ≠ []) → levels ≠ []) := by
  intro fuel
  induction fuel with
  | zero => intro lv k partition inner improvement modularity acc levels _ _ _ _ _ _ h; simp [levelLoop] at h
  | succ fuel ih =>
    intro lv k partition inner improvement modularity acc levels hg hwf hpi hacc hchain hlast h
    unfold levelLoop at h
    by_cases himp : improvement = true
    · simp only [himp, Bool.not_true, Bool.false_eq_true, if_false, bind, Outcome.bind] at h
      have hacc' : ∀ l ∈ acc ++ [partition], PartOfRange n l := by
        intro l hl
        rw [List.mem_append, List.mem_singleton] at hl
        rcases hl with hl | rfl
        · exact hacc l hl
        · exact hpi.partition hg
      have hchain' : List.IsChain (fun fine coarse => Coarsens coarse fine) (acc ++ [partition]) := by
        rw [List.isChain_append]
        refine ⟨hchain, by simp, ?_⟩
        intro x hx y hy
        simp only [List.head?_cons, Option.mem_def, Option.some.injEq] at hy
        subst hy
        exact hlast x hx
      split at h
      next x omod hmod =>
        cases omod with
        | none => simp at h
        | some newMod =>
          simp only at h
          by_cases hth : newMod - modularity ≤ threshold
          · rw [if_pos hth] at h
            simp only [Outcome.ok.injEq, Option.some.injEq] at h
            subst h
            exact ⟨hacc', hchain', fun _ => by simp⟩
          · rw [if_neg hth] at h
            split at h
            next y lv' hgen =>
              obtain ⟨hwf', _, _, hg', hmem'⟩ := generateGraph_good lv n k hg hwf inner hpi.inner_part lv' hgen
              have hin' : InputOK lv' inner.length partition := hpi.inputOK hmem'
              split at h
              next z ores hcol =>
                cases ores with
                | none => simp at h
                | some r =>
                  obtain ⟨p, i, imp⟩ := r
                  simp only at h
                  obtain ⟨hpi', hco⟩ := computeOneLevel_post hg' hin' hcol
                  have := ih lv' inner.length p i imp newMod (acc ++ [partition]) levels hg' hwf' hpi' hacc' hchain'
                    (by intro x hx; simp at hx; subst hx; exact hco) h
                  exact ⟨this.1, this.2.1, fun _ => this.2.2 (Or.inr (by simp))⟩
              all_goals (exact absurd h (by simp))
            all_goals (exact absurd h (by simp))
      all_goals (exact absurd h (by simp))
    · simp only [himp, Bool.not_false, if_true] at h
      have himp' : improvement = false := by simpa using himp
      simp only [Outcome.ok.injEq, Option.some.injEq] at h
      subst h
      exact ⟨hacc, hchain, fun hh => by rcases hh with hh | hh; exact absurd hh (by simp [himp']); exact hh⟩

end LF

/-- **levels are partitions and nested** -/
theorem C13_model_levels (s : Store) (h : s.wf = true) (weighted : Bool) (res threshold : Rat) (perms : List (List Nat))
    (levels : List (List (List Nat))) (hl : louvainPartitions s weighted res threshold perms = .ok (some levels)) :
    levels ≠ [] ∧ (∀ l ∈ levels, IsPartitionOfRange s.numNodes l) ∧
    (∀ i, ∀ fine coarse, levels[i]? = some fine → levels[i + 1]? = some coarse → Coarsens coarse fine) := by
  unfold louvainPartitions at hl
  simp only [bind, Outcome.bind] at hl
  split at hl
  next x lv hlv =>
    obtain ⟨hwf, _, hnum, hg, hmem⟩ := LF.convertGraph_good s h weighted lv hlv
    rw [hnum] at hl
    have hin : LF.InputOK lv s.numNodes ((List.range s.numNodes).map fun i => [i]) := by
      refine ⟨by simp, ?_, ?_⟩
      · intro i hi; rw [LF.getD_map_range, if_pos hi]; simp
      · intro i z hi; rw [LF.getD_map_range, if_pos hi, hmem]
    split at hl
    next y omod hmod =>
      cases omod with
      | none => simp at hl
      | some mod0 =>
        simp only at hl
        split at hl
        next z ores hcol =>
          cases ores with
          | none => simp at hl
          | some r =>
            obtain ⟨p, i, imp⟩ := r
            simp only at hl
            obtain ⟨hpi, _⟩ := LF.computeOneLevel_post hg hin hcol
            obtain ⟨h1, h2, h3⟩ := LF.levelLoop_inv weighted res threshold _ perms _ s.numNodes _ lv s.numNodes p i true mod0 []
              levels hg hwf hpi (by simp) (by simp) (by simp) hl
            refine ⟨h3 (Or.inl rfl), h1, ?_⟩
            intro j fine coarse hf hc
            rw [List.isChain_iff_getElem] at h2
            have hj : j + 1 < levels.length := by
              by_contra hcon
              rw [List.getElem?_eq_none (by omega)] at hc
              cases hc
            have := h2 j hj
            rw [List.getElem?_eq_getElem (by omega)] at hf
            rw [List.getElem?_eq_getElem hj] at hc
            cases hf; cases hc
            exact this
        all_goals (exact absurd hl (by simp))
    all_goals (exact absurd hl (by simp))
  all_goals (exact absurd hl (by simp))

/-- the model never reaches a panic site on a well-formed single- or multi-edge store with weights on all edges (or unweighted mode) -/
theorem C13_model_no_panic (s : Store) (h : s.wf = true) (weighted : Bool) (res threshold : Rat) (perms : List (List Nat))
    (hw : weighted = true → s.edgesHaveWeight = true) :
    (louvainPartitions s weighted res threshold perms).isPanic = false := by
  -- stronger: the model always returns `.ok _` on a well-formed store (`hw` is not needed)
  have _ := hw
  obtain ⟨r, hr⟩ := LF.louvainPartitions_exists s h weighted res threshold perms
  rw [hr]
  rfl

/-- (stronger than `C13_model_no_panic`) on every well-formed store, for every resolution / threshold / shuffle family and both
    weight modes, the model returns `.ok _`: no panic site and no error is reachable (`.ok none` = fuel exhausted, undefined
    modularity or a flagged near-tie) -/
theorem C13_model_always_ok (s : Store) (h : s.wf = true) (weighted : Bool) (res threshold : Rat) (perms : List (List Nat)) :
    ∃ r, louvainPartitions s weighted res threshold perms = .ok r :=
  LF.louvainPartitions_exists s h weighted res threshold perms

/-- the slice-index sites of one visit (`_partition[com]`, `inner_partition[com]`; explicit `idxGuard`s in the model) are in range
    on every state satisfying the bookkeeping invariant `LF.SInv` of the visiting loop: both the community left and the community
    entered are `<` the lengths of `part` and `inner` (see `C13_model_index_sites_safe` for the `stot*` vectors) -/
theorem C13_visit_indices_in_range (lv : Level) (n k : Nat) (m res : Rat) (st st' : LState) (u : Nat)
    (hg : LF.GoodLevel lv n k) (hs : LF.SInv lv k st) (hv : visit lv m res st u = .ok st') :
    ∃ cur best, alookup st.node2com u = some cur ∧ alookup st'.node2com u = some best ∧
      cur < st.part.length ∧ best < st.part.length ∧ cur < st.inner.length ∧ best < st.inner.length ∧
      LF.SInv lv k st' := by
  have hs' := hs.visit hg hv
  obtain ⟨cur, hcur⟩ := hs.n2c_total u ((hs.n2c_lt u _ (LF.visit_ok hv).choose_spec.choose_spec.choose_spec.1).1)
  obtain ⟨best, hbest⟩ := hs'.n2c_total u (hs.n2c_lt u cur hcur).1
  have h1 := (hs.n2c_lt u cur hcur).2
  have h2 := (hs'.n2c_lt u best hbest).2
  exact ⟨cur, best, hcur, hbest, by rw [hs.part_len]; exact h1, by rw [hs.part_len]; exact h2,
    by rw [hs.inner_len]; exact h1, by rw [hs.inner_len]; exact h2, hs'⟩

/-- **no index-site panic.**  Every slice-index expression of the Rust code (`_partition[n2c]`, `inner_partition[n2c]`,
    `_partition[best_com]`, `inner_partition[best_com]`, `stot*[best_com] -=`, `stot*[nbr_com]`, `stot*[best_com] +=`) is an explicit
    `idxGuard` in the model: out of range = `.panic site`.  On a well-formed single-edge level graph with nodes `0..k-1`
    (`LF.GoodLevel`; every level graph built from a wf store is one: `LF.convertGraph_spec`, `LF.generateGraph_spec`) and a state
    satisfying the invariant of the visiting loop (`LF.SInv`: `part` and `inner` have `k` slots and all community ids are `< k`;
    `LF.DegOK`: the degree maps are total and the `stot*` vectors have `k` slots):
    (a) every community id in use is a valid index of all five vectors;
    (b) `visit` returns `.ok` (so none of its guards, and no `unwrap`, fails) and re-establishes the invariant;
    (c) `computeOneLevel` returns `.ok` for every shuffle, every fuel and every input partition listing the member blocks. -/
theorem C13_model_index_sites_safe (lv : Level) (n k : Nat) (hg : LF.GoodLevel lv n k) (hwf : lv.g.wf = true)
    (hm : lv.g.specs.multi = false) :
    (∀ (st : LState), LF.SInv lv k st → LF.DegOK lv.g k st.di → ∀ x c, alookup st.node2com x = some c →
      c < st.part.length ∧ c < st.inner.length ∧
      (lv.g.specs.directed = true → c < st.di.stotIn.length ∧ c < st.di.stotOut.length) ∧
      (lv.g.specs.directed = false → c < st.di.stot.length)) ∧
    (∀ (st : LState) (m res : Rat) (u : Nat), LF.SInv lv k st → LF.DegOK lv.g k st.di → u ∈ lv.g.getAllNodeNames →
      ∃ st', visit lv m res st u = .ok st' ∧ LF.SInv lv k st' ∧ LF.DegOK lv.g k st'.di) ∧
    (∀ (partition : List (List Nat)) (m res : Rat) (perm : List Nat) (fuel : Nat), LF.InputOK lv k partition →
      ∃ r, computeOneLevel lv m res partition perm fuel = .ok r) := by
  refine ⟨?_, ?_, ?_⟩
  · intro st hs hd x c hx
    have hc := (hs.n2c_lt x c hx).2
    refine ⟨by rw [hs.part_len]; exact hc, by rw [hs.inner_len]; exact hc, ?_, ?_⟩
    · intro hdir
      obtain ⟨_, _, h1, h2⟩ := hd.dir hdir
      exact ⟨by rw [h1]; exact hc, by rw [h2]; exact hc⟩
    · intro hdir
      obtain ⟨_, h1⟩ := hd.undir hdir
      rw [h1]; exact hc
  · intro st m res u hs hd hu
    obtain ⟨st', hv⟩ := LF.visit_exists hg hwf hm hs hd m res u hu
    exact ⟨st', hv, hs.visit hg hv, LF.visit_degOK hv hd⟩
  · intro partition m res perm fuel hin
    exact LF.computeOneLevel_exists hg hwf hm hin m res perm fuel

end Graphrs
