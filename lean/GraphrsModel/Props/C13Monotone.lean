/-
  C13 — Louvain: in the exact-arithmetic step-level model (Model/LouvainFull.lean), the modularity of the levels,
  measured on the INPUT graph, never decreases, and the first level is at least as good as the all-singletons
  partition.

  `LouvainFull.inputModularity s weighted res P` (Lemmas/LouvainMonoSpec.lean) is Newman's formula
  `Abs.modularitySpec` on the abstract graph `s.abs` of the store for the communities of `P` (lists of node ranks,
  as the model returns them) mapped back to node names - the quantity the checker of the harness (`ObsComm.lean`,
  `ok.monotone`) computes from the implementation's output.

  Main result (`C13_model_levels_monotone_F`, and `C13_model_levels_monotone` for the model at its hard-coded fuels,
  `C13_model_levels_monotone_W` for the `Stop`-annotated form): for every well-formed single-edge store without negative
  weights and with positive total weight (unweighted mode: at least one edge), every `res ≥ 0`, EVERY threshold, every
  family of shuffle permutations and all fuels: if the model returns `some levels`, there is a function `Q` with
  `inputModularity s weighted res P = some (Q P)` for every list of communities `P` (so the value is defined for the
  singletons and for every level), `Q singletons ≤ Q levels[0]` and `Q levels[i] ≤ Q levels[i+1]`.

  Proof (Lemmas/LouvainMono*.lean).
  1. `LM.wsum es f = Σ_e w_e f(e.u, e.v)`; `LM.Qlist` = Σ over the communities of the modularity term, written with
     `wsum` over the edge list of the level-0 (converted) graph.
  2. Aggregation invariant `LM.AggInv`: every (symmetric, when undirected) edge sum of a level graph equals the edge sum
     of the level-0 graph after mapping each original node to its super-node; true for `convert_graph` with `B = id`,
     preserved by `generate_graph` (`LM.agg_step`: `add_edge` appends the first edge between two communities or
     replaces the single stored one by the accumulated weight; `LM.addEdge_step`).
  3. On such a level the degree maps of `get_degree_information` are edge sums, so the potential `LT.Phi` of the
     termination proof is the modularity of the assignment (`LM.Phi_eq_Qasg`), and the modularity `Qlist` of the
     partition of ORIGINAL nodes a state carries (`st.part`) equals that potential (`LM.Qlist_part`).
  4. No visit decreases `Phi` (`LT.visit_step`), hence one `compute_one_level` returns a partition at least as good as
     the one it was handed (`LM.level_mono`); the partition handed to level i+1 is the one returned by level i
     (`LF.PI.inputOK`), and the first one is the all-singletons partition (`LM.levelLoop_mono`, `LM.lpTailF_mono`).
  5. `Qlist` on the converted graph is Newman's formula on the input (`LM.inputModularity_eq`).
  The threshold test of the loop (`newMod - modularity ≤ threshold`, with `newMod` measured on the level graph) is not
  used: the statement holds for every threshold, also negative ones.
-/
import GraphrsModel.Lemmas.LouvainMonoSpec
import GraphrsModel.Props.C13TerminationFull
namespace Graphrs
open LouvainFull

namespace LM

theorem sumW_some_nonan (l : List Edge) (z : Int) (h : Abs.sumW l = some z) : NoNaN l := by
  induction l generalizing z with
  | nil => intro e he; cases he
  | cons e l ih =>
    rw [C12W.sumW_cons] at h
    cases hw : e.w with
    | none => rw [hw] at h; simp [W.add] at h
    | some x =>
      cases hs : Abs.sumW l with
      | none => rw [hw, hs] at h; simp [W.add] at h
      | some y =>
        intro e' he'
        rcases List.mem_cons.1 he' with rfl | h'
        · rw [hw]; simp
        · exact ih y hs e' h'

/-- positive total weight in weighted mode: no weight is NaN -/
theorem nonan_of_totalWeight (s : Store) (hm : 0 < totalWeight s true) : NoNaN s.allEdges := by
  unfold totalWeight at hm
  simp only [if_true] at hm
  have : s.sizeWeighted = Abs.sumW s.allEdges := rfl
  rw [this] at hm
  cases hs : Abs.sumW s.allEdges with
  | none => rw [hs] at hm; simp [ratW] at hm
  | some z => exact sumW_some_nonan _ z hs

end LM

/-- the modularity of every list of communities `P` (node ranks) measured on the input graph is defined, and equals
    the sum `LM.Qlist` over the edges of the converted graph -/
theorem C13_inputModularity_defined (s : Store) (h : s.wf = true) (hmulti : s.specs.multi = false) (weighted : Bool)
    (hm : 0 < totalWeight s weighted) (res : Rat) (lv : Level) (hlv : convertGraph s weighted = .ok lv)
    (P : List (List Nat)) :
    inputModularity s weighted res P = some (LM.Qlist s.specs.directed lv.g.allEdges (mOf lv weighted) res P) := by
  have hnan : weighted = true → LM.NoNaN s.allEdges := by
    intro hw'; subst hw'; exact LM.nonan_of_totalWeight s hm
  exact LM.inputModularity_eq s h hmulti weighted lv hlv hnan res (ne_of_gt (LF.mOf_pos s h weighted lv hlv hm)) P

/-- **C13 (modularity never decreases from level to level), for all fuels.**  `s` well-formed and single-edge, no
    negative weight (weighted mode; NaN is excluded by the positive total weight), positive total weight (unweighted
    mode: the number of edges), `res ≥ 0`; every threshold, every shuffle family, every pair of fuels.  If the model
    returns `some levels`, the modularity measured on the input graph is defined (`some (Q P)`) for every list of
    communities, the first level is at least as good as the all-singletons partition and every level is at least as
    good as the previous one. -/
theorem C13_model_levels_monotone_F (s : Store) (h : s.wf = true) (hmulti : s.specs.multi = false) (weighted : Bool)
    (res threshold : Rat) (perms : List (List Nat))
    (hw : weighted = true → ∀ e ∈ s.allEdges, ∀ w, e.w = some w → 0 ≤ w)
    (hm : 0 < totalWeight s weighted) (hres : 0 ≤ res)
    (sweepFuel levelFuel : Nat) (levels : List (List (List Nat)))
    (hl : louvainPartitionsF sweepFuel levelFuel s weighted res threshold perms = .ok (some levels)) :
    ∃ Q : List (List Nat) → Rat,
      (∀ P, inputModularity s weighted res P = some (Q P)) ∧
      (∀ l0, levels[0]? = some l0 → Q ((List.range s.numNodes).map fun i => [i]) ≤ Q l0) ∧
      (∀ i a b, levels[i]? = some a → levels[i + 1]? = some b → Q a ≤ Q b) := by
  obtain ⟨lv, hlv, hwf, hmulti', hnum, hg, hmem⟩ := LF.convertGraph_spec s h weighted
  have hnan : weighted = true → LM.NoNaN s.allEdges := by
    intro hw'; subst hw'; exact LM.nonan_of_totalWeight s hm
  have hnn : LF.EdgesNN lv.g := LF.convertGraph_edgesNN s h weighted lv hlv hw
  have hm' := LF.mOf_pos s h weighted lv hlv hm
  have hnan' := LM.conv_nonan s h hmulti weighted lv hlv hnan
  have hdir : lv.g.specs.directed = s.specs.directed := by
    rw [(LM.convertGraph_edges' s h hmulti weighted lv hlv).1]
  unfold louvainPartitionsF at hl
  simp only [bind, Outcome.bind, hlv] at hl
  have hchain := LM.lpTailF_mono lv s.numNodes hg hwf hmulti' hnum hmem hnn hnan' weighted res threshold perms hm' hres
    sweepFuel levelFuel levels hl
  rw [hdir] at hchain
  refine ⟨LM.Qlist s.specs.directed lv.g.allEdges (mOf lv weighted) res,
    fun P => C13_inputModularity_defined s h hmulti weighted hm res lv hlv P, ?_, ?_⟩
  · intro l0 h0
    rw [List.isChain_iff_getElem] at hchain
    have hlen : 0 < levels.length := by
      by_contra hc
      rw [List.getElem?_eq_none (by omega)] at h0
      cases h0
    have := hchain 0 (by simp only [List.length_cons]; omega)
    rw [List.getElem?_eq_getElem hlen] at h0
    cases h0
    exact this
  · intro i a b ha hb
    rw [List.isChain_iff_getElem] at hchain
    have hi : i + 1 < levels.length := by
      by_contra hc
      rw [List.getElem?_eq_none (by omega)] at hb
      cases hb
    have := hchain (i + 1) (by simp only [List.length_cons]; omega)
    rw [List.getElem?_eq_getElem (by omega)] at ha
    rw [List.getElem?_eq_getElem hi] at hb
    cases ha; cases hb
    exact this

/-- **C13 (modularity never decreases from level to level), the model at its hard-coded fuels.** -/
theorem C13_model_levels_monotone (s : Store) (h : s.wf = true) (hmulti : s.specs.multi = false) (weighted : Bool)
    (res threshold : Rat) (perms : List (List Nat))
    (hw : weighted = true → ∀ e ∈ s.allEdges, ∀ w, e.w = some w → 0 ≤ w)
    (hm : 0 < totalWeight s weighted) (hres : 0 ≤ res)
    (levels : List (List (List Nat)))
    (hl : louvainPartitions s weighted res threshold perms = .ok (some levels)) :
    ∃ Q : List (List Nat) → Rat,
      (∀ P, inputModularity s weighted res P = some (Q P)) ∧
      (∀ l0, levels[0]? = some l0 → Q ((List.range s.numNodes).map fun i => [i]) ≤ Q l0) ∧
      (∀ i a b, levels[i]? = some a → levels[i + 1]? = some b → Q a ≤ Q b) := by
  rw [C13_model_is_F s h] at hl
  exact C13_model_levels_monotone_F s h hmulti weighted res threshold perms hw hm hres _ _ levels hl

/-- the same for the `Stop`-annotated model `louvainPartitionsW`, all fuels -/
theorem C13_model_levels_monotone_W (s : Store) (h : s.wf = true) (hmulti : s.specs.multi = false) (weighted : Bool)
    (res threshold : Rat) (perms : List (List Nat))
    (hw : weighted = true → ∀ e ∈ s.allEdges, ∀ w, e.w = some w → 0 ≤ w)
    (hm : 0 < totalWeight s weighted) (hres : 0 ≤ res)
    (sweepFuel levelFuel : Nat) (levels : List (List (List Nat)))
    (hl : louvainPartitionsW sweepFuel levelFuel s weighted res threshold perms = .ok (.ok levels)) :
    ∃ Q : List (List Nat) → Rat,
      (∀ P, inputModularity s weighted res P = some (Q P)) ∧
      (∀ l0, levels[0]? = some l0 → Q ((List.range s.numNodes).map fun i => [i]) ≤ Q l0) ∧
      (∀ i a b, levels[i]? = some a → levels[i + 1]? = some b → Q a ≤ Q b) := by
  have hF : louvainPartitionsF sweepFuel levelFuel s weighted res threshold perms = .ok (some levels) := by
    rw [C13_model_W_erase, hl]
    rfl
  exact C13_model_levels_monotone_F s h hmulti weighted res threshold perms hw hm hres _ _ levels hF

/-- the statement with the `Option` values spelled out: every level has a defined modularity, (a) and (b) -/
theorem C13_model_levels_monotone_values (s : Store) (h : s.wf = true) (hmulti : s.specs.multi = false) (weighted : Bool)
    (res threshold : Rat) (perms : List (List Nat))
    (hw : weighted = true → ∀ e ∈ s.allEdges, ∀ w, e.w = some w → 0 ≤ w)
    (hm : 0 < totalWeight s weighted) (hres : 0 ≤ res)
    (levels : List (List (List Nat)))
    (hl : louvainPartitions s weighted res threshold perms = .ok (some levels)) :
    (∃ q, inputModularity s weighted res ((List.range s.numNodes).map fun i => [i]) = some q) ∧
    (∀ l ∈ levels, ∃ q, inputModularity s weighted res l = some q) ∧
    (∀ l0 q0 q1, levels[0]? = some l0 →
      inputModularity s weighted res ((List.range s.numNodes).map fun i => [i]) = some q0 →
      inputModularity s weighted res l0 = some q1 → q0 ≤ q1) ∧
    (∀ i a b qa qb, levels[i]? = some a → levels[i + 1]? = some b →
      inputModularity s weighted res a = some qa → inputModularity s weighted res b = some qb → qa ≤ qb) := by
  obtain ⟨Q, hQ, h0, h1⟩ := C13_model_levels_monotone s h hmulti weighted res threshold perms hw hm hres levels hl
  refine ⟨⟨_, hQ _⟩, fun l _ => ⟨_, hQ l⟩, ?_, ?_⟩
  · intro l0 q0 q1 hl0 e0 e1
    rw [hQ] at e0 e1
    cases e0; cases e1
    exact h0 l0 hl0
  · intro i a b qa qb ha hb ea eb
    rw [hQ] at ea eb
    cases ea; cases eb
    exact h1 i a b ha hb

/-- the all-singletons partition by ranks is the all-singletons partition by names: the rank singletons, mapped to names,
    are a permutation of `[[x] | x ∈ node names]`, and Newman's formula does not depend on the order of the communities -/
theorem C13_singletons_by_name (s : Store) (h : s.wf = true) (weighted : Bool) (res : Rat) :
    inputModularity s weighted res ((List.range s.numNodes).map fun i => [i])
      = Abs.modularitySpec s.specs.directed s.abs (s.abs.nodeNames.map fun x => [x]) weighted res := by
  obtain ⟨hn, _⟩ := Store.wf_inv h
  have hperm : (sortNat s.getAllNodeNames).Perm s.getAllNodeNames := LF.sortNat_perm _
  have hlen : (sortNat s.getAllNodeNames).length = s.numNodes := by
    rw [hperm.length_eq]; simp [Store.getAllNodeNames, Store.numNodes]
  have e1 : ((List.range s.numNodes).map fun i => [i]).map (LM.toNames (sortNat s.getAllNodeNames))
      = (sortNat s.getAllNodeNames).map fun x => [x] := by
    apply List.ext_getElem
    · simp [hlen]
    · intro i h1 h2
      simp only [List.length_map, List.length_range] at h1
      have hi : i < (sortNat s.getAllNodeNames).length := by rw [hlen]; exact h1
      simp [LM.toNames, List.getElem?_eq_getElem hi]
  have e2 : ((sortNat s.getAllNodeNames).map fun x => [x]).Perm (s.abs.nodeNames.map fun x => [x]) := hperm.map _
  unfold inputModularity
  rw [e1]
  unfold Abs.modularitySpec
  cases Abs.sumO (s.abs.edges.map (Abs.wOf weighted)) with
  | none => rfl
  | some m =>
    simp only
    split
    · rfl
    · rw [C09M.sumO_eq, C09M.sumO_eq]
      exact C12W.sumOpt_perm (e2.map _)

/-! ### non-vacuity -/

/-- an undirected path on 8 nodes, all weights 1 -/
def C13M.exPath : Store := (Store.run ⟨false, false, true, .keepLast, .create, .error⟩
  [Op.addEdge ⟨0, 1, some 1, none⟩, Op.addEdge ⟨1, 2, some 1, none⟩, Op.addEdge ⟨2, 3, some 1, none⟩,
   Op.addEdge ⟨3, 4, some 1, none⟩, Op.addEdge ⟨4, 5, some 1, none⟩, Op.addEdge ⟨5, 6, some 1, none⟩,
   Op.addEdge ⟨6, 7, some 1, none⟩]).1

/-- identity shuffles -/
def C13M.exPerms : List (List Nat) :=
  [[], [0], [0, 1], [0, 1, 2], [0, 1, 2, 3], [0, 1, 2, 3, 4], [0, 1, 2, 3, 4, 5], [0, 1, 2, 3, 4, 5, 6], [0, 1, 2, 3, 4, 5, 6, 7]]

theorem C13M.exPath_hyps : C13M.exPath.wf = true ∧ C13M.exPath.specs.multi = false ∧ C13M.exPath.numNodes = 8 ∧
    (∀ e ∈ C13M.exPath.allEdges, ∀ w, e.w = some w → 0 ≤ w) ∧ totalWeight C13M.exPath true = 7 := by
  refine ⟨Core_reachable_wf _ _, rfl, by decide +kernel, ?_, ?_⟩
  · have hall : C13M.exPath.allEdges.all (fun e => e.w == some 1) = true := by decide +kernel
    intro e he w hw
    have := List.all_eq_true.1 hall e he
    simp only [beq_iff_eq] at this
    rw [this] at hw
    cases hw
    omega
  · have : C13M.exPath.sizeWeighted = some 7 := by decide +kernel
    unfold totalWeight
    rw [if_pos rfl, this]
    simp [ratW]

/-- the model returns two levels on the path ... -/
theorem C13M.exPath_levels :
    louvainPartitions C13M.exPath true 1 (1 / 10000000) C13M.exPerms
      = .ok (some [[[1, 0], [3, 2], [5, 4], [7, 6]], [[3, 2, 1, 0], [7, 6, 5, 4]]]) := by
  decide +kernel

/-- ... the theorem applies to it (hypotheses met, both clauses non-trivially instantiated) ... -/
example : ∃ Q : List (List Nat) → Rat,
    (∀ P, inputModularity C13M.exPath true 1 P = some (Q P)) ∧
    Q ((List.range 8).map fun i => [i]) ≤ Q [[1, 0], [3, 2], [5, 4], [7, 6]] ∧
    Q [[1, 0], [3, 2], [5, 4], [7, 6]] ≤ Q [[3, 2, 1, 0], [7, 6, 5, 4]] := by
  obtain ⟨hwf, hmulti, hn, hw, hm⟩ := C13M.exPath_hyps
  obtain ⟨Q, hQ, h0, h1⟩ := C13_model_levels_monotone C13M.exPath hwf hmulti true 1 (1 / 10000000) C13M.exPerms
    (fun _ => hw) (by rw [hm]; norm_num) (by norm_num) _ C13M.exPath_levels
  rw [hn] at h0
  exact ⟨Q, hQ, h0 _ rfl, h1 0 _ _ rfl rfl⟩

/-- ... and the three values, evaluated by the kernel independently of the theorem: −13/98 ≤ 31/98 ≤ 35/98 -/
example :
    inputModularity C13M.exPath true 1 ((List.range 8).map fun i => [i]) = some (-13 / 98) ∧
    inputModularity C13M.exPath true 1 [[1, 0], [3, 2], [5, 4], [7, 6]] = some (31 / 98) ∧
    inputModularity C13M.exPath true 1 [[3, 2, 1, 0], [7, 6, 5, 4]] = some (5 / 14) := by
  decide +kernel

/-- a directed graph whose node names are not their ranks (10, …, 60), with a self-loop, in unweighted mode,
    resolution 1/2 -/
def C13M.exDir : Store := (Store.run ⟨true, false, true, .keepLast, .create, .error⟩
  [Op.addEdge ⟨10, 20, some 2, none⟩, Op.addEdge ⟨20, 10, some 1, none⟩, Op.addEdge ⟨20, 30, some 1, none⟩,
   Op.addEdge ⟨30, 40, some 3, none⟩, Op.addEdge ⟨40, 30, some 1, none⟩, Op.addEdge ⟨40, 40, some 1, none⟩,
   Op.addEdge ⟨50, 60, some 2, none⟩, Op.addEdge ⟨60, 50, some 2, none⟩, Op.addEdge ⟨60, 10, some 1, none⟩,
   Op.addEdge ⟨30, 50, some 1, none⟩]).1

def C13M.exPermsD : List (List Nat) :=
  [[], [0], [1, 0], [2, 0, 1], [0, 1, 2, 3], [0, 1, 2, 3, 4], [0, 1, 2, 3, 4, 5]]

theorem C13M.exDir_levels :
    louvainPartitions C13M.exDir false (1 / 2) (1 / 10000000) C13M.exPermsD
      = .ok (some [[[1, 0], [3, 2], [5, 4]], [[1, 0, 5, 4], [3, 2]]]) := by
  decide +kernel

example : ∃ Q : List (List Nat) → Rat,
    (∀ P, inputModularity C13M.exDir false (1 / 2) P = some (Q P)) ∧
    Q ((List.range 6).map fun i => [i]) ≤ Q [[1, 0], [3, 2], [5, 4]] ∧
    Q [[1, 0], [3, 2], [5, 4]] ≤ Q [[1, 0, 5, 4], [3, 2]] := by
  have hwf : C13M.exDir.wf = true := Core_reachable_wf _ _
  have hn : C13M.exDir.numNodes = 6 := by decide +kernel
  have hm : totalWeight C13M.exDir false = 10 := by
    have : C13M.exDir.sizeUnweighted = 10 := by decide +kernel
    unfold totalWeight
    rw [if_neg (by simp), this]
    norm_num
  obtain ⟨Q, hQ, h0, h1⟩ := C13_model_levels_monotone C13M.exDir hwf rfl false (1 / 2) (1 / 10000000) C13M.exPermsD
    (fun hc => by cases hc) (by rw [hm]; norm_num) (by norm_num) _ C13M.exDir_levels
  rw [hn] at h0
  exact ⟨Q, hQ, h0 _ rfl, h1 0 _ _ rfl rfl⟩

/-- the values: 1/50 ≤ 53/100 ≤ 54/100 (communities `{10,20}`, `{30,40}`, `{50,60}`, then `{10,20,50,60}`, `{30,40}`) -/
example :
    inputModularity C13M.exDir false (1 / 2) ((List.range 6).map fun i => [i]) = some (1 / 50) ∧
    inputModularity C13M.exDir false (1 / 2) [[1, 0], [3, 2], [5, 4]] = some (53 / 100) ∧
    inputModularity C13M.exDir false (1 / 2) [[1, 0, 5, 4], [3, 2]] = some (27 / 50) ∧
    LM.toNames (sortNat C13M.exDir.getAllNodeNames) [1, 0, 5, 4] = [20, 10, 60, 50] := by
  decide +kernel

end Graphrs
