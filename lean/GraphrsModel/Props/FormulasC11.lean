/-
  Source tie for C11 (translator `tools/formulas.py`): the quotients of `clustering`, `transitivity` and `triangles` in
  src/algorithms/cluster/mod.rs, regenerated into `Generated/FormulasC11.lean`, are the ones the models use: each model
  function is restated with the regenerated expressions in place of its own and proved equal.
-/
import GraphrsModel.Generated.FormulasC11
import GraphrsModel.Model.Cluster
namespace Graphrs

theorem C11_src_clusteringUnweighted (s : Store) (names : Option (List Nat)) :
    s.clusteringUnweighted names = (do
      s.ensureNotMulti
      s.ensureHasNodes names
      if s.specs.directed then do
        let t ← s.directedTrianglesAndDegrees names
        .ok (t.foldl (fun m x => ainsert m x.name
          (if x.tri == 0 then (0 : Rat) else Src.C11.clusteringDirected x.tri x.total x.recip)) [])
      else do
        let t ← s.trianglesAndDegrees names
        .ok (t.foldl (fun m x => ainsert m x.name
          (if x.ntri == 0 then (0 : Rat) else Src.C11.clusteringUndirected x.ntri x.degree)) [])) := by
  rfl

theorem C11_src_triangles (s : Store) (names : Option (List Nat)) :
    s.triangles names = (do
      s.ensureUndirected
      s.ensureHasNodes names
      let t ← s.trianglesAndDegrees names
      .ok (t.foldl (fun m x => ainsert m x.name (Src.C11.trianglesValue x.ntri)) [])) := by
  rfl

theorem C11_src_transitivity (s : Store) :
    s.transitivity = (do
      s.ensureUndirected
      if s.getAllNodes.isEmpty then .ok 0
      else do
        let t ← s.trianglesAndDegrees none
        let tri := sumNat (t.map (·.ntri))
        let contri := sumNat (t.map fun x => Src.C11.transitivityTerm x.degree)
        .ok (if tri == 0 then 0 else Src.C11.transitivityValue (tri : Rat) (contri : Rat))) := by
  rfl

end Graphrs
