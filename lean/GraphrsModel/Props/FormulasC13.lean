/-
  Source tie for C13 / C17 (translator `tools/formulas.py`): the expressions of `update_best_com` in
  src/algorithms/community/louvain.rs, regenerated from the current source into `Generated/FormulasC13.lean`
  (`Graphrs.Src.C13`), are the functions the model and the theorems of Props/C13*.lean, C17*.lean are about.
  Equalities hold up to the field axioms (`ring`), so an algebraically harmless rewrite of the source still passes.
-/
import GraphrsModel.Generated.FormulasC13
import GraphrsModel.Model.Louvain
import Mathlib.Tactic.Ring
import Mathlib.Algebra.Order.Field.Rat
namespace Graphrs

/-- the directed gain of the source is the model's `Louvain.gainDirected` -/
theorem C13_src_gainDirected (m res wt outDeg inDeg stotIn stotOut : Rat) :
    Src.C13.gainDirected m res wt outDeg inDeg stotIn stotOut = Louvain.gainDirected m res wt outDeg inDeg stotIn stotOut := by
  unfold Src.C13.gainDirected Louvain.gainDirected; ring

/-- the undirected gain of the source is the model's `Louvain.gainUndirected` -/
theorem C13_src_gainUndirected (m res wt stot degree : Rat) :
    Src.C13.gainUndirected m res wt stot degree = Louvain.gainUndirected m res wt stot degree := by
  unfold Src.C13.gainUndirected Louvain.gainUndirected; ring

/-- a candidate replaces the best one exactly when its gain is strictly larger, and the scan starts from gain 0 -/
theorem C13_src_acceptance (gain bestMod : Rat) :
    Src.C13.gainAccepted gain bestMod = decide (gain > bestMod) ∧ Src.C13.bestModStart = 0 := ⟨rfl, rfl⟩

/-- `Louvain.updateBest` is the scan of the source: sorted by community id, replacing on `gainAccepted` -/
theorem C13_src_updateBest (gain : Nat → Rat → Rat) (cands : List (Nat × Rat)) (best : Nat × Rat) :
    Louvain.updateBest gain cands best =
      (isort (fun a b => decide (a.1 ≤ b.1)) cands).foldl
        (fun b c => if Src.C13.gainAccepted (gain c.1 c.2) b.2 = true then (c.1, gain c.1 c.2) else b) best := by
  unfold Louvain.updateBest Src.C13.gainAccepted
  simp only [decide_eq_true_eq]

end Graphrs
