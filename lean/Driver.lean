import GraphrsModel.Obs
import GraphrsModel.Proto
import GraphrsModel.Spec.Inv
import GraphrsModel.ObsSP
import GraphrsModel.ObsCen
import GraphrsModel.ObsComp
import GraphrsModel.ObsClu
import GraphrsModel.ObsComm
import GraphrsModel.ObsGen
import GraphrsModel.ObsXml
import GraphrsModel.ObsDegen
import GraphrsModel.ObsEsc
open Graphrs

/-- `store <specs> <universe> <w> <ops>`: the concrete model's and the specification's
    observation of the history. -/
def handleStore : P String := do
  let sp ← P.specs
  let u ← P.listOf P.nat
  let w ← P.weight
  let ops ← P.listOf P.op
  P.done
  let (s, rs) := Store.run sp ops
  let (a, ars) := Abs.run sp ops
  -- the coupling invariant the theorems are about, evaluated on the reached state and on every derived graph
  let wfOf (st : Store) : String :=
    if st.wf && st.rowsNodup && st.entriesStored then "1" else
      "violated:" ++ (if st.rowsNodup then "" else "rowsNodup ") ++ (if st.entriesStored then "" else "entriesStored ") ++ (if st.nodesOk then "" else "nodesOk ") ++ (if st.edgesOk then "" else "edgesOk ") ++
        (if st.adjOk then "" else "adjOk ") ++ (if st.vecOk then "" else "vecOk")
  let derivedWf : String :=
    let ds : List (Outcome Store) := ((subsets u).map fun l => s.getSubgraph l) ++ [s.reverse, s.setAllEdgeWeights w, s.toSingleEdges]
    match ds.findSome? (fun d => match d with | .ok st => if st.wf && st.rowsNodup && st.entriesStored then none else some (wfOf st) | _ => none) with
    | some v => "derived-" ++ v
    | none => "1"
  let m := [("res", pResults rs)] ++ s.api.fields u ++ s.derivedFields u w ++ s.snapFields ++
           [("agree.wf", wfOf s), ("agree.wfderived", derivedWf)]
  let sfields := [("res", pResults ars)] ++ (Abs.api sp a).fields u ++ Abs.derivedFields sp a u w
  pure (pFields "m." m ++ "|" ++ pFields "s." sfields)

def handle (line : String) : String :=
  match line.trimAscii.toString.splitOn " " |>.filter (· ≠ "") with
  | [] => "bad-request empty"
  | cmd :: toks =>
    match parseInts toks with
    | none => "bad-request tokens"
    | some ints =>
      let run (p : P String) : String :=
        match p.run ints with
        | some (r, _) => r
        | none => "bad-request parse"
      match cmd with
      | "store" => run handleStore
      | "sp" => run handleSP
      | "cen" => run handleCen
      | "eig" => run handleEig
      | "comp" => run handleComp
      | "clu" => run handleClu
      | "mod" => run handleMod
      | "louv" => run handleLouv
      | "complete" => run handleComplete
      | "karate" => run handleKarate
      | "gnp" => run handleGnp
      | "gnpstat" => "m.none=0"
      | "gnpdet" => "m.none=0"
      | "parbig" => "m.build=0"
      | "xml" => run handleXml
      | "par" => "m.build=0"
      | "xmlbig" => "m.build=0"
      | "degen" => run handleDegen
      | "esc" => run handleEsc
      | _ => "bad-request command"

partial def loop (h : IO.FS.Stream) (out : IO.FS.Stream) : IO Unit := do
  let line ← h.getLine
  if line.isEmpty then return ()
  out.putStrLn (handle line)
  loop h out

def main : IO Unit := do
  let out ← IO.getStdout
  loop (← IO.getStdin) out
  out.flush
